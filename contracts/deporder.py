"""E1 slice contract on dependency_checker._find_dependency_ordering_for_fields_in_structure (C15): one round of its
`while True` loop (the `for i in range(len(needed))` scan with its for-else), from a symbolic state:

   structures of n <= 4 fields; any subset of them already placed (`needed` = the others in source order, `added` = the
   parameter plus the placed fields); every remaining field has 0, 1 or 2 dependencies, each a SYMBOLIC reference that
   may be any field, the parameter, or something that is never added.

Step obligations
   picks-the-first-ready   if the scan appends a field, every dependency of that field is in `added` (dependencies first),
                           and every field EARLIER in `needed` has a dependency that is not (stable: source order is kept
                           whenever it can be - in particular a source order that already respects dependencies is
                           reproduced, since then the first needed field is always ready)
   bookkeeping             order' = order + [field]; added' = added + {field}; needed' = needed without that field, order kept
   stops-only-when-stuck   the loop is left only when no remaining field is ready; nothing is changed in that round
The induction over rounds (permutation, every field after its dependencies, termination after <= n rounds since `needed`
shrinks) is a paper step on top of these; the cycle detector `_find_cycles` (Tarjan) stays bounded."""
import ast
import importlib

import z3

from vlib import core, pyvc
from vlib.pyvc import GObj, SInt, SRec

DOTTED = "compiler.front_end.dependency_checker._find_dependency_ordering_for_fields_in_structure"


def _slice():
    info = pyvc.load_function(DOTTED)
    loops = [n for n in info.node.body if isinstance(n, ast.While) and ast.unparse(n.test) == "True"]
    if len(loops) != 1 or len(loops[0].body) != 1 or not isinstance(loops[0].body[0], ast.For) or not loops[0].body[0].orelse:  # noqa
        raise core.CheckerError("anchor mismatch: expected one `while True:` loop consisting of a for/else scan in _find_dependency_ordering_for_fields_in_structure")
    # names of the locals, read off their initialisers (a renamed local is not a changed behaviour)
    names = {}
    k = info.node.body.index(loops[0])
    for n in info.node.body[:k]:
        if isinstance(n, ast.Assign) and len(n.targets) == 1 and isinstance(n.targets[0], ast.Name):
            src = ast.unparse(n.value)
            if src == "[]":
                names["order"] = n.targets[0].id
            elif src == "set()":
                names["added"] = n.targets[0].id
            elif src.startswith("list(range(len("):
                names["needed"] = n.targets[0].id
    params = [a.arg for a in info.node.args.args]
    if len(params) == 3:
        names["structure"], names["type_definition"], names["dependencies"] = params
    missing = [x for x in ("order", "added", "needed", "structure", "dependencies") if x not in names]
    if missing:
        raise core.CheckerError("anchor mismatch: _find_dependency_ordering_for_fields_in_structure: cannot identify %s" % missing)
    info.names = names
    return info, loops[0]


def target_round():
    ir_util = importlib.import_module("compiler.util.ir_util")
    info, loop = _slice()
    eng = pyvc.Engine()
    eng.contract(ir_util.hashable_form_of_reference, lambda interp, name: name.f["ghost_id"], "hashable_form_of_reference")
    PARAM = 200

    def harness(c):
        n = int(c.choice("fields", ["1", "2", "3", "4"]))
        placed_mask = int(c.choice("already-placed", [str(m) for m in range(2 ** n - 1)]))      # at least one field remains
        placed = [k for k in range(n) if placed_mask >> k & 1]
        needed0 = [k for k in range(n) if not placed_mask >> k & 1]
        ndeps = [int(x) for x in c.choice("dependencies-per-remaining-field", ["".join(t) for t in __import__("itertools").product("012", repeat=len(needed0))])]
        ids = [100 + k for k in range(n)]
        deps = {}
        for k in range(n):
            deps[ids[k]] = []
        dvars = {}
        for k, nd in zip(needed0, ndeps):
            for j in range(nd):
                v = z3.Int("dependency_%d_of_field_%d" % (j, k))
                c.assume(z3.Or([v == x for x in ids + [PARAM, 999]]))
                dvars.setdefault(k, []).append(v)
                deps[ids[k]].append(SInt(v))
        added0 = [PARAM] + [ids[k] for k in placed]
        added = pyvc.PSet(added0)
        order0 = list(placed)
        order, needed = list(order0), list(needed0)
        structure = SRec("Structure", {"field": [SRec("Field", {"name": SRec("Name", {"ghost_id": ids[k]})}) for k in range(n)]})
        it = pyvc.Interp(c, info)
        nm = info.names
        it.env = {nm["structure"]: structure, nm["dependencies"]: deps, nm["order"]: order, nm["added"]: added, nm["needed"]: needed}
        c.covered = True
        left = False
        try:
            it.block(loop.body)
        except pyvc._Break:
            left = True
        except pyvc.PyRaise as r:
            if r.exc_type == "NameError":
                raise core.CheckerError("anchor mismatch: the scan loop reads %r, which the slice contract does not provide (the function was restructured; re-anchor contracts/deporder.py)" % (r.msg,))
            raise

        def ready(k):
            return z3.And([z3.Or([v == a for a in added0]) for v in dvars.get(k, [])]) if dvars.get(k) else z3.BoolVal(True)
        if left:
            c.oblige("stops-only-when-stuck:no-remaining-field-is-ready", z3.Not(z3.Or([ready(k) for k in needed0])))
            c.oblige("stops-only-when-stuck:nothing-changed", order == order0 and needed == needed0 and list(added) == added0)
            return
        ok = len(order) == len(order0) + 1 and order[:-1] == order0 and order[-1] in needed0
        c.oblige("bookkeeping:exactly-one-remaining-field-appended", ok, detail="%r -> %r" % (order0, order))
        if not ok:
            return
        f = order[-1]
        c.oblige("picks-the-first-ready:dependencies-first", ready(f))
        c.oblige("picks-the-first-ready:every-earlier-remaining-field-is-blocked", z3.And([z3.Not(ready(k)) for k in needed0 if k < f]) if any(k < f for k in needed0) else True)
        c.oblige("bookkeeping:needed-loses-exactly-that-field-in-order", needed == [k for k in needed0 if k != f], detail="%r -> %r" % (needed0, needed))
        c.oblige("bookkeeping:added-gains-exactly-that-field", list(added) == added0 + [ids[f]], detail=repr(list(added)))
    paths = eng.explore(harness)
    return pyvc.collect(paths, "_find_dependency_ordering_for_fields_in_structure.round"), sum(1 for p in paths if p.covered)


TARGETS = {"round": target_round}
