"""Sidecar contracts for the 64-bit gate and C++ integer type selection (C04 layer 2, C05, C07, C19; E1).

constraints._bounds_can_fit_*            exact range predicates
constraints._integer_bounds_errors        no error  <=>  bounds finite and [min,max] fits int64 or uint64
constraints._integer_bounds_errors_for_expression
                                          no error  <=>  result and integer operands all fit int64, or all fit uint64
header_generator._cpp_integer_type_for_range(lo, hi)
                                          first of int32,uint32,int64,uint64 whose range contains [lo,hi]; None iff none
header_generator._cpp_integer_type_for_enum(bits, signed)
                                          smallest of 8/16/32/64 >= bits with the declared signedness; total on 1..64
Composition (paper): C05 soundness puts every run-time value inside its inferred bounds; the gate puts the
hull of an operation's operands and result inside one 64-bit type; _render_builtin_operation picks
_cpp_integer_type_for_range(min of mins, max of maxes) as IntermediateT, which therefore holds them all."""
import importlib

import z3

from vlib import core, pyvc
from vlib.pyvc import SRec, SInt, SNumStr, PathEnd

INF, NINF = "infinity", "-infinity"
RANGES = {"::std::int32_t": (-2**31, 2**31 - 1), "::std::uint32_t": (0, 2**32 - 1),
          "::std::int64_t": (-2**63, 2**63 - 1), "::std::uint64_t": (0, 2**64 - 1)}
ORDER = ["::std::int32_t", "::std::uint32_t", "::std::int64_t", "::std::uint64_t"]


def _m():
    return (importlib.import_module("compiler.front_end.constraints"), importlib.import_module("compiler.back_end.cpp.header_generator"),
            importlib.import_module("compiler.util.error"), importlib.import_module("compiler.util.ir_util"))


def fits(lo, hi, ty):
    a, b = RANGES[ty]
    return z3.And(lo >= a, hi <= b)


def engine():
    cons, hg, error, ir_util = _m()
    eng = pyvc.Engine()
    for f in (error.error, error.note, error.warn):
        eng.contract(f, lambda interp, *a, **k: SRec("ErrorMessage", {}), f.__name__)
    eng.contract(ir_util.is_constant_type, lambda interp, t: t.f["ghost_is_constant"], "is_constant_type")
    for n in ("_bounds_can_fit_64_bit_unsigned", "_bounds_can_fit_64_bit_signed", "_bounds_can_fit_any_64_bit_integer_type",
              "_integer_bounds_errors"):
        eng.inline_fn(getattr(cons, n), "compiler.front_end.constraints." + n)
    return eng


def target_can_fit():
    eng = engine()

    def harness(c):
        which = c.choice("f", ["_bounds_can_fit_64_bit_unsigned", "_bounds_can_fit_64_bit_signed", "_bounds_can_fit_any_64_bit_integer_type"])
        lo, hi = z3.Int("lo"), z3.Int("hi")
        c.assume(lo <= hi)
        c.covered = True
        st, got = pyvc.run_body(c, "compiler.front_end.constraints." + which, [SInt(lo), SInt(hi)])
        u, s = fits(lo, hi, "::std::uint64_t"), fits(lo, hi, "::std::int64_t")
        want = {"_bounds_can_fit_64_bit_unsigned": u, "_bounds_can_fit_64_bit_signed": s,
                "_bounds_can_fit_any_64_bit_integer_type": z3.Or(u, s)}[which]
        t = pyvc.Interp(c, pyvc.load_function("compiler.front_end.constraints." + which)).truth_term(got)
        c.oblige("exact", (t if z3.is_expr(t) else z3.BoolVal(bool(t))) == want)
    paths = eng.explore(harness)
    return pyvc.collect(paths, "can_fit"), sum(1 for p in paths if p.covered)


def _bounds_rec(c, name, kinds=("fin", "lo-inf", "hi-inf")):
    k = c.choice(name, list(kinds))
    lo, hi = z3.Int(name + "_min"), z3.Int(name + "_max")
    c.assume(lo <= hi)
    rec = SRec("IntegerType", {"minimum_value": SNumStr(lo) if k != "lo-inf" else NINF,
                               "maximum_value": SNumStr(hi) if k != "hi-inf" else INF})
    return rec, lo, hi, k


def target_integer_bounds_errors():
    eng = engine()

    def harness(c):
        rec, lo, hi, k = _bounds_rec(c, "b")
        c.covered = True
        st, got = pyvc.run_body(c, "compiler.front_end.constraints._integer_bounds_errors", [rec, "expression", "f.emb", SRec("SourceLocation", {})])
        is_list = isinstance(got, list)
        c.oblige("returns-list", is_list)
        if not is_list:
            return
        ok = z3.BoolVal(False) if k != "fin" else z3.Or(fits(lo, hi, "::std::uint64_t"), fits(lo, hi, "::std::int64_t"))
        c.oblige("no-error-iff-fits-a-64-bit-type", z3.BoolVal(len(got) == 0) == ok)
    paths = eng.explore(harness)
    return pyvc.collect(paths, "_integer_bounds_errors"), sum(1 for p in paths if p.covered)


def target_bounds_errors_for_expression():
    eng = engine()
    cons = _m()[0]

    def harness(c):
        nargs = int(c.choice("nargs", ["1", "2", "3"]))
        clauses = []

        def mk(name, is_function, args=None):
            kind = c.choice(name + ":type", ["integer", "boolean"]) if name != "e" else c.choice(name + ":type", ["integer", "boolean"])
            f = {"which_expression": "function" if is_function else "field_reference", "source_location": SRec("SourceLocation", {})}
            if kind == "integer":
                rec, lo, hi, k = _bounds_rec(c, name, ("fin",))
                f["type"] = SRec("ExpressionType", {"which_type": "integer", "integer": rec, "ghost_is_constant": False})
                clauses.append((lo, hi))
            else:
                f["type"] = SRec("ExpressionType", {"which_type": "boolean", "ghost_is_constant": False})
            if is_function:
                f["function"] = SRec("Function", {"args": args, "function_name": SRec("Word", {"text": "+"})})
            return SRec("Expression", f)
        args = [mk("a%d" % i, False) for i in range(nargs)]
        e = mk("e", True, args)
        c.covered = True
        st, got = pyvc.run_body(c, "compiler.front_end.constraints._integer_bounds_errors_for_expression", [e, "f.emb"])
        is_list = isinstance(got, list)
        c.oblige("returns-list", is_list)
        if not is_list:
            return
        all_s = z3.And([fits(lo, hi, "::std::int64_t") for (lo, hi) in clauses]) if clauses else z3.BoolVal(True)
        all_u = z3.And([fits(lo, hi, "::std::uint64_t") for (lo, hi) in clauses]) if clauses else z3.BoolVal(True)
        c.oblige("no-error-iff-all-fit-one-64-bit-type", z3.BoolVal(len(got) == 0) == z3.Or(all_s, all_u))
    # recursion into (non-function) arguments is executed from the real body as well
    eng.inline_fn(cons._integer_bounds_errors_for_expression, "compiler.front_end.constraints._integer_bounds_errors_for_expression")
    paths = eng.explore(harness)
    return pyvc.collect(paths, "_integer_bounds_errors_for_expression"), sum(1 for p in paths if p.covered)


def target_type_for_range():
    eng = engine()

    def harness(c):
        lo, hi = z3.Int("lo"), z3.Int("hi")
        c.assume(lo <= hi)
        c.covered = True
        st, got = pyvc.run_body(c, "compiler.back_end.cpp.header_generator._cpp_integer_type_for_range", [SInt(lo), SInt(hi)])
        c.oblige("result-is-a-known-type-or-None", got is None or got in RANGES, detail=repr(got))
        if got is None:
            c.oblige("None-only-if-no-64-bit-type-fits", z3.Not(z3.Or([fits(lo, hi, t) for t in ORDER])))
            return
        if got not in RANGES:
            return
        c.oblige("type-holds-range", fits(lo, hi, got))
        earlier = ORDER[:ORDER.index(got)]
        c.oblige("first-in-preference-order", z3.Not(z3.Or([fits(lo, hi, t) for t in earlier])) if earlier else True)
    paths = eng.explore(harness)
    return pyvc.collect(paths, "_cpp_integer_type_for_range"), sum(1 for p in paths if p.covered)


def target_type_for_enum():
    eng = engine()

    def harness(c):
        signed = c.choice("signed", ["True", "False"]) == "True"
        bits = z3.Int("bits")
        c.assume(z3.And(bits >= 1, bits <= 64))
        c.covered = True
        st, got = pyvc.run_body(c, "compiler.back_end.cpp.header_generator._cpp_integer_type_for_enum", [SInt(bits), signed])
        names = {"::std::%sint%d_t" % ("" if signed else "u", s): s for s in (8, 16, 32, 64)}
        c.oblige("result-is-a-fixed-width-type-of-declared-signedness", got in names, detail=repr(got))
        if got not in names:
            return
        size = names[got]
        c.oblige("wide-enough", bits <= size)
        c.oblige("smallest", bits > {8: 0, 16: 8, 32: 16, 64: 32}[size])
    paths = eng.explore(harness)
    return pyvc.collect(paths, "_cpp_integer_type_for_enum"), sum(1 for p in paths if p.covered)


def target_render_builtin_operation():
    """header_generator._render_builtin_operation: the C++ call it renders names, as IntermediateT, a type whose range
    contains the inferred bounds of the operation's result AND of every integer operand (so the runtime's
    static_cast<IntermediateT>(operand) and the arithmetic in IntermediateT are exact: the `requires` of
    contracts/cpp_arith.py); ResultT / ArgTs are the basic types of the expression / the operands, in order."""
    cons, hg, error, ir_util = _m()
    ir_data = importlib.import_module("compiler.util.ir_data")
    eng = pyvc.Engine()
    eng.inline_fn(hg._cpp_integer_type_for_range, "compiler.back_end.cpp.header_generator._cpp_integer_type_for_range")
    eng.contract(hg._render_expression, lambda interp, e, *a, **k: SRec("Rendered", {"rendered": "<%s>" % e.f["tag"]}), "_render_expression")
    # operands of one operation that are enums are of one enum type (type_check), hence one C++ type
    tname = lambda e: "EnumT" if e.f["type"].f["which_type"] == "enumeration" else "T(%s)" % e.f["tag"]
    eng.contract(hg._cpp_basic_type_for_expression, lambda interp, e, ir: tname(e), "_cpp_basic_type_for_expression")
    eng.contract(hg._builtin_function_name, lambda interp, f: "Op", "_builtin_function_name")
    FM = ir_data.FunctionMapping

    def harness(c):
        shape = c.choice("shape", ["int<-int,int", "int<-bool,int,int", "int<-int", "int<-int,int,int", "bool<-int,int", "bool<-bool,bool", "bool<-enum,enum", "enum<-bool,enum,enum"])
        res, argk = shape.split("<-")
        argk = argk.split(",")
        bounds_ = []

        def mk(tag, kind):
            f = {"tag": tag}
            if kind == "int":
                lo, hi = z3.Int(tag + "_min"), z3.Int(tag + "_max")
                c.assume(lo <= hi)
                bounds_.append((lo, hi))
                f["type"] = SRec("ExpressionType", {"which_type": "integer", "integer": SRec("IntegerType", {"minimum_value": SNumStr(lo), "maximum_value": SNumStr(hi)})})
            else:
                f["type"] = SRec("ExpressionType", {"which_type": {"bool": "boolean", "enum": "enumeration"}[kind]})
            return SRec("Expression", f)
        args = [mk("a%d" % i, kd) for i, kd in enumerate(argk)]
        e = mk("e", res)
        e.f["function"] = SRec("Function", {"function": FM.ADDITION, "args": args})
        # precondition = what the 64-bit gate established (contracts above): all integer bounds fit one 64-bit type
        if bounds_:
            c.assume(z3.Or(z3.And([fits(lo, hi, "::std::int64_t") for lo, hi in bounds_]), z3.And([fits(lo, hi, "::std::uint64_t") for lo, hi in bounds_])))
        c.covered = True
        st, got = pyvc.run_body(c, "compiler.back_end.cpp.header_generator._render_builtin_operation", [e, SRec("EmbossIr", {}), SRec("FieldRenderer", {}), None])
        import re
        m = re.fullmatch(r"::emboss::support::Op</\*\*/(.*?), (.*?)((?:, [^,>]*)*)>\((.*)\)", got) if isinstance(got, str) else None
        c.oblige("renders-a-support-call", m is not None, detail=repr(got))
        if not m:
            return
        inter, result_t, arg_ts, rendered = m.group(1), m.group(2), [x for x in m.group(3).split(", ") if x], m.group(4).split(", ")
        c.oblige("ResultT-is-the-expression's-type", result_t == tname(e), detail=result_t)
        c.oblige("ArgTs-are-the-operands'-types-in-order", arg_ts == [tname(a) for a in args], detail=str(arg_ts))
        c.oblige("operands-rendered-in-order", rendered == ["<a%d>" % i for i in range(len(args))], detail=str(rendered))
        if bounds_:
            c.oblige("IntermediateT-is-an-integer-type", inter in RANGES, detail=inter)
            if inter in RANGES:
                for i, (lo, hi) in enumerate(bounds_):
                    c.oblige("IntermediateT-holds-the-bounds-of-result-and-every-integer-operand", fits(lo, hi, inter), detail="%s, bounds #%d" % (inter, i))
        elif "enum" in argk:
            c.oblige("IntermediateT-is-the-enum-type", inter == "EnumT", detail=inter)
        else:
            c.oblige("IntermediateT-is-bool", inter == "bool", detail=inter)
    paths = eng.explore(harness)
    return pyvc.collect(paths, "_render_builtin_operation"), sum(1 for p in paths if p.covered)


def target_switch_candidate():
    """header_generator._get_switch_candidate: a (discriminant, case value) pair is returned only for `field == constant`
    (either order) on integers or enums, and for integers only when the constant lies inside the discriminant's inferred
    bounds - so every `case` label of the generated switch is representable in the discriminant's C++ type (which
    _cpp_integer_type_for_range chose to hold exactly those bounds) and the header compiles (C07); conditions that are not
    candidates keep the ordinary `if` path (C01)."""
    cons, hg, error, ir_util = _m()
    ir_data = importlib.import_module("compiler.util.ir_data")
    eng = pyvc.Engine()
    eng.inline_fn(hg._is_equality_check, "compiler.back_end.cpp.header_generator._is_equality_check")
    eng.contract(hg._render_expression, lambda interp, e, ir, **k: SRec("Rendered", {"is_constant": e.f["ghost_constant"], "rendered": "<x>"}), "_render_expression")
    FM = ir_data.FunctionMapping

    def harness(c):
        op = c.choice("op", ["EQUALITY", "INEQUALITY", "LESS", "AND"])
        kind = c.choice("operands", ["integer", "enumeration", "boolean"])
        which = c.choice("expression", ["function", "field_reference"])
        consts = [c.choice("a%d" % i, ["constant", "run-time"]) == "constant" for i in (0, 1)]
        vals = []

        def mk(i):
            f = {"ghost_constant": consts[i], "tag": i}
            if kind == "integer":
                lo, hi, v = z3.Int("min%d" % i), z3.Int("max%d" % i), z3.Int("v%d" % i)
                c.assume(lo <= hi)
                if consts[i]:
                    it = SRec("IntegerType", {"modular_value": SNumStr(v), "minimum_value": SNumStr(v), "maximum_value": SNumStr(v), "modulus": INF})
                else:
                    it = SRec("IntegerType", {"minimum_value": SNumStr(lo), "maximum_value": SNumStr(hi), "modular_value": SNumStr(z3.Int("mv%d" % i)), "modulus": SNumStr(z3.Int("mod%d" % i))})
                vals.append((lo, hi, v))
                f["type"] = SRec("ExpressionType", {"which_type": "integer", "integer": it})
            else:
                vals.append(None)
                f["type"] = SRec("ExpressionType", {"which_type": kind})
            return SRec("Expression", f)
        args = [mk(0), mk(1)]
        e = SRec("Expression", {"which_expression": which, "function": SRec("Function", {"function": getattr(FM, op), "args": args})})
        c.covered = True
        st, got = pyvc.run_body(c, "compiler.back_end.cpp.header_generator._get_switch_candidate", [e, SRec("EmbossIr", {})])
        ok_shape = isinstance(got, tuple) and len(got) == 2
        c.oblige("returns-a-pair", ok_shape, detail=repr(got))
        if not ok_shape:
            return
        d, v = got
        eligible = which == "function" and op == "EQUALITY" and kind in ("integer", "enumeration") and consts[0] != consts[1]
        if d is None or v is None:
            c.oblige("None-is-a-pair-of-Nones", d is None and v is None)
            if eligible and kind == "enumeration":
                c.oblige("enum-tag-comparisons-are-candidates", False, detail="eligible enum condition was not made a candidate")
            if eligible and kind == "integer":
                ci = 0 if consts[0] else 1
                lo, hi, _ = vals[1 - ci]
                cv = vals[ci][2]
                c.oblige("in-range-integer-tags-are-candidates", z3.Not(z3.And(lo <= cv, cv <= hi)), detail="an in-range constant was refused")
            return
        c.oblige("only-eligible-conditions", eligible, detail="op=%s kind=%s consts=%s" % (op, kind, consts))
        if not eligible:
            return
        ci = 0 if consts[0] else 1
        c.oblige("discriminant-is-the-run-time-operand-and-case-value-the-constant", d is args[1 - ci] and v is args[ci])
        if kind == "integer":
            lo, hi, _ = vals[1 - ci]
            cv = vals[ci][2]
            c.oblige("case-label-within-the-discriminant's-bounds", z3.And(lo <= cv, cv <= hi))
    paths = eng.explore(harness)
    return pyvc.collect(paths, "_get_switch_candidate"), sum(1 for p in paths if p.covered)


def target_write_range_check():
    """header_generator._render_write_range_check: the C++ guard it renders for a transform-writable virtual field rejects
    exactly the candidate values (of the field's C++ logical type) that lie outside the field's inferred [minimum, maximum]
    - those can never be written, and evaluating the inverse transform on them could overflow (D6).  The literal texts
    come from _render_integer, modelled as an opaque token per (symbolic) value."""
    cons, hg, error, ir_util = _m()
    eng = pyvc.Engine()
    table = []

    def render_integer(interp, v):
        table.append(pyvc.zint(v))
        return "LIT#%d" % (len(table) - 1)
    eng.contract(hg._render_integer, render_integer, "_render_integer")

    def harness(c):
        del table[:]
        ty = c.choice("logical_type", ORDER + ["bool", "::emboss::EnumType"])
        which = c.choice("field", ["integer", "boolean"])
        lo, hi = z3.Int("lo"), z3.Int("hi")
        c.assume(lo <= hi)
        if ty in RANGES:
            c.assume(fits(lo, hi, ty))          # the logical type was chosen to hold the field's bounds (_cpp_integer_type_for_range)
        t = SRec("ExpressionType", {"which_type": which, "integer": SRec("IntegerType", {"minimum_value": SNumStr(lo), "maximum_value": SNumStr(hi)})})
        field = SRec("Field", {"read_transform": SRec("Expression", {"type": t})})
        c.covered = True
        st, got = pyvc.run_body(c, "compiler.back_end.cpp.header_generator._render_write_range_check", [field, ty])
        c.oblige("returns-text", isinstance(got, str), detail=repr(got))
        if not isinstance(got, str):
            return
        import re
        clauses = re.findall(r"emboss_reserved_local_value (<|>) static_cast</\*\*/([^>]*)>\(LIT#(\d+)\)", got)
        if which != "integer" or ty not in RANGES:
            c.oblige("no-guard-for-non-integer-fields", got == "", detail=got)
            return
        v = z3.Int("candidate")
        a, b = RANGES[ty]
        rejects = z3.Or([(v < table[int(k)]) if op == "<" else (v > table[int(k)]) for (op, tname, k) in clauses]) if clauses else z3.BoolVal(False)
        c.oblige("casts-name-the-logical-type", all(tname == ty for (_, tname, _) in clauses), detail=got)
        c.oblige("guard-is-a-return-false-on-exactly-these-clauses", (got == "") == (not clauses) and (not clauses or ("return false" in got and got.count("emboss_reserved_local_value") == len(clauses))), detail=got)
        c.oblige("rejects-exactly-the-candidates-outside-the-field's-bounds", z3.Implies(z3.And(v >= a, v <= b), rejects == z3.Not(z3.And(lo <= v, v <= hi))), detail=got)
        # the literals themselves are representable in the logical type (static_cast is value-preserving)
        for (_, _, k) in clauses:
            c.oblige("literals-fit-the-logical-type", z3.And(table[int(k)] >= a, table[int(k)] <= b))
    paths = eng.explore(harness)
    return pyvc.collect(paths, "_render_write_range_check"), sum(1 for p in paths if p.covered)


def replay_render_builtin_operation(name, model):
    """Real front end + back end on witness modules: every rendered arithmetic call names an IntermediateT whose range
    holds the inferred bounds of the operation's result and operands (read back from the IR)."""
    import re
    glue = importlib.import_module("compiler.front_end.glue")
    hg = _m()[1]
    from contracts.bounds import _Reader
    src = ('[$default byte_order: "LittleEndian"]\nstruct Ww:\n  0 [+4]  UInt  a\n  4 [+4]  UInt  b\n  8 [+4]  Int  c\n'
           '  let total = a + b\n  let diff = a - b\n  let prod = a * 2\n  let mixed = c - 1\n  let pick = a == 0 ? b + 1 : b\n  let most = $max(a, b + 1)\n')
    ir, debug, errors = glue.parse_emboss_file("w.emb", _Reader({"w.emb": src}))
    if errors:
        return {"reproduced": False, "error": "witness module rejected"}
    header, errs = hg.generate_header(ir)
    bad = []
    fields = {f.name.name.text: f for f in ir.module[0].type[0].structure.field}

    def walk(e, out):
        if e.which_expression == "function":
            out.append(e)
            for a in e.function.args:
                walk(a, out)
    for fname in ("total", "diff", "prod", "mixed", "pick", "most"):
        fns = []
        walk(fields[fname].read_transform, fns)
        for e in fns:
            ints = [x for x in [e] + list(e.function.args) if x.type.which_type == "integer"]
            if not ints:
                continue
            lo = min(int(x.type.integer.minimum_value) for x in ints)
            hi = max(int(x.type.integer.maximum_value) for x in ints)
            # the rendered call for this operation: find a support call whose ResultT/ArgTs match is overkill; check that SOME
            # call with an IntermediateT that holds [lo, hi] exists for the operator, and that none with a smaller one was emitted
            opname = hg._builtin_function_name(e.function.function)
            inters = set(re.findall(r"::emboss::support::%s</\*\*/(::std::u?int\d+_t)," % opname, header))
            need = hg._cpp_integer_type_for_range(lo, hi)
            for t in inters:
                a, b = RANGES[t]
                if need is not None and RANGES[need] != (a, b) and not (a <= RANGES[need][0] and RANGES[need][1] <= b) and (lo < a or hi > b):
                    bad.append({"field": fname, "operator": opname, "bounds": [lo, hi], "IntermediateT_emitted": t})
    return {"reproduced": bool(bad), "inputs": src, "violations": bad[:4]}


TARGETS = {"can_fit": target_can_fit, "_render_builtin_operation": target_render_builtin_operation, "_get_switch_candidate": target_switch_candidate, "_render_write_range_check": target_write_range_check, "_integer_bounds_errors": target_integer_bounds_errors,
           "_integer_bounds_errors_for_expression": target_bounds_errors_for_expression,
           "_cpp_integer_type_for_range": target_type_for_range, "_cpp_integer_type_for_enum": target_type_for_enum}


def target_generate_enum_definition():
    """header_generator._generate_enum_definition (C19), for every enum of up to 3 declared values (symbolic numeric values,
    so every pattern of duplicates), one or two requested spellings per value, with and without traits:
      * one enumerator per declared name and spelling, with the declared value, in declaration order;
      * TryToGetEnumFromName gets a strcmp case for EVERY declared Emboss name (also names that share their value with an
        earlier one), mapping it to one of its own enumerators, and for nothing else;
      * TryToGetNameFromEnum / EnumIsKnown get a case exactly for the FIRST declared name of each distinct value (so the
        first-name rule holds and no duplicate `case` label is emitted);
      * the underlying type is _cpp_integer_type_for_enum(maximum_bits, is_signed) in declaration and definition."""
    cons, hg, error, ir_util = _m()
    code_template = importlib.import_module("compiler.back_end.util.code_template")
    eng = pyvc.Engine()
    eng.contract(ir_util.get_integer_attribute, lambda interp, attrs, name, default_value=None: SInt(z3.Int("maximum_bits")), "get_integer_attribute")
    eng.contract(ir_util.get_boolean_attribute, lambda interp, attrs, name, default_value=None: True, "get_boolean_attribute")
    eng.contract(hg._cpp_integer_type_for_enum, lambda interp, bits, signed: "UnderlyingT", "_cpp_integer_type_for_enum")
    eng.contract(ir_util.constant_value, lambda interp, e, bindings=None: e.f["ghost_cv"], "constant_value")
    eng.contract(hg._get_enum_value_names, lambda interp, v: list(v.f["ghost_spellings"]), "_get_enum_value_names")
    eng.contract(hg._render_integer, lambda interp, v: ("INT", v), "_render_integer")

    tnames = {id(getattr(hg._TEMPLATES, k)): k for k in hg._TEMPLATES._fields}

    def fmt(interp, template, **kw):
        return [("T", tnames.get(id(template), "?"), kw)]          # rendered text = a list of opaque pieces
    eng.contract(code_template.format_template, fmt, "format_template")

    def harness(c):
        n = int(c.choice("values", ["1", "2", "3"]))
        traits = c.choice("traits", ["yes", "no"]) == "yes"
        vals = []
        for i in range(n):
            sp = int(c.choice("spellings%d" % i, ["1", "2"]))
            num = z3.Int("value%d" % i)
            vals.append(SRec("EnumValue", {"value": SRec("Expression", {"ghost_cv": SInt(num)}), "name": SRec("NameDefinition", {"name": SRec("Word", {"text": "NAME%d" % i})}),
                                            "ghost_spellings": ["NAME%d" % i, "kName%d" % i][:sp], "ghost_num": num}))
        type_ir = SRec("TypeDefinition", {"attribute": [], "enumeration": SRec("Enum", {"value": vals}), "name": SRec("NameDefinition", {"name": SRec("Word", {"text": "Ee"})})})
        c.covered = True
        # join() of template results: the harness keeps them as tuples, so "".join / "\n".join are modelled by collecting
        st, got = pyvc.run_body(c, "compiler.back_end.cpp.header_generator._generate_enum_definition", [type_ir, traits])
        ok = isinstance(got, tuple) and len(got) == 3
        c.oblige("returns-(declaration,definition,methods)", ok, detail=repr(got)[:200])
        if not ok:
            return
        decl, defn, _ = got
        ok = isinstance(decl, list) and len(decl) == 1 and isinstance(defn, list) and len(defn) >= 1
        c.oblige("declaration-and-definition-are-rendered-templates", ok, detail=repr(got)[:200])
        if not ok:
            return
        decl = decl[0]
        c.oblige("declaration-names-the-underlying-type", decl[1] == "enum_declaration" and decl[2].get("enum_type") == "UnderlyingT" and decl[2].get("enum") == "Ee", detail=repr(decl)[:200])
        parts = defn if isinstance(defn, list) else [defn]
        d0 = parts[0]
        c.oblige("definition-names-the-underlying-type", d0[1] == "enum_definition" and d0[2].get("enum_type") == "UnderlyingT", detail=repr(d0)[:200])
        evs = d0[2].get("enum_values")
        want = [(sp, v) for v in vals for sp in v.f["ghost_spellings"]]
        shape = isinstance(evs, list) and len(evs) == len(want) and all(e[1] == "enum_value" and e[2]["name"] == sp for e, (sp, v) in zip(evs, want))
        c.oblige("one-enumerator-per-name-and-spelling-in-order", shape, detail=repr(evs)[:300])
        if shape:
            c.oblige("enumerators-carry-the-declared-values", z3.And([pyvc.zint(e[2]["value"][1]) == v.f["ghost_num"] for e, (sp, v) in zip(evs, want)]))
        if not traits:
            c.oblige("no-traits-when-not-requested", len(parts) == 1)
            return
        c.oblige("traits-emitted", len(parts) == 2 and parts[1][1] == "enum_traits", detail=repr(parts)[:200])
        if len(parts) != 2:
            return
        tk = parts[1][2]
        fn, nf, ik = tk.get("enum_from_name_cases"), tk.get("name_from_enum_cases"), tk.get("enum_is_known_cases")
        c.oblige("case-lists", all(isinstance(x, list) for x in (fn, nf, ik)))
        if not all(isinstance(x, list) for x in (fn, nf, ik)):
            return
        names_fn = [(e[2]["name"], e[2]["value"]) for e in fn]
        for v in vals:
            nm = v.f["name"].f["name"].f["text"]
            mine = [val for (n_, val) in names_fn if n_ == nm]
            c.oblige("from-name-case-for-every-declared-name[%s]" % nm, len(mine) >= 1 and all(x in v.f["ghost_spellings"] for x in mine), detail=str(names_fn))
        c.oblige("from-name-cases-for-declared-names-only", all(n_ in ["NAME%d" % i for i in range(n)] for (n_, _) in names_fn))
        # first-name rule: a value's name/known cases come from its first declaration only
        for idx, v in enumerate(vals):
            first = z3.And([v.f["ghost_num"] != w.f["ghost_num"] for w in vals[:idx]]) if idx else z3.BoolVal(True)
            has_nf = any(e[2]["name"] == "NAME%d" % idx for e in nf)
            has_ik = any(e[2]["name"] in v.f["ghost_spellings"] for e in ik)
            c.oblige("name-from-enum-case-iff-first-declaration-of-the-value[NAME%d]" % idx, z3.BoolVal(has_nf) == first)
            c.oblige("is-known-case-iff-first-declaration-of-the-value[NAME%d]" % idx, z3.BoolVal(has_ik) == first)
            if has_nf:
                mine = [e for e in nf if e[2]["name"] == "NAME%d" % idx]
                c.oblige("one-case-label-per-distinct-value[NAME%d]" % idx, len(mine) == 1 and mine[0][2]["value"] in v.f["ghost_spellings"], detail=repr(mine)[:200])
    paths = eng.explore(harness)
    return pyvc.collect(paths, "_generate_enum_definition"), sum(1 for p in paths if p.covered)


TARGETS["_generate_enum_definition"] = target_generate_enum_definition


def target_render_integer():
    """header_generator._render_integer / _render_integer_for_expression (C07 "constants equal the values the front end
    computed", C01): for EVERY integer v in [-2^63, 2^64) the rendered text is

        static_cast</**/T>(<decimal of v><U?>LL)            or, for v == -2^63,   static_cast</**/T>(-9223372036854775807LL - 1)

    with  T = _cpp_integer_type_for_range(v, v)  (its own contract: the first of int32/uint32/int64/uint64 that holds v),
    and the C++ literal is well-formed and denotes v:  with `U`, 0 <= v <= 2^64-1 fits
    unsigned long long;  without `U` the magnitude |v| <= 2^63-1 fits long long (a leading '-' is the unary minus applied
    to that literal);  the special form computes -(2^63-1) - 1 without overflow.  The cast to T therefore never changes
    the value.  Assumed: Python's decimal rendering of ints; C++ integer-literal typing rules as stated here."""
    cons, hg, error, ir_util = _m()
    eng = pyvc.Engine()
    eng.precise_format = True
    TYPES = {"::std::int32_t": (-2**31, 2**31 - 1), "::std::uint32_t": (0, 2**32 - 1), "::std::int64_t": (-2**63, 2**63 - 1), "::std::uint64_t": (0, 2**64 - 1)}

    def harness(c):
        fn = c.choice("function", ["_render_integer", "_render_integer_for_expression"])
        v = z3.Int("value")
        c.assume(z3.And(v >= -2**63, v < 2**64))
        # _cpp_integer_type_for_range under its contract (contracts/gate.py target _cpp_integer_type_for_range): first type that holds [v, v]
        tname = c.choice("type-of-value", sorted(TYPES))
        order = ["::std::int32_t", "::std::uint32_t", "::std::int64_t", "::std::uint64_t"]
        lo, hi = TYPES[tname]
        c.assume(z3.And(v >= lo, v <= hi))
        for t in order[:order.index(tname)]:
            c.assume(z3.Not(z3.And(v >= TYPES[t][0], v <= TYPES[t][1])))
        eng.contract(hg._cpp_integer_type_for_range, lambda interp, a, b: tname, "_cpp_integer_type_for_range")
        c.covered = True
        st, got = pyvc.run_body(c, "compiler.back_end.cpp.header_generator." + fn, [SInt(v)])
        pieces = got.pieces if isinstance(got, pyvc.PStr) else [got]
        text = "".join(p if isinstance(p, str) else "@NUM@" for p in pieces)
        nums = [p for p in pieces if not isinstance(p, str)]
        prefix = "::emboss::support::Maybe</**/%s>(" % tname if fn.endswith("expression") else ""
        tail = ")" if prefix else ""
        special = "%sstatic_cast</**/%s>(-9223372036854775807LL - 1)%s" % (prefix, tname, tail)
        if not nums:
            c.oblige("special-form-only-for-the-minimum", z3.And(v == -2**63, z3.BoolVal(text == special)), detail=text)
            return
        forms = {u: "%sstatic_cast</**/%s>(@NUM@%sLL)%s" % (prefix, tname, u, tail) for u in ("", "U")}
        c.oblige("form:static_cast-to-the-type-of-the-value-around-one-literal", len(nums) == 1 and text in forms.values(), detail=repr(pieces)[:200])
        if len(nums) != 1 or text not in forms.values():
            return
        c.oblige("literal-is-the-decimal-rendering-of-the-value", nums[0].t == v)
        if text == forms["U"]:
            c.oblige("unsigned-literal-is-non-negative-and-fits-unsigned-long-long", z3.And(v >= 0, v <= 2**64 - 1))
        else:
            c.oblige("signed-literal-magnitude-fits-long-long", z3.And(v >= -(2**63 - 1), v <= 2**63 - 1))
        c.oblige("cast-target-holds-the-value", z3.And(v >= lo, v <= hi))
    paths = eng.explore(harness)
    return pyvc.collect(paths, "_render_integer"), sum(1 for p in paths if p.covered)


TARGETS["_render_integer"] = target_render_integer


def target_render_case_label():
    """header_generator._render_case_label (C07: no duplicate case labels in the generated Ok() switch): the label text is a
    function of the case VALUE (and the discriminant's type) only -

        integer      the rendering of the value by _render_integer (its own contract)
        enumeration  static_cast</**/<fully qualified enum type>>(<decimal value>)

    so two candidates get the same text exactly when they have the same value, which is what the de-duplication of
    _generate_optimized_ok_method_body (keyed by the text) needs; in particular two NAMES of one enum value give one label."""
    cons, hg, error, ir_util = _m()
    eng = pyvc.Engine()
    eng.precise_format = True
    eng.contract(hg._render_integer, lambda interp, v: ("INT", v), "_render_integer")
    eng.contract(hg._get_fully_qualified_name, lambda interp, cn, ir: "::ns::Kind", "_get_fully_qualified_name")

    def harness(c):
        kind = c.choice("discriminant", ["integer", "enumeration"])
        name = c.choice("written-as", ["LEGACY", "CURRENT"])           # two names of one value: must not matter
        v = z3.Int("case_value")
        cname = SRec("CanonicalName", {"module_file": "m.emb", "object_path": ["Kind"]})
        et = SRec("ExpressionType", {"which_type": kind,
                                     "integer": SRec("IntegerType", {"modular_value": pyvc.SNumStr(v), "modulus": "infinity", "minimum_value": pyvc.SNumStr(v), "maximum_value": pyvc.SNumStr(v)}),
                                     "enumeration": SRec("EnumType", {"name": SRec("Reference", {"canonical_name": cname}), "value": pyvc.SNumStr(v)})})
        e = SRec("Expression", {"type": et, "which_expression": "constant_reference",
                                "constant_reference": SRec("Reference", {"canonical_name": SRec("CanonicalName", {"module_file": "m.emb", "object_path": ["Kind", name]}),
                                                                         "source_name": [SRec("Word", {"text": "Kind"}), SRec("Word", {"text": name})]})})
        c.covered = True
        st, got = pyvc.run_body(c, "compiler.back_end.cpp.header_generator._render_case_label", [e, "IR"])
        if kind == "integer":
            c.oblige("integer-label-is-the-rendering-of-the-value", isinstance(got, tuple) and got[0] == "INT" and pyvc.zint(got[1]) == v, detail=repr(got)[:200])
            return
        pieces = got.pieces if isinstance(got, pyvc.PStr) else [got]
        ok = len(pieces) == 3 and pieces[0] == "static_cast</**/::ns::Kind>(" and isinstance(pieces[1], pyvc.SNumStr) and pieces[2] == ")"
        c.oblige("enum-label-is-a-cast-of-the-numeric-value-to-the-enum-type", ok, detail=repr(pieces)[:200])
        if ok:
            c.oblige("enum-label-denotes-the-case-value", pieces[1].t == v)
    paths = eng.explore(harness)
    return pyvc.collect(paths, "_render_case_label"), sum(1 for p in paths if p.covered)


TARGETS["_render_case_label"] = target_render_case_label
