"""Sidecar contracts for the 64-bit gate and C++ integer type selection (C04 layer 2, C05, C07, C19; E1).

constraints._bounds_can_fit_*            exact range predicates
constraints._integer_bounds_errors        no error  <=>  bounds finite and [min,max] fits int64 or uint64
constraints._integer_bounds_errors_for_expression
                                          no error  <=>  result and integer operands all fit int64, or all fit uint64
header_generator._cpp_integer_type_for_range(lo, hi)
                                          first of int32,uint32,int64,uint64 whose range contains [lo,hi]; None iff none
header_generator._cpp_integer_type_for_enum(bits, signed)
                                          smallest of 8/16/32/64 >= bits with the declared signedness; total on 1..64
Composition (paper): C05 soundness puts every run-time value inside its inferred bounds; the gate puts the
hull of an operation's operands and result inside one 64-bit type; _render_builtin_operation picks
_cpp_integer_type_for_range(min of mins, max of maxes) as IntermediateT, which therefore holds them all."""
import importlib

import z3

from vlib import core, pyvc
from vlib.pyvc import SRec, SInt, SNumStr, PathEnd

INF, NINF = "infinity", "-infinity"
RANGES = {"::std::int32_t": (-2**31, 2**31 - 1), "::std::uint32_t": (0, 2**32 - 1),
          "::std::int64_t": (-2**63, 2**63 - 1), "::std::uint64_t": (0, 2**64 - 1)}
ORDER = ["::std::int32_t", "::std::uint32_t", "::std::int64_t", "::std::uint64_t"]


def _m():
    return (importlib.import_module("compiler.front_end.constraints"), importlib.import_module("compiler.back_end.cpp.header_generator"),
            importlib.import_module("compiler.util.error"), importlib.import_module("compiler.util.ir_util"))


def fits(lo, hi, ty):
    a, b = RANGES[ty]
    return z3.And(lo >= a, hi <= b)


def engine():
    cons, hg, error, ir_util = _m()
    eng = pyvc.Engine()
    for f in (error.error, error.note, error.warn):
        eng.contract(f, lambda interp, *a, **k: SRec("ErrorMessage", {}), f.__name__)
    eng.contract(ir_util.is_constant_type, lambda interp, t: t.f["ghost_is_constant"], "is_constant_type")
    for n in ("_bounds_can_fit_64_bit_unsigned", "_bounds_can_fit_64_bit_signed", "_bounds_can_fit_any_64_bit_integer_type",
              "_integer_bounds_errors"):
        eng.inline_fn(getattr(cons, n), "compiler.front_end.constraints." + n)
    return eng


def target_can_fit():
    eng = engine()

    def harness(c):
        which = c.choice("f", ["_bounds_can_fit_64_bit_unsigned", "_bounds_can_fit_64_bit_signed", "_bounds_can_fit_any_64_bit_integer_type"])
        lo, hi = z3.Int("lo"), z3.Int("hi")
        c.assume(lo <= hi)
        c.covered = True
        st, got = pyvc.run_body(c, "compiler.front_end.constraints." + which, [SInt(lo), SInt(hi)])
        u, s = fits(lo, hi, "::std::uint64_t"), fits(lo, hi, "::std::int64_t")
        want = {"_bounds_can_fit_64_bit_unsigned": u, "_bounds_can_fit_64_bit_signed": s,
                "_bounds_can_fit_any_64_bit_integer_type": z3.Or(u, s)}[which]
        t = pyvc.Interp(c, pyvc.load_function("compiler.front_end.constraints." + which)).truth_term(got)
        c.oblige("exact", (t if z3.is_expr(t) else z3.BoolVal(bool(t))) == want)
    paths = eng.explore(harness)
    return pyvc.collect(paths, "can_fit"), sum(1 for p in paths if p.covered)


def _bounds_rec(c, name, kinds=("fin", "lo-inf", "hi-inf")):
    k = c.choice(name, list(kinds))
    lo, hi = z3.Int(name + "_min"), z3.Int(name + "_max")
    c.assume(lo <= hi)
    rec = SRec("IntegerType", {"minimum_value": SNumStr(lo) if k != "lo-inf" else NINF,
                               "maximum_value": SNumStr(hi) if k != "hi-inf" else INF})
    return rec, lo, hi, k


def target_integer_bounds_errors():
    eng = engine()

    def harness(c):
        rec, lo, hi, k = _bounds_rec(c, "b")
        c.covered = True
        st, got = pyvc.run_body(c, "compiler.front_end.constraints._integer_bounds_errors", [rec, "expression", "f.emb", SRec("SourceLocation", {})])
        is_list = isinstance(got, list)
        c.oblige("returns-list", is_list)
        if not is_list:
            return
        ok = z3.BoolVal(False) if k != "fin" else z3.Or(fits(lo, hi, "::std::uint64_t"), fits(lo, hi, "::std::int64_t"))
        c.oblige("no-error-iff-fits-a-64-bit-type", z3.BoolVal(len(got) == 0) == ok)
    paths = eng.explore(harness)
    return pyvc.collect(paths, "_integer_bounds_errors"), sum(1 for p in paths if p.covered)


def target_bounds_errors_for_expression():
    eng = engine()
    cons = _m()[0]

    def harness(c):
        nargs = int(c.choice("nargs", ["1", "2", "3"]))
        clauses = []

        def mk(name, is_function, args=None):
            kind = c.choice(name + ":type", ["integer", "boolean"]) if name != "e" else c.choice(name + ":type", ["integer", "boolean"])
            f = {"which_expression": "function" if is_function else "field_reference", "source_location": SRec("SourceLocation", {})}
            if kind == "integer":
                rec, lo, hi, k = _bounds_rec(c, name, ("fin",))
                f["type"] = SRec("ExpressionType", {"which_type": "integer", "integer": rec, "ghost_is_constant": False})
                clauses.append((lo, hi))
            else:
                f["type"] = SRec("ExpressionType", {"which_type": "boolean", "ghost_is_constant": False})
            if is_function:
                f["function"] = SRec("Function", {"args": args, "function_name": SRec("Word", {"text": "+"})})
            return SRec("Expression", f)
        args = [mk("a%d" % i, False) for i in range(nargs)]
        e = mk("e", True, args)
        c.covered = True
        st, got = pyvc.run_body(c, "compiler.front_end.constraints._integer_bounds_errors_for_expression", [e, "f.emb"])
        is_list = isinstance(got, list)
        c.oblige("returns-list", is_list)
        if not is_list:
            return
        all_s = z3.And([fits(lo, hi, "::std::int64_t") for (lo, hi) in clauses]) if clauses else z3.BoolVal(True)
        all_u = z3.And([fits(lo, hi, "::std::uint64_t") for (lo, hi) in clauses]) if clauses else z3.BoolVal(True)
        c.oblige("no-error-iff-all-fit-one-64-bit-type", z3.BoolVal(len(got) == 0) == z3.Or(all_s, all_u))
    # recursion into (non-function) arguments is executed from the real body as well
    eng.inline_fn(cons._integer_bounds_errors_for_expression, "compiler.front_end.constraints._integer_bounds_errors_for_expression")
    paths = eng.explore(harness)
    return pyvc.collect(paths, "_integer_bounds_errors_for_expression"), sum(1 for p in paths if p.covered)


def target_type_for_range():
    eng = engine()

    def harness(c):
        lo, hi = z3.Int("lo"), z3.Int("hi")
        c.assume(lo <= hi)
        c.covered = True
        st, got = pyvc.run_body(c, "compiler.back_end.cpp.header_generator._cpp_integer_type_for_range", [SInt(lo), SInt(hi)])
        c.oblige("result-is-a-known-type-or-None", got is None or got in RANGES, detail=repr(got))
        if got is None:
            c.oblige("None-only-if-no-64-bit-type-fits", z3.Not(z3.Or([fits(lo, hi, t) for t in ORDER])))
            return
        if got not in RANGES:
            return
        c.oblige("type-holds-range", fits(lo, hi, got))
        earlier = ORDER[:ORDER.index(got)]
        c.oblige("first-in-preference-order", z3.Not(z3.Or([fits(lo, hi, t) for t in earlier])) if earlier else True)
    paths = eng.explore(harness)
    return pyvc.collect(paths, "_cpp_integer_type_for_range"), sum(1 for p in paths if p.covered)


def target_type_for_enum():
    eng = engine()

    def harness(c):
        signed = c.choice("signed", ["True", "False"]) == "True"
        bits = z3.Int("bits")
        c.assume(z3.And(bits >= 1, bits <= 64))
        c.covered = True
        st, got = pyvc.run_body(c, "compiler.back_end.cpp.header_generator._cpp_integer_type_for_enum", [SInt(bits), signed])
        names = {"::std::%sint%d_t" % ("" if signed else "u", s): s for s in (8, 16, 32, 64)}
        c.oblige("result-is-a-fixed-width-type-of-declared-signedness", got in names, detail=repr(got))
        if got not in names:
            return
        size = names[got]
        c.oblige("wide-enough", bits <= size)
        c.oblige("smallest", bits > {8: 0, 16: 8, 32: 16, 64: 32}[size])
    paths = eng.explore(harness)
    return pyvc.collect(paths, "_cpp_integer_type_for_enum"), sum(1 for p in paths if p.covered)


def target_render_builtin_operation():
    """header_generator._render_builtin_operation: the C++ call it renders names, as IntermediateT, a type whose range
    contains the inferred bounds of the operation's result AND of every integer operand (so the runtime's
    static_cast<IntermediateT>(operand) and the arithmetic in IntermediateT are exact: the `requires` of
    contracts/cpp_arith.py); ResultT / ArgTs are the basic types of the expression / the operands, in order."""
    cons, hg, error, ir_util = _m()
    ir_data = importlib.import_module("compiler.util.ir_data")
    eng = pyvc.Engine()
    eng.inline_fn(hg._cpp_integer_type_for_range, "compiler.back_end.cpp.header_generator._cpp_integer_type_for_range")
    eng.contract(hg._render_expression, lambda interp, e, *a, **k: SRec("Rendered", {"rendered": "<%s>" % e.f["tag"]}), "_render_expression")
    # operands of one operation that are enums are of one enum type (type_check), hence one C++ type
    tname = lambda e: "EnumT" if e.f["type"].f["which_type"] == "enumeration" else "T(%s)" % e.f["tag"]
    eng.contract(hg._cpp_basic_type_for_expression, lambda interp, e, ir: tname(e), "_cpp_basic_type_for_expression")
    eng.contract(hg._builtin_function_name, lambda interp, f: "Op", "_builtin_function_name")
    FM = ir_data.FunctionMapping

    def harness(c):
        shape = c.choice("shape", ["int<-int,int", "int<-bool,int,int", "int<-int", "int<-int,int,int", "bool<-int,int", "bool<-bool,bool", "bool<-enum,enum", "enum<-bool,enum,enum"])
        res, argk = shape.split("<-")
        argk = argk.split(",")
        bounds_ = []

        def mk(tag, kind):
            f = {"tag": tag}
            if kind == "int":
                lo, hi = z3.Int(tag + "_min"), z3.Int(tag + "_max")
                c.assume(lo <= hi)
                bounds_.append((lo, hi))
                f["type"] = SRec("ExpressionType", {"which_type": "integer", "integer": SRec("IntegerType", {"minimum_value": SNumStr(lo), "maximum_value": SNumStr(hi)})})
            else:
                f["type"] = SRec("ExpressionType", {"which_type": {"bool": "boolean", "enum": "enumeration"}[kind]})
            return SRec("Expression", f)
        args = [mk("a%d" % i, kd) for i, kd in enumerate(argk)]
        e = mk("e", res)
        e.f["function"] = SRec("Function", {"function": FM.ADDITION, "args": args})
        # precondition = what the 64-bit gate established (contracts above): all integer bounds fit one 64-bit type
        if bounds_:
            c.assume(z3.Or(z3.And([fits(lo, hi, "::std::int64_t") for lo, hi in bounds_]), z3.And([fits(lo, hi, "::std::uint64_t") for lo, hi in bounds_])))
        c.covered = True
        st, got = pyvc.run_body(c, "compiler.back_end.cpp.header_generator._render_builtin_operation", [e, SRec("EmbossIr", {}), SRec("FieldRenderer", {}), None])
        import re
        m = re.fullmatch(r"::emboss::support::Op</\*\*/(.*?), (.*?)((?:, [^,>]*)*)>\((.*)\)", got) if isinstance(got, str) else None
        c.oblige("renders-a-support-call", m is not None, detail=repr(got))
        if not m:
            return
        inter, result_t, arg_ts, rendered = m.group(1), m.group(2), [x for x in m.group(3).split(", ") if x], m.group(4).split(", ")
        c.oblige("ResultT-is-the-expression's-type", result_t == tname(e), detail=result_t)
        c.oblige("ArgTs-are-the-operands'-types-in-order", arg_ts == [tname(a) for a in args], detail=str(arg_ts))
        c.oblige("operands-rendered-in-order", rendered == ["<a%d>" % i for i in range(len(args))], detail=str(rendered))
        if bounds_:
            c.oblige("IntermediateT-is-an-integer-type", inter in RANGES, detail=inter)
            if inter in RANGES:
                for i, (lo, hi) in enumerate(bounds_):
                    c.oblige("IntermediateT-holds-the-bounds-of-result-and-every-integer-operand", fits(lo, hi, inter), detail="%s, bounds #%d" % (inter, i))
        elif "enum" in argk:
            c.oblige("IntermediateT-is-the-enum-type", inter == "EnumT", detail=inter)
        else:
            c.oblige("IntermediateT-is-bool", inter == "bool", detail=inter)
    paths = eng.explore(harness)
    return pyvc.collect(paths, "_render_builtin_operation"), sum(1 for p in paths if p.covered)


def replay_render_builtin_operation(name, model):
    """Real front end + back end on witness modules: every rendered arithmetic call names an IntermediateT whose range
    holds the inferred bounds of the operation's result and operands (read back from the IR)."""
    import re
    glue = importlib.import_module("compiler.front_end.glue")
    hg = _m()[1]
    from contracts.bounds import _Reader
    src = ('[$default byte_order: "LittleEndian"]\nstruct Ww:\n  0 [+4]  UInt  a\n  4 [+4]  UInt  b\n  8 [+4]  Int  c\n'
           '  let total = a + b\n  let diff = a - b\n  let prod = a * 2\n  let mixed = c - 1\n  let pick = a == 0 ? b + 1 : b\n  let most = $max(a, b + 1)\n')
    ir, debug, errors = glue.parse_emboss_file("w.emb", _Reader({"w.emb": src}))
    if errors:
        return {"reproduced": False, "error": "witness module rejected"}
    header, errs = hg.generate_header(ir)
    bad = []
    fields = {f.name.name.text: f for f in ir.module[0].type[0].structure.field}

    def walk(e, out):
        if e.which_expression == "function":
            out.append(e)
            for a in e.function.args:
                walk(a, out)
    for fname in ("total", "diff", "prod", "mixed", "pick", "most"):
        fns = []
        walk(fields[fname].read_transform, fns)
        for e in fns:
            ints = [x for x in [e] + list(e.function.args) if x.type.which_type == "integer"]
            if not ints:
                continue
            lo = min(int(x.type.integer.minimum_value) for x in ints)
            hi = max(int(x.type.integer.maximum_value) for x in ints)
            # the rendered call for this operation: find a support call whose ResultT/ArgTs match is overkill; check that SOME
            # call with an IntermediateT that holds [lo, hi] exists for the operator, and that none with a smaller one was emitted
            opname = hg._builtin_function_name(e.function.function)
            inters = set(re.findall(r"::emboss::support::%s</\*\*/(::std::u?int\d+_t)," % opname, header))
            need = hg._cpp_integer_type_for_range(lo, hi)
            for t in inters:
                a, b = RANGES[t]
                if need is not None and RANGES[need] != (a, b) and not (a <= RANGES[need][0] and RANGES[need][1] <= b) and (lo < a or hi > b):
                    bad.append({"field": fname, "operator": opname, "bounds": [lo, hi], "IntermediateT_emitted": t})
    return {"reproduced": bool(bad), "inputs": src, "violations": bad[:4]}


TARGETS = {"can_fit": target_can_fit, "_render_builtin_operation": target_render_builtin_operation, "_integer_bounds_errors": target_integer_bounds_errors,
           "_integer_bounds_errors_for_expression": target_bounds_errors_for_expression,
           "_cpp_integer_type_for_range": target_type_for_range, "_cpp_integer_type_for_enum": target_type_for_enum}
