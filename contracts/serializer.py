"""E1 contracts on the IR serializer (C18): compiler/util/ir_data_utils.IrDataSerializer.{to_dict,_to_dict,_from_dict} and
compiler/util/ir_data_fields.fields_and_values, executed symbolically from their real source over a GHOST message class:

   a node with one or two fields, each of one of the nine kinds of field spec that exist in ir_data (ground obligation:
   the kinds below are all the (is_dataclass, is_sequence, data_type) combinations of the real classes):
       message | message list | SourceLocation | FunctionMapping | AddressableUnit | bool | str | int list | str list
   in each state a field can be in: unset (None) / set; for lists: empty / one / two elements; scalars symbolic (so
   False and "" and 0 are included - falsy but SET values).

Obligations (per kind combination and state):
   to-dict       to_dict(exclude_none=True) has exactly the keys of the set, non-empty-list fields, in field order, with
                 the value itself (scalars, enum members, scalar lists), str(location), TD(child) / [TD(child)...]
   from-dict     _from_dict builds data_cls(**kw) with kw exactly the keys whose dict value is not None: FD(child class, v),
                 [FD(..)..], from_str(v), the enum converter applied to v, the list itself, data_type(v)
   round-trip    _from_dict(cls, JSON(to_dict(x))) == x field by field, where a dropped (unset or empty-list) field
                 compares equal to the class default, under the stated hypotheses:
                    IH    FD(T, JSON(TD(c))) == c            for child messages (structural induction)
                    LOC   from_str(str(l)) == l               (contracts below + bounded part of C18)
                    ENUM  converter(E, JSON(member)) == member  (converter executed from source: by name or by value)
                    JSON  json.loads(json.dumps(d)) == d on str-keyed dicts of None/bool/int/str/list/dict, an IntEnum
                          member becoming its integer value                                     (trusted: CPython json)
                    DEF   defaults of the real dataclasses: None for optional fields, [] for list fields   (ground)
"""
import dataclasses
import importlib

import z3

from vlib import core, pyvc
from vlib.pyvc import GObj, SBool, SInt, SRec

# optional fields whose class default is not None: an explicit None there would be re-read as the default.  The front end
# always sets these (CanonicalName.module_file is a str in every IR it produces) - an assumption, listed in the evidence.
NON_NONE_DEFAULTS = {"CanonicalName.module_file": ""}
KINDS = ["msg", "msgs", "loc", "fmap", "aunit", "bool", "str", "ints", "strs"]
UTILS = "compiler.util.ir_data_utils"


def _mods():
    return (importlib.import_module(UTILS), importlib.import_module("compiler.util.ir_data_fields"), importlib.import_module("compiler.util.ir_data"),
            importlib.import_module("compiler.util.parser_types"))


class _Child:
    """Marker for the ghost child message class."""


def _spec(kind, name, ir_data, pt):
    dt = {"msg": _Child, "msgs": _Child, "loc": pt.SourceLocation, "fmap": ir_data.FunctionMapping, "aunit": ir_data.AddressableUnit, "bool": bool, "str": str, "ints": int, "strs": str}[kind]
    return SRec("FieldSpec", {"name": name, "data_type": dt, "is_dataclass": kind in ("msg", "msgs"), "is_sequence": kind in ("msgs", "ints", "strs"), "is_enum": kind in ("fmap", "aunit"),
                              "is_oneof": False, "oneof": None, "container": None})


def _states(kind):
    return ["unset", "empty", "one", "two"] if kind in ("msgs", "ints", "strs") else ["unset", "set"]


def _value(kind, state, tag):
    if state == "unset":
        return None
    if kind == "msg":
        return GObj("child:%s" % tag)
    if kind == "msgs":
        return [GObj("child:%s.%d" % (tag, i)) for i in range({"empty": 0, "one": 1, "two": 2}[state])]
    if kind == "loc":
        return GObj("loc:%s" % tag, truthy=z3.Bool("location_%s_is_truthy" % tag))      # SourceLocation.__bool__: false for 0:0-0:0, also with flags set
    if kind in ("fmap", "aunit"):
        return GObj("enum-member:%s" % tag, truthy=z3.Bool("enum_member_%s_is_truthy" % tag))   # an IntEnum member of value 0 is falsy
    if kind == "bool":
        return SBool(z3.Bool("bool_%s" % tag))
    if kind == "str":
        return pyvc.GStr(z3.Int("strlen_%s" % tag), tag=("str", tag))
    if kind == "ints":
        return [SInt(z3.Int("int_%s_%d" % (tag, i))) for i in range({"empty": 0, "one": 1, "two": 2}[state])]
    if kind == "strs":
        return [pyvc.GStr(z3.Int("strlen_%s_%d" % (tag, i)), tag=("str", tag, i)) for i in range({"empty": 0, "one": 1, "two": 2}[state])]
    raise ValueError(kind)


def target_round_trip():
    utils, fields, ir_data, pt = _mods()
    to_dict_info = pyvc.load_function(UTILS + ".IrDataSerializer.to_dict")
    to_dict2_info = pyvc.load_function(UTILS + ".IrDataSerializer._to_dict")
    from_dict_info = pyvc.load_function(UTILS + ".IrDataSerializer._from_dict")
    eng = pyvc.Engine()
    eng.inline_fn(fields.fields_and_values, "compiler.util.ir_data_fields.fields_and_values")
    eng.contract(utils._extract_ir, lambda interp, x: x, "_extract_ir (plain IR node, not a builder / read-only wrapper)")

    def harness(c):
        combo = c.choice("fields", KINDS + ["%s+%s" % (a, b) for a in ("msgs", "bool", "loc", "strs") for b in ("msg", "str", "ints", "fmap")])
        kinds = combo.split("+")
        states = [c.choice("state%d" % i, _states(k)) for i, k in enumerate(kinds)]
        specs = [_spec(k, "f%d" % i, ir_data, pt) for i, k in enumerate(kinds)]
        vals = [_value(k, s, "f%d" % i) for i, (k, s) in enumerate(zip(kinds, states))]
        node = SRec("Node", dict([("f%d" % i, v) for i, v in enumerate(vals)] + [("field_specs", SRec("FilteredIrFieldSpecs", {"field_specs": list(specs)}))]))
        calls = {"str": [], "from_str": [], "conv": [], "ctor": [], "dt": []}

        def ghost_str(interp, v):
            calls["str"].append(v)
            return ("STR", v)

        def to_dict_method(interp, obj, ir, field_func):
            if ir is node:
                return pyvc.Interp(c, to_dict2_info, interp.depth + 1).call([obj, ir, field_func])
            return ("TD", ir)          # induction hypothesis for children
        ser = GObj("serializer", methods={"_to_dict": to_dict_method}, attrs={"ir": node})
        it = pyvc.Interp(c, to_dict_info)
        it.env_overrides = {}
        c.covered = True
        eng.contract(str, ghost_str, "str() of a SourceLocation")
        d = it.call([ser], {"exclude_none": True})
        # --- to-dict
        c.oblige("to-dict:result-is-a-dict", isinstance(d, dict) and not isinstance(d, pyvc.GDict))
        if not isinstance(d, dict):
            return
        want = {}
        for i, (k, s, v) in enumerate(zip(kinds, states, vals)):
            if s in ("unset", "empty"):
                continue
            if k == "msg":
                want["f%d" % i] = ("TD", v)
            elif k == "msgs":
                want["f%d" % i] = [("TD", x) for x in v]
            elif k == "loc":
                want["f%d" % i] = ("STR", v)
            else:
                want["f%d" % i] = v

        def same(a, b):
            if isinstance(a, list) and isinstance(b, list):
                return len(a) == len(b) and all(same(x, y) for x, y in zip(a, b))
            if isinstance(a, tuple) and isinstance(b, tuple):
                return len(a) == len(b) and all(same(x, y) for x, y in zip(a, b))
            if isinstance(a, (SBool, SInt)) and type(a) is type(b):
                return a.t.eq(b.t)
            return a is b or (isinstance(a, (str, int, bool, type(None))) and type(a) is type(b) and a == b)
        c.oblige("to-dict:exactly-the-set-non-empty-fields-in-order", list(d.keys()) == list(want.keys()), detail="%r vs %r" % (list(d.keys()), list(want.keys())))
        for key in want:
            if key in d:
                c.oblige("to-dict:value-form[%s]" % kinds[int(key[1:])], same(d[key], want[key]), detail="%r vs %r" % (d[key], want[key]))
        # --- JSON (trusted): identity, enum member -> its integer value
        def js(v):
            if isinstance(v, GObj) and v.label.startswith("enum-member"):
                return ("JSON-INT-OF", v)
            if isinstance(v, list):
                return [js(x) for x in v]
            if isinstance(v, tuple) and v and v[0] in ("TD", "STR"):
                return ("JSON",) + v
            return v
        data = {k: js(v) for k, v in d.items()}
        # --- from-dict on the re-read dict
        cls = GObj("NodeClass")

        def ctor(interp, obj, **kw):
            calls["ctor"].append(kw)
            return ("NODE", kw)
        cls_call = pyvc._BoundGhost(cls, "__call__", ctor)
        eng.contract(fields.field_specs, lambda interp, t: {s.f["name"]: s for s in specs}, "ir_data_fields.field_specs")

        def from_dict_static(interp, t, v):
            return ("FD", t, v)
        eng.contract(utils.IrDataSerializer._from_dict, from_dict_static, "_from_dict (children: induction hypothesis)")

        def conv(interp, ecls, v):
            calls["conv"].append((ecls, v))
            return ("CONV", ecls, v)
        eng.contract(utils.IrDataSerializer._enum_type_converter, conv, "_enum_type_converter")
        eng.contract(pt.SourceLocation.from_str, lambda interp, v: ("FROM_STR", v), "SourceLocation.from_str")
        eng.contract(bool, lambda interp, v=False: ("DT", bool, v), "bool(v)")
        eng.contract(str, lambda interp, v="": ("DT", str, v), "str(v)")
        it2 = pyvc.Interp(c, from_dict_info)
        built = it2.call([cls_call, data])
        okb = isinstance(built, tuple) and built[0] == "NODE"
        c.oblige("from-dict:constructs-the-class-with-keyword-arguments", okb, detail=repr(built)[:200])
        if not okb:
            return
        kw = built[1]
        c.oblige("from-dict:exactly-the-keys-present-in-the-dict", list(kw.keys()) == list(want.keys()), detail="%r vs %r" % (list(kw.keys()), list(want.keys())))

        # --- round trip: normalise with the hypotheses IH / LOC / ENUM(by construction of conv) / DT identity
        def norm(v):
            if isinstance(v, list):
                return [norm(x) for x in v]
            if isinstance(v, tuple) and v[0] == "FD" and v[1] is _Child and isinstance(v[2], tuple) and v[2][:2] == ("JSON", "TD"):
                return v[2][2]
            if isinstance(v, tuple) and v[0] == "FROM_STR" and isinstance(v[1], tuple) and v[1][:2] == ("JSON", "STR"):
                return v[1][2]
            if isinstance(v, tuple) and v[0] == "CONV" and isinstance(v[2], tuple) and v[2][0] == "JSON-INT-OF":
                return ("MEMBER-OF", v[1], v[2][1])
            if isinstance(v, tuple) and v[0] == "DT":
                return ("OF-TYPE", v[1], v[2])
            return v
        for i, (k, s, v) in enumerate(zip(kinds, states, vals)):
            key = "f%d" % i
            if s in ("unset", "empty"):
                c.oblige("round-trip:unset-or-empty-field-left-to-the-class-default[%s]" % k, key not in kw)
                continue
            if key not in kw:
                c.oblige("round-trip:set-field-survives[%s]" % k, False, detail="field %s (%s) lost" % (key, s))
                continue
            got = norm(kw[key])
            if k in ("fmap", "aunit"):
                exp = ("MEMBER-OF", specs[i].f["data_type"], v)
            elif k in ("bool", "str"):
                exp = ("OF-TYPE", specs[i].f["data_type"], v)
            else:
                exp = v
            c.oblige("round-trip:set-field-survives[%s]" % k, same(got, exp), detail="%r vs %r" % (got, exp))
    paths = eng.explore(harness)
    return pyvc.collect(paths, "IrDataSerializer.round-trip"), sum(1 for p in paths if p.covered)


def target_enum_converter():
    """_enum_type_converter executed from source: a str names the member (getattr), anything else is looked up by value -
    so both JSON forms of an enum member (its name, its integer value) come back as that member."""
    utils, fields, ir_data, pt = _mods()
    info = pyvc.load_function(UTILS + ".IrDataSerializer._enum_type_converter")
    eng = pyvc.Engine()

    def harness(c):
        form = c.choice("json-form", ["name", "value"])
        member = GObj("member")
        ecls = GObj("EnumClass", attrs={"MEMBER_NAME": member})
        ecls_call = pyvc._BoundGhost(ecls, "__call__", lambda interp, obj, v: ("BY-VALUE", v))
        c.covered = True
        it = pyvc.Interp(c, info)
        if form == "name":
            # getattr(enum_cls, "MEMBER_NAME")
            r = it.call([ecls, "MEMBER_NAME"])
            c.oblige("name-form-is-looked-up-by-name", r is member, detail=repr(r))
        else:
            r = it.call([ecls_call, SInt(z3.Int("value"))])
            c.oblige("value-form-is-looked-up-by-value", isinstance(r, tuple) and r[0] == "BY-VALUE" and isinstance(r[1], SInt) and r[1].t.eq(z3.Int("value")), detail=repr(r))
    paths = eng.explore(harness)
    return pyvc.collect(paths, "IrDataSerializer._enum_type_converter"), sum(1 for p in paths if p.covered)


def ground_obligations():
    """Facts about the REAL ir_data classes the ghost class stands for (exhaustive over all of them, by reflection)."""
    import time
    utils, fields, ir_data, pt = _mods()
    t0 = time.time()
    covered = {("msg"): (True, False), "msgs": (True, True)}
    bad_kind, bad_default, n_specs, n_cls = [], [], 0, 0
    for name in sorted(dir(ir_data)):
        cl = getattr(ir_data, name)
        if not (isinstance(cl, type) and dataclasses.is_dataclass(cl)) or cl is ir_data.Message:
            continue
        n_cls += 1
        try:
            inst = cl()
        except Exception as e:          # noqa
            bad_default.append("%s() raises %r" % (name, e))
            continue
        for fname, s in fields.field_specs(cl).items():
            n_specs += 1
            if s.is_dataclass:
                ok = True
            elif s.is_sequence:
                ok = s.data_type in (int, str)
            else:
                ok = s.data_type in (bool, str, pt.SourceLocation, ir_data.FunctionMapping, ir_data.AddressableUnit)
            if not ok:
                bad_kind.append("%s.%s: %r sequence=%r" % (name, fname, s.data_type, s.is_sequence))
            dv = getattr(inst, fname)
            if (s.is_sequence and not (isinstance(dv, list) and len(dv) == 0)) or (not s.is_sequence and dv is not None):
                if "%s.%s" % (name, fname) not in NON_NONE_DEFAULTS or dv != NON_NONE_DEFAULTS["%s.%s" % (name, fname)]:
                    bad_default.append("%s.%s default %r" % (name, fname, dv))
    secs = time.time() - t0
    out = [core.Obligation("ground.serializer.every-real-field-spec-is-one-of-the-nine-kinds", core.PROVED if not bad_kind else core.REFUTED, "cpython-ground", secs, kind="ground",
                           detail="%d specs of %d classes" % (n_specs, n_cls) if not bad_kind else "; ".join(bad_kind[:5]), model={"uncovered": bad_kind[:8]} if bad_kind else None,
                           replay={"reproduced": True, "inputs": bad_kind[:8]} if bad_kind else None),
           core.Obligation("ground.serializer.defaults-are-None-and-empty-list", core.PROVED if not bad_default else core.REFUTED, "cpython-ground", secs, kind="ground",
                           detail="%d specs of %d classes" % (n_specs, n_cls) if not bad_default else "; ".join(bad_default[:5]), model={"wrong": bad_default[:8]} if bad_default else None,
                           replay={"reproduced": True, "inputs": bad_default[:8]} if bad_default else None)]
    for member_cls in (ir_data.FunctionMapping, ir_data.AddressableUnit):
        import json
        bad = [m.name for m in member_cls if utils.IrDataSerializer._enum_type_converter(member_cls, json.loads(json.dumps(m))) is not m]
        out.append(core.Obligation("ground.serializer.json-of-enum-member-converts-back[%s]" % member_cls.__name__, core.PROVED if not bad else core.REFUTED, "cpython-ground", 0.0, kind="ground",
                                   detail="%d members" % len(list(member_cls)) if not bad else "members %r" % bad[:5], model={"members": bad[:8]} if bad else None,
                                   replay={"reproduced": True, "inputs": bad[:8]} if bad else None))
    return out


def replay_round_trip(name, model):
    """Replay of a refuted serializer obligation on the REAL classes: for each of the nine kinds, a real ir_data class
    with a field of that kind, every state (unset / falsy and truthy scalars / empty, one, two elements), through
    IrDataSerializer(x).to_json() and IrDataSerializer.from_json(type(x), ...), compared field by field."""
    utils, fields, ir_data, pt = _mods()
    loc = pt.SourceLocation((1, 2), (3, 4), is_synthetic=True)
    cases = [(ir_data.ArrayType, "base_type", [None, ir_data.Type(), ir_data.Type(size_in_bits=ir_data.Expression())]),
             (ir_data.AtomicType, "runtime_parameter", [[], [ir_data.Expression()], [ir_data.Expression(), ir_data.Expression(type=ir_data.ExpressionType())]]),
             (ir_data.ArrayType, "source_location", [None, loc, pt.SourceLocation((0, 0), (0, 0)), pt.SourceLocation((0, 0), (0, 0), is_synthetic=True)]),
             (ir_data.Function, "function", [None] + list(ir_data.FunctionMapping)[:3]),
             (ir_data.TypeDefinition, "addressable_unit", [None] + list(ir_data.AddressableUnit)),
             (ir_data.Attribute, "is_default", [None, False, True]),
             (ir_data.CanonicalName, "module_file", [None, "", "x.emb"]),
             (ir_data.Structure, "fields_in_dependency_order", [[], [0], [0, 1], [2, 0]]),
             (ir_data.CanonicalName, "object_path", [[], [""], ["A", ""], ["A", "b"]])]
    for cl, fname, values in cases:
        for v in values:
            x = cl(**{fname: v}) if v is not None else cl()
            try:
                y = utils.IrDataSerializer.from_json(cl, utils.IrDataSerializer(x).to_json())
                got = getattr(y, fname)
                v = getattr(x, fname)
                good = (list(got) == list(v)) if isinstance(v, list) else (got == v and type(got) is type(v))
            except Exception as e:      # noqa
                got, good = "exception %r" % (e,), False
            if not good:
                return {"reproduced": True, "inputs": {"class": cl.__name__, "field": fname, "value": repr(v)}, "got": repr(got)[:300]}
    return {"reproduced": False, "note": "the nine kinds on real classes round-trip"}


TARGETS = {"round_trip": target_round_trip, "enum_converter": target_enum_converter}
