"""Sidecar contract for compiler/front_end/write_inference._invert_expression (C03, E1).

Loop invariant (by loop ordinal: the `for index in reference_path` loop):
    for every value x of the referenced field and every written value v:
        eval(expression)[x] == v   <=>   eval(subexpression)[x] == eval(result)[v]
and `result` does not mention the field.  It holds initially (subexpression = expression, result =
$logical_value), and each iteration preserves it if for the layer  sub = op(a0, a1)  with the field
below a_index and the other operand c = a_(1-index):
    op(y, c) == R   <=>   y == eval(new_result)[R, c]          (step lemma, proved for all y, c, R)
    new subexpression is a_index
At exit subexpression is the field reference, so  x == eval(result)[v]  is the unique solution: writing
through the virtual field stores the value that makes it read back v.
The step lemma is discharged on the REAL loop body (the statements are taken from the AST and executed
once from a symbolic pre-state); the whole function is additionally executed for every +/- path up to
depth 3 as a cross-check of the induction."""
import ast
import importlib

import z3

from vlib import core, pyvc
from vlib.pyvc import SRec, SInt, PathEnd

DOTTED = "compiler.front_end.write_inference._invert_expression"


def _mods():
    return (importlib.import_module("compiler.util.ir_data"), importlib.import_module("compiler.util.parser_types"),
            importlib.import_module("compiler.front_end.write_inference"), importlib.import_module("compiler.front_end.expression_bounds"))


def make_engine():
    ir_data, parser_types, wi, eb = _mods()
    eng = pyvc.Engine()

    def ctor(name):
        def spec(interp, *args, **kw):
            if args:
                raise pyvc.Unsupported("positional constructor argument for %s" % name)
            f = dict(kw)
            if name == "Expression":
                for k in ("constant", "constant_reference", "function", "field_reference", "boolean_constant", "builtin_reference"):
                    if k in f:
                        f["which_expression"] = k
            return SRec(name, f)
        return spec
    for cls in ("Expression", "Function", "Reference", "CanonicalName", "Word", "ExpressionType", "IntegerType"):
        eng.contract(getattr(ir_data, cls), ctor(cls), cls)
    eng.contract(parser_types.SourceLocation, ctor("SourceLocation"), "SourceLocation")
    eng.contract(eb.compute_constraints_of_expression, lambda interp, e, ir: None, "compute_constraints_of_expression")
    eng.inline_fn(wi._find_field_reference_path, "compiler.front_end.write_inference._find_field_reference_path")
    eng.inline_fn(wi._recursively_find_field_reference_path, "compiler.front_end.write_inference._recursively_find_field_reference_path")
    return eng


def leaf(value_term, tag):
    """An x-free operand whose value is the symbolic integer value_term."""
    return SRec("Expression", {"which_expression": "constant", "ghost_value": value_term, "tag": tag})


def field_ref():
    return SRec("Expression", {"which_expression": "field_reference", "field_reference": SRec("FieldReference", {})})


def node(FM, op, args):
    return SRec("Expression", {"which_expression": "function",
                               "function": SRec("Function", {"function": getattr(FM, op), "args": list(args)})})


def ev(e, x, v, FM):
    """Ghost evaluation of an expression tree; x = value of the field, v = $logical_value."""
    w = e.f.get("which_expression")
    if w == "field_reference":
        return x
    if w == "builtin_reference":
        return v
    if w == "constant":
        return e.f["ghost_value"]
    if w == "function":
        fn = e.f["function"]
        a = [ev(t, x, v, FM) for t in fn.f["args"]]
        if fn.f["function"] == FM.ADDITION:
            return a[0] + a[1]
        if fn.f["function"] == FM.SUBTRACTION:
            return a[0] - a[1]
    raise core.CheckerError("ghost evaluation of unexpected node %r" % (e,))


def mentions_field(e):
    w = e.f.get("which_expression")
    if w == "field_reference":
        return True
    if w == "function":
        return any(mentions_field(t) for t in e.f["function"].f["args"])
    return False


def find_loop(info):
    loops = [n for n in ast.walk(info.node) if isinstance(n, ast.For) and isinstance(n.iter, ast.Name) and n.iter.id == "reference_path"]
    if len(loops) != 1:
        raise core.CheckerError("anchor mismatch: expected exactly one `for index in reference_path` loop in _invert_expression, found %d" % len(loops))
    return loops[0]


def target_step():
    """Step lemma on the real loop body."""
    ir_data, parser_types, wi, eb = _mods()
    FM = ir_data.FunctionMapping
    eng = make_engine()
    info = pyvc.load_function(DOTTED)
    loop = find_loop(info)

    def harness(c):
        op = c.choice("op", ["ADDITION", "SUBTRACTION", "MULTIPLICATION"])
        index = int(c.choice("index", ["0", "1"]))
        y, cc, R = z3.Int("y"), z3.Int("c"), z3.Int("R")
        below = leaf(y, "below")        # stands for the subtree that contains the field: value y
        other = leaf(cc, "other")
        args = [below, other] if index == 0 else [other, below]
        sub = node(FM, op, args)
        result = leaf(R, "result")
        # `expression` is a different node: using it where `subexpression` is meant must be visible
        decoy = node(FM, op, [leaf(z3.Int("d0"), "decoy0"), leaf(z3.Int("d1"), "decoy1")])
        it = pyvc.Interp(c, info)
        it.env = {"index": index, "subexpression": sub, "result": result, "expression": decoy, "ir": SRec("EmbossIr", {})}
        c.covered = True
        try:
            it.block(loop.body)
        except pyvc._Return as r:
            c.oblige("non-invertible-returns-None", op == "MULTIPLICATION" and r.value is None, detail="returned %r" % (r.value,))
            return
        except pyvc.PyRaise as r:
            c.oblige("no-raise", False, detail="%s at %s" % (r.exc_type, r.where))
            return
        c.oblige("invertible-layer-continues", op != "MULTIPLICATION")
        if op == "MULTIPLICATION":
            return
        c.oblige("advances-to-args[index]", it.env["subexpression"] is below)
        newr = it.env["result"]
        c.oblige("result-does-not-mention-field", isinstance(newr, SRec) and not mentions_field(newr))
        try:
            nr = ev(newr, z3.Int("x!unused"), z3.Int("v!unused"), FM)
        except core.CheckerError as e:
            c.oblige("step-lemma", False, detail=str(e))
            return
        layer = (y + cc if index == 0 else cc + y) if op == "ADDITION" else (y - cc if index == 0 else cc - y)
        c.oblige("step-lemma", (layer == R) == (y == nr), detail="new result value: %s" % nr)
    paths = eng.explore(harness)
    return pyvc.collect(paths, "_invert_expression.step"), sum(1 for p in paths if p.covered)


def target_whole(depth):
    """Whole function on every +/- path of the given depth (cross-check of the induction)."""
    ir_data, parser_types, wi, eb = _mods()
    FM = ir_data.FunctionMapping
    eng = make_engine()

    def harness(c):
        c.labels.append("depth=%d" % depth)
        x, v = z3.Int("x"), z3.Int("v")
        e = field_ref()
        fr = e
        for lvl in range(depth):
            op = c.choice("op%d" % lvl, ["ADDITION", "SUBTRACTION"])
            idx = int(c.choice("i%d" % lvl, ["0", "1"]))
            other = leaf(z3.Int("c%d" % lvl), "c%d" % lvl)
            e = node(FM, op, [e, other] if idx == 0 else [other, e])
        e.f["type"] = SRec("ExpressionType", {"which_type": "integer"})
        c.covered = True
        st, got = pyvc.run_body(c, DOTTED, [e, SRec("EmbossIr", {})])
        ok = isinstance(got, tuple) and len(got) == 2
        c.oblige("returns-pair", ok, detail=repr(got)[:100])
        if not ok:
            return
        ref, inv = got
        c.oblige("returns-the-field-reference", ref is fr)
        c.oblige("inverse-does-not-mention-field", not mentions_field(inv))
        val = ev(e, x, v, FM)
        invv = ev(inv, z3.Int("x!stale"), v, FM)
        c.oblige("inverse-is-unique-solution", (val == v) == (x == invv), detail="inverse value %s" % invv)
    paths = eng.explore(harness)
    return pyvc.collect(paths, "_invert_expression.whole"), sum(1 for p in paths if p.covered)


def target_rejects():
    """No field reference, two field references, or a non +/- layer on the path: returns None."""
    ir_data, parser_types, wi, eb = _mods()
    FM = ir_data.FunctionMapping
    eng = make_engine()

    def harness(c):
        shape = c.choice("shape", ["no-field", "two-fields", "times-on-path", "bare-field"])
        k = leaf(z3.Int("k"), "k")
        if shape == "no-field":
            e = node(FM, "ADDITION", [k, leaf(z3.Int("k2"), "k2")])
        elif shape == "two-fields":
            e = node(FM, "ADDITION", [field_ref(), field_ref()])
        elif shape == "times-on-path":
            e = node(FM, "ADDITION", [node(FM, "MULTIPLICATION", [field_ref(), k]), leaf(z3.Int("k2"), "k2")])
        else:
            e = field_ref()
        e.f["type"] = SRec("ExpressionType", {"which_type": "integer"})
        c.covered = True
        st, got = pyvc.run_body(c, DOTTED, [e, SRec("EmbossIr", {})])
        if shape == "bare-field":
            c.oblige("bare-field-inverse-is-logical-value", isinstance(got, tuple) and got[0] is e and got[1].f.get("which_expression") == "builtin_reference")
        else:
            c.oblige("returns-None", got is None, detail=repr(got)[:80])
    paths = eng.explore(harness)
    return pyvc.collect(paths, "_invert_expression.rejects"), sum(1 for p in paths if p.covered)


TARGETS = {"step": target_step, "whole:1": lambda: target_whole(1), "whole:2": lambda: target_whole(2), "whole:3": lambda: target_whole(3),
           "rejects": target_rejects}


# ---------------------------------------------------------------------------
# replay on the real front end


def replay(ob_name, model):
    """Compiles a module whose virtual field has the refuted shape and evaluates the inferred write
    transform on the real IR: writing v must store the x that makes the field read back v."""
    import re
    m = re.search(r"\[depth=(\d+),(.*?)\]\.", ob_name)
    if not m:
        return {"reproduced": False, "error": "no whole-function shape in obligation name (step lemma): see the whole-function obligations"}
    depth = int(m.group(1))
    ops = dict(re.findall(r"(op\d+|i\d+)=([A-Z0-9]+)", m.group(2)))
    model = model or {}
    text = "x"
    for lvl in range(depth):
        c = abs(int(model.get("c%d" % lvl, lvl + 1))) % 50 + 1 + lvl
        sym = "+" if ops["op%d" % lvl] == "ADDITION" else "-"
        text = "(%s %s %d)" % (text, sym, c) if ops["i%d" % lvl] == "0" else "(%d %s %s)" % (c, sym, text)
    src = '[$default byte_order: "LittleEndian"]\nstruct Foo:\n  0 [+1]  UInt  x\n  let a = %s\n' % text
    glue = importlib.import_module("compiler.front_end.glue")
    ir_data = importlib.import_module("compiler.util.ir_data")
    from contracts.bounds import _Reader
    ir, debug, errors = glue.parse_emboss_file("w.emb", _Reader({"w.emb": src}))
    if errors:
        return {"reproduced": False, "error": "witness module rejected", "inputs": src}
    fld = [f for f in ir.module[0].type[0].structure.field if f.name.name.text == "a"][0]
    FM = ir_data.FunctionMapping

    def evl(e, x, v):
        if e.which_expression == "constant":
            return int(e.constant.value)
        if e.which_expression == "field_reference":
            return x
        if e.which_expression == "builtin_reference":
            return v
        a = [evl(t, x, v) for t in e.function.args]
        return a[0] + a[1] if e.function.function == FM.ADDITION else a[0] - a[1]
    if not fld.write_method.transform.function_body.which_expression:
        return {"reproduced": False, "error": "no transform write method inferred", "inputs": src}
    inv = fld.write_method.transform.function_body
    bad = []
    for x in range(0, 256, 17):
        v = evl(fld.read_transform, x, None)
        for stale in (0, 5):
            got = evl(inv, stale, v)
            if got != x:
                bad.append({"x": x, "v": v, "stored": got, "old_x": stale})
    return {"reproduced": bool(bad), "inputs": src, "failures": bad[:3]}
