"""Sidecar contracts for the numeric layout rules of compiler/front_end/constraints.py (C14, E1)."""
import importlib

import z3

from vlib import core, pyvc
from vlib.pyvc import SRec, SInt, PathEnd

MOD = "compiler.front_end.constraints."


def _m():
    return (importlib.import_module("compiler.front_end.constraints"), importlib.import_module("compiler.util.error"),
            importlib.import_module("compiler.util.ir_util"), importlib.import_module("compiler.util.ir_data"),
            importlib.import_module("compiler.front_end.attributes"))


def engine(attr_values):
    cons, error, ir_util, ir_data, attributes = _m()
    eng = pyvc.Engine()
    for f in (error.error, error.note, error.warn):
        eng.contract(f, lambda interp, *a, **k: SRec("ErrorMessage", {}), f.__name__)
    eng.contract(ir_util.get_integer_attribute, lambda interp, attrs, name, default_value=None: attr_values.get(name, default_value), "get_integer_attribute")
    eng.contract(ir_util.get_boolean_attribute, lambda interp, attrs, name, default_value=None: attr_values.get(name, default_value), "get_boolean_attribute")
    eng.contract(ir_util.get_attribute, lambda interp, attrs, name: attr_values.get("attr:" + name), "get_attribute")
    eng.contract(ir_util.constant_value, lambda interp, e, bindings=None: e.f["cv"] if e is not None else None, "constant_value")
    eng.contract(ir_util.find_object, lambda interp, ref, ir: ref.f["target"], "find_object")
    for n in ("_render_atomic_type_name", "_render_type"):
        eng.contract(getattr(cons, n), lambda interp, *a: "<type>", n)
    return eng


def target_enum_values():
    cons, error, ir_util, ir_data, attributes = _m()
    out, cov = [], 0
    for signed in (True, False):
        for bits in range(1, 65):
            eng = engine({attributes.ENUM_MAXIMUM_BITS: bits, attributes.IS_SIGNED: signed})

            def harness(c, bits=bits, signed=signed):
                c.labels.append("bits=%d,signed=%s" % (bits, signed))
                vs = [z3.Int("v0"), z3.Int("v1")]
                values = [SRec("EnumValue", {"value": SRec("Expression", {"cv": SInt(v), "source_location": SRec("SourceLocation", {})})}) for v in vs]
                enum = SRec("Enum", {"value": values})
                td = SRec("TypeDefinition", {"attribute": []})
                errors = []
                c.covered = True
                pyvc.run_body(c, MOD + "_check_that_enum_values_are_representable", [enum, td, "f.emb", errors])
                lo, hi = (-(2 ** (bits - 1)), 2 ** (bits - 1) - 1) if signed else (0, 2 ** bits - 1)
                bad = [z3.Or(v < lo, v > hi) for v in vs]
                n_bad = z3.If(bad[0], 1, 0) + z3.If(bad[1], 1, 0)
                c.oblige("one-error-per-unrepresentable-value", z3.IntVal(len(errors)) == n_bad)
            paths = eng.explore(harness)
            cov += sum(1 for p in paths if p.covered)
            out += pyvc.collect(paths, "enum-values-representable")
    return out, cov


def target_size_of_bits():
    cons, error, ir_util, ir_data, attributes = _m()
    out, cov = [], 0
    for fixed_kind in ("none", "sym"):
        fixed = z3.Int("fixed_size")
        eng = engine({attributes.FIXED_SIZE: None if fixed_kind == "none" else SInt(fixed)})

        def harness(c, fixed_kind=fixed_kind, fixed=fixed):
            unit = c.choice("unit", ["BIT", "BYTE"])
            c.labels.append("fixed=" + fixed_kind)
            td = SRec("TypeDefinition", {"addressable_unit": getattr(ir_data.AddressableUnit, unit), "attribute": [], "source_location": SRec("SourceLocation", {})})
            errors = []
            c.covered = True
            pyvc.run_body(c, MOD + "_check_size_of_bits", [SRec("Structure", {}), td, "f.emb", errors])
            want = z3.BoolVal(unit == "BIT" and fixed_kind == "none") if fixed_kind == "none" else z3.And(z3.BoolVal(unit == "BIT"), fixed > 64)
            c.oblige("error-iff-bits-not-fixed-or-over-64", z3.BoolVal(len(errors) > 0) == want)
            c.oblige("at-most-one-error", len(errors) <= 1)
        paths = eng.explore(harness)
        cov += sum(1 for p in paths if p.covered)
        out += pyvc.collect(paths, "size-of-bits")
    return out, cov


def target_enum_field_size():
    cons, error, ir_util, ir_data, attributes = _m()
    out, cov = [], 0
    mx = z3.Int("max_bits")
    eng = engine({attributes.ENUM_MAXIMUM_BITS: SInt(mx)})

    def harness(c):
        size_kind = c.choice("size", ["none", "sym"])
        size = z3.Int("size")
        c.assume(z3.And(mx >= 1, mx <= 64))
        target = SRec("TypeDefinition", {"attribute": [], "has:enumeration": True, "enumeration": SRec("Enum", {})})
        type_ir = SRec("Type", {"source_location": SRec("SourceLocation", {}),
                                "atomic_type": SRec("AtomicType", {"reference": SRec("Reference", {"target": target, "canonical_name": SRec("CanonicalName", {"object_path": ["E"], "module_file": "f.emb"})})})})
        c.covered = True
        st, got = pyvc.run_body(c, MOD + "_check_physical_type_requirements",
                                [type_ir, SRec("SourceLocation", {}), None if size_kind == "none" else SInt(size), SRec("EmbossIr", {}), "f.emb"])
        c.oblige("returns-list", isinstance(got, list))
        if not isinstance(got, list):
            return
        want = z3.BoolVal(True) if size_kind == "none" else z3.Or(size < 1, size > mx)
        c.oblige("error-iff-dynamic-or-outside-1..maximum_bits", z3.BoolVal(len(got) > 0) == want)
    paths = eng.explore(harness)
    cov += sum(1 for p in paths if p.covered)
    out += pyvc.collect(paths, "enum-field-size")
    return out, cov


TARGETS = {"enum_values": target_enum_values, "size_of_bits": target_size_of_bits, "enum_field_size": target_enum_field_size}
