"""Slice contract for header_generator._generate_structure_definition (C06, E1): which fields are
emitted by the generated text output, and in which order.

The function as a whole is template plumbing; two of its decisions are exactly the middle sentence of
C06 and are put under contract in place.  The statements of the loop
        for field_index in type_ir.structure.fields_in_dependency_order:
are taken from the real AST and executed once from a symbolic pre-state:
    write_field_clauses gets a clause for the field  <=>  the field has no [text_output] attribute or
                                                          its value is "Emit"        ("Skip" => absent)
    decode_field_clauses gets a clause                <=>  the field is named and writable
and the loop iterates fields_in_dependency_order (anchor), so emission order is dependency order (C15)."""
import ast
import importlib

from vlib import core, pyvc
from vlib.pyvc import SRec

DOTTED = "compiler.back_end.cpp.header_generator._generate_structure_definition"


def find_loop(info):
    loops = [n for n in ast.walk(info.node) if isinstance(n, ast.For) and "fields_in_dependency_order" in ast.unparse(n.iter)]
    if len(loops) != 1:
        raise core.CheckerError("anchor mismatch: expected one loop over fields_in_dependency_order in _generate_structure_definition, found %d" % len(loops))
    return loops[0]


def target_emit_skip():
    hg = importlib.import_module("compiler.back_end.cpp.header_generator")
    ir_util = importlib.import_module("compiler.util.ir_util")
    code_template = importlib.import_module("compiler.back_end.util.code_template")
    info = pyvc.load_function(DOTTED)
    loop = find_loop(info)
    out = []
    cov = 0
    iter_ok = ast.unparse(loop.iter) == "type_ir.structure.fields_in_dependency_order" and isinstance(loop.target, ast.Name)

    for text_output in ("absent", "Emit", "Skip"):
        for read_only in (False, True):
            for virtual in (False, True):
                for anonymous in (False, True):
                    eng = pyvc.Engine()
                    attr = None if text_output == "absent" else SRec("AttributeValue", {"string_constant": SRec("String", {"text": text_output})})
                    eng.contract(ir_util.get_attribute, lambda interp, attrs, name, attr=attr: attr if name == "text_output" else None, "get_attribute")
                    eng.contract(ir_util.field_is_read_only, lambda interp, f, ro=read_only: ro, "field_is_read_only")
                    eng.contract(ir_util.field_is_virtual, lambda interp, f, v=virtual: v, "field_is_virtual")
                    eng.contract(hg._generate_structure_field_methods, lambda interp, *a: ("<helper>", "<decl>", "<def>"), "_generate_structure_field_methods")
                    eng.contract(code_template.format_template, lambda interp, template, **kw: ("clause", kw.get("field_name", kw.get("field"))), "format_template")
                    eng.contract(hg.ExpressionScope, lambda interp, *a: SRec("ExpressionScope", {}), "ExpressionScope")

                    def harness(c, text_output=text_output, read_only=read_only, virtual=virtual, anonymous=anonymous):
                        c.labels.append("text_output=%s,read_only=%s,virtual=%s,anonymous=%s" % (text_output, read_only, virtual, anonymous))
                        field = SRec("Field", {"attribute": [], "name": SRec("NameDefinition", {
                            "is_anonymous": anonymous, "name": SRec("Word", {"text": "ff"}),
                            "canonical_name": SRec("CanonicalName", {"object_path": ["Ss", "ff"]})})})
                        type_ir = SRec("TypeDefinition", {"structure": SRec("Structure", {"field": [field], "fields_in_dependency_order": [0]}),
                                                          "addressable_unit": 8})
                        it = pyvc.Interp(c, info)
                        lists = {n: [] for n in ("field_helper_type_definitions", "field_method_definitions", "equals_method_clauses",
                                                 "unchecked_equals_method_clauses", "field_method_declarations", "decode_field_clauses", "write_field_clauses")}
                        it.env = dict(lists)
                        it.env.update({"type_ir": type_ir, "type_name": "Ss", "ir": SRec("EmbossIr", {}), loop.target.id: 0})
                        c.covered = True
                        try:
                            it.block(loop.body)
                        except pyvc.PyRaise as r:
                            c.oblige("no-raise", False, detail="%s at %s" % (r.exc_type, r.where))
                            return
                        emitted = len(lists["write_field_clauses"]) == 1
                        c.oblige("emitted-iff-no-attribute-or-Emit", emitted == (text_output in ("absent", "Emit")),
                                 detail="write_field_clauses=%r" % (lists["write_field_clauses"],))
                        c.oblige("at-most-one-clause", len(lists["write_field_clauses"]) <= 1)
                        c.oblige("decoded-iff-named-and-writable", (len(lists["decode_field_clauses"]) == 1) == (not anonymous and not read_only))
                        c.oblige("loop-iterates-fields_in_dependency_order", iter_ok)
                    paths = eng.explore(harness)
                    cov += sum(1 for p in paths if p.covered)
                    out += pyvc.collect(paths, "text-output-slice")
    return out, cov


def replay(ob_name, model):
    """Real front end + back end on a module with Emit and Skip fields: is the Emit field in the text writer?"""
    import re
    glue = importlib.import_module("compiler.front_end.glue")
    hg = importlib.import_module("compiler.back_end.cpp.header_generator")
    from contracts.bounds import _Reader
    src = ('[$default byte_order: "LittleEndian"]\nstruct Foo:\n  0 [+1]  UInt  plain\n  1 [+1]  UInt  emitted\n    [text_output: "Emit"]\n'
           '  2 [+1]  UInt  skipped\n    [text_output: "Skip"]\n')
    ir, debug, errors = glue.parse_emboss_file("w.emb", _Reader({"w.emb": src}))
    if errors:
        return {"reproduced": False, "error": "witness rejected"}
    header, errs = hg.generate_header(ir)
    has = {n: ('Write("%s: ")' % n in header or "%s: " % n in header) for n in ("plain", "emitted", "skipped")}
    ok = has["plain"] and has["emitted"] and not has["skipped"]
    return {"reproduced": not ok, "inputs": src, "fields_in_text_writer": has}


TARGETS = {"emit_skip": target_emit_skip}
