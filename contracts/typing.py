"""E1 contract on compiler/front_end/type_check.py (C13): the operator signature table.

_type_check_operation (with _type_check_comparison_operator, _type_check_choice_operator,
_type_check_monomorphic_operator, _types_are_compatible and the _type_check* helpers executed from their bodies) against
the documented signatures (language reference, "Operators and Functions"), for every operator, every arity 0..4 and
every combination of operand kinds integer / boolean / enum A / enum B / opaque, field reference or not:

    no error is reported   <=>   the operands match a documented signature of the operator
    and then the expression is annotated with the documented result type
    (+ - * $max $upper_bound $lower_bound -> integer; comparisons && || $present -> boolean; ?: -> the branches' type)
    nothing escapes as an exception for arities the parser can produce

The IR nodes are pyvc records that hold exactly the fields the contract lets the code read (type.which_type, the enum's
name, which_expression, source_location, the operator's text): a read of anything else is rejected, so the verdict
provably depends on nothing else.  Known finding KF-C13-1 (ordering comparisons of two values of one enum are accepted)
is reported by this contract as well."""
import importlib
import itertools

import z3

from vlib import core, pyvc
from vlib.pyvc import SRec

TC = "compiler.front_end.type_check"
KINDS = ["int", "bool", "enumA", "enumB", "opaque"]

# Two DIFFERENT enums with the same short name (nested in two structures): the identity of an enum is its whole canonical
# name, never its last component (a ghost that gave them different short names would be more forgiving than the real IR).
ENUM_PATHS = {"enumA": ["Aa", "Kind"], "enumB": ["Bb", "Kind"]}


def _enum_ref(kd):
    return SRec("Reference", {"ghost_name": kd, "canonical_name": SRec("CanonicalName", {"module_file": "m.emb", "object_path": list(ENUM_PATHS[kd])})})


def _hashable(interp, r):
    cn = r.f["canonical_name"]
    return (cn.f["module_file"],) + tuple(cn.f["object_path"])
WHICH = {"int": "integer", "bool": "boolean", "enumA": "enumeration", "enumB": "enumeration", "opaque": "opaque"}
ARITH = ("ADDITION", "SUBTRACTION", "MULTIPLICATION")
ORDER = ("LESS", "LESS_OR_EQUAL", "GREATER", "GREATER_OR_EQUAL")
EQ = ("EQUALITY", "INEQUALITY")
LOGIC = ("AND", "OR")


def documented(op, kinds, is_field):
    """(accepted, result kind) per the language reference."""
    n = len(kinds)
    if op in ARITH:
        return n == 2 and all(k == "int" for k in kinds), "int"
    if op in ORDER:
        return n == 2 and all(k == "int" for k in kinds), "bool"
    if op in EQ:
        return n == 2 and kinds[0] == kinds[1] and kinds[0] in ("int", "bool", "enumA", "enumB"), "bool"
    if op in LOGIC:
        return n == 2 and all(k == "bool" for k in kinds), "bool"
    if op == "CHOICE":
        return n == 3 and kinds[0] == "bool" and kinds[1] == kinds[2] and kinds[1] in ("int", "bool", "enumA", "enumB"), (kinds[1] if n == 3 else None)
    if op == "MAXIMUM":
        return n >= 1 and all(k == "int" for k in kinds), "int"
    if op in ("UPPER_BOUND", "LOWER_BOUND"):
        return n == 1 and kinds[0] == "int", "int"
    if op == "PRESENCE":
        return n == 1 and is_field[0], "bool"
    raise ValueError(op)


def target_operation():
    tc = importlib.import_module(TC)
    ir_data = importlib.import_module("compiler.util.ir_data")
    ir_util = importlib.import_module("compiler.util.ir_util")
    idu = importlib.import_module("compiler.util.ir_data_utils")
    error = importlib.import_module("compiler.util.error")
    eng = pyvc.Engine()
    eng.identity(idu.reader)
    eng.identity(idu.builder)
    for f in (error.error, error.note, error.warn):
        eng.contract(f, lambda interp, *a, **k: SRec("ErrorMessage", {}), f.__name__)
    eng.contract(tc._type_check_expression, lambda interp, e, *a: None, "_type_check_expression")        # operands are already typed
    eng.contract(ir_util.hashable_form_of_reference, _hashable, "hashable_form_of_reference")

    def annotate(kind):
        def f(interp, e):
            e.f["type"].f["which_type"] = kind
            e.f["ghost_annotated"] = e.f.get("ghost_annotated", []) + [kind]
            return None
        return f
    eng.contract(tc._annotate_as_integer, annotate("integer"), "_annotate_as_integer")
    eng.contract(tc._annotate_as_boolean, annotate("boolean"), "_annotate_as_boolean")
    FM = ir_data.FunctionMapping
    ops = [m.name for m in FM if m.name != "UNKNOWN"]
    arities = {"CHOICE": (3,), "MAXIMUM": (1, 2, 3), "PRESENCE": (1,), "UPPER_BOUND": (1,), "LOWER_BOUND": (1,)}

    def harness(c):
        op = c.choice("f", ops)
        n = int(c.choice("nargs", [str(i) for i in arities.get(op, (2,))]))
        kinds = [c.choice("a%d" % i, KINDS) for i in range(n)]
        is_field = [(c.choice("a%d:field" % i, ["field", "other"]) == "field") if op == "PRESENCE" else False for i in range(n)]
        args = []
        for i, kd in enumerate(kinds):
            t = {"which_type": WHICH[kd]}
            if kd.startswith("enum"):
                t["enumeration"] = SRec("EnumType", {"name": _enum_ref(kd)})
            args.append(SRec("Expression", {"type": SRec("ExpressionType", t), "which_expression": "field_reference" if is_field[i] else "function",
                                            "source_location": SRec("SourceLocation", {})}))
        res_t = SRec("ExpressionType", {"which_type": None, "enumeration": SRec("EnumType", {"name": SRec("Reference", {})})})
        e = SRec("Expression", {"type": res_t, "which_expression": "function", "source_location": SRec("SourceLocation", {}),
                                "function": SRec("Function", {"function": getattr(FM, op), "args": args, "function_name": SRec("Word", {"text": op})})})
        errors = []
        c.covered = True
        try:
            pyvc.run_body(c, TC + "._type_check_operation", [e, "f.emb", SRec("EmbossIr", {}), errors])
        except pyvc.PathEnd:
            return
        ok, result = documented(op, kinds, is_field)
        c.oblige("accepted-iff-documented", (len(errors) == 0) == ok, detail="%s(%s): %d errors" % (op, ",".join(kinds), len(errors)))
        if ok and not errors:
            if result in ("int", "bool"):
                c.oblige("result-type-as-documented", res_t.f["which_type"] == WHICH[result], detail=repr(res_t.f.get("which_type")))
            else:
                c.oblige("result-type-as-documented", res_t.f["enumeration"].f["name"].f.get("ghost_name") == result, detail=repr(res_t.f["enumeration"].f["name"].f))
    paths = eng.explore(harness)
    return pyvc.collect(paths, "typing"), sum(1 for p in paths if p.covered)


TARGETS = {"_type_check_operation": target_operation}


def target_positional():
    """The positional rules: array size / field start / field size are integers, an existence condition is a boolean, a
    run-time parameter is an integer or an enum, and a passed parameter has the TYPE of the declared one (for enums: the
    same enum, not just "an enum"); the number of passed parameters matches."""
    tc = importlib.import_module(TC)
    ir_util = importlib.import_module("compiler.util.ir_util")
    idu = importlib.import_module("compiler.util.ir_data_utils")
    error = importlib.import_module("compiler.util.error")
    eng = pyvc.Engine()
    eng.identity(idu.reader)
    eng.identity(idu.builder)
    for f in (error.error, error.note, error.warn):
        eng.contract(f, lambda interp, *a, **k: SRec("ErrorMessage", {}), f.__name__)
    eng.contract(ir_util.hashable_form_of_reference, _hashable, "hashable_form_of_reference")
    eng.contract(ir_util.find_object, lambda interp, name, ir: name.f["ghost_object"], "find_object")

    def expr(kd):
        t = {"which_type": WHICH[kd]}
        if kd.startswith("enum"):
            t["enumeration"] = SRec("EnumType", {"name": _enum_ref(kd)})
        return SRec("Expression", {"type": SRec("ExpressionType", t), "source_location": SRec("SourceLocation", {}),
                                   "physical_type_alias": SRec("Type", {"source_location": SRec("SourceLocation", {})})})

    def harness(c):
        rule = c.choice("rule", ["array-size", "field-location", "existence-condition", "parameter-declaration", "enum-value", "passed-parameters"])
        errors = []
        c.covered = True
        if rule == "array-size":
            kd = c.choice("kind", KINDS)
            pyvc.run_body(c, TC + "._type_check_array_size", [expr(kd), "f.emb", errors])
            c.oblige("error-iff-not-an-integer", (len(errors) == 1) == (kd != "int") and len(errors) <= 1)
        elif rule == "field-location":
            ks, kz = c.choice("start", KINDS), c.choice("size", KINDS)
            pyvc.run_body(c, TC + "._type_check_field_location", [SRec("FieldLocation", {"start": expr(ks), "size": expr(kz)}), "f.emb", errors])
            c.oblige("one-error-per-non-integer-part", len(errors) == (ks != "int") + (kz != "int"))
        elif rule == "existence-condition":
            kd = c.choice("kind", KINDS)
            pyvc.run_body(c, TC + "._type_check_field_existence_condition", [SRec("Field", {"existence_condition": expr(kd)}), "f.emb", errors])
            c.oblige("error-iff-not-a-boolean", (len(errors) == 1) == (kd != "bool") and len(errors) <= 1)
        elif rule == "enum-value":
            # an enum "defines a set of named integers"; `TEN = TEN2` (another enum value) is accepted upstream (pinned test); a
            # boolean or a non-scalar is not a number (D22: nothing checked this and the header did not compile)
            kd = c.choice("kind", KINDS)
            if not hasattr(tc, "_type_check_enum_value"):
                c.oblige("enum-values-are-type-checked", False, detail="type_check has no _type_check_enum_value")
                return
            pyvc.run_body(c, TC + "._type_check_enum_value", [SRec("EnumValue", {"value": expr(kd)}), "f.emb", errors])
            c.oblige("error-iff-neither-integer-nor-enum-value", (len(errors) == 1) == (kd not in ("int", "enumA", "enumB")) and len(errors) <= 1)
        elif rule == "parameter-declaration":
            kd = c.choice("kind", KINDS)
            pyvc.run_body(c, TC + "._type_check_parameter", [expr(kd), "f.emb", errors])
            c.oblige("error-iff-not-integer-or-enum", (len(errors) == 1) == (kd not in ("int", "enumA", "enumB")) and len(errors) <= 1)
        else:
            nd = int(c.choice("declared", ["0", "1", "2"]))
            np_ = int(c.choice("passed", ["0", "1", "2"]))
            declared = [c.choice("d%d" % i, KINDS) for i in range(nd)]
            passed = [c.choice("p%d" % i, KINDS) for i in range(np_)]
            ref_type = SRec("TypeDefinition", {"runtime_parameter": [expr(k_) for k_ in declared], "name": SRec("NameDefinition", {"name": SRec("Word", {"text": "Tt"})}),
                                               "source_location": SRec("SourceLocation", {})})
            at = SRec("AtomicType", {"runtime_parameter": [expr(k_) for k_ in passed], "source_location": SRec("SourceLocation", {}),
                                     "reference": SRec("Reference", {"canonical_name": SRec("CanonicalName", {"module_file": "f.emb", "ghost_object": ref_type})})})
            try:
                pyvc.run_body(c, TC + "._type_check_passed_parameters", [at, SRec("EmbossIr", {}), "f.emb", errors])
            except pyvc.PathEnd:
                return
            if nd != np_:
                c.oblige("count-mismatch-is-one-error", len(errors) == 1)
                return
            # an opaque DECLARED parameter is reported at the declaration (_type_check_parameter), not at the use
            want = sum(1 for d_, p_ in zip(declared, passed) if d_ != "opaque" and d_ != p_)
            c.oblige("one-error-per-parameter-of-the-wrong-type", len(errors) == want, detail="declared %s passed %s: %d errors" % (declared, passed, len(errors)))
    paths = eng.explore(harness)
    return pyvc.collect(paths, "positional"), sum(1 for p in paths if p.covered)


TARGETS["positional"] = target_positional


def target_dispatch_and_physical_types():
    """_type_check_expression: an expression that already has a type is left alone; otherwise exactly the checker of its
    variety is called, once, with the expression (constant / constant_reference / function / field_reference /
    boolean_constant / builtin_reference).
    unbounded_expression_type_for_physical_type: [is_integer] types -> integer; the prelude's Flag -> boolean; an enum
    definition -> enumeration NAMED BY THAT DEFINITION's canonical name (so two enums never share an expression type);
    anything else -> opaque.  _annotate_parameter_type: array-typed parameter -> one error and no type; otherwise the type
    of the referenced definition."""
    tc = importlib.import_module(TC)
    ir_data = importlib.import_module("compiler.util.ir_data")
    ir_util = importlib.import_module("compiler.util.ir_util")
    ir_data_utils = importlib.import_module("compiler.util.ir_data_utils")
    attributes = importlib.import_module("compiler.front_end.attributes")
    error = importlib.import_module("compiler.util.error")
    eng = pyvc.Engine()
    eng.identity(ir_data_utils.reader)
    eng.identity(ir_data_utils.builder)
    calls = []
    for nm in ("_type_check_integer_constant", "_type_check_constant_reference", "_type_check_operation", "_type_check_local_reference", "_type_check_boolean_constant", "_type_check_builtin_reference"):
        eng.contract(getattr(tc, nm), (lambda n: lambda interp, e, *a: calls.append((n, e)))(nm), nm)
    eng.contract(error.error, lambda interp, f, loc, msg: ("ERROR", loc, msg), "error.error")
    eng.contract(ir_data.ExpressionType, lambda interp, **kw: SRec("ExpressionType", dict(kw, which_type=list(kw)[0] if kw else None)), "ExpressionType")
    eng.contract(ir_data.IntegerType, lambda interp, **kw: ("IntegerType",), "IntegerType")
    eng.contract(ir_data.BooleanType, lambda interp, **kw: ("BooleanType",), "BooleanType")
    eng.contract(ir_data.OpaqueType, lambda interp, **kw: ("OpaqueType",), "OpaqueType")
    eng.contract(ir_data.EnumType, lambda interp, name=None: ("EnumType", name), "EnumType")
    eng.contract(ir_data.Reference, lambda interp, canonical_name=None: ("Reference", canonical_name), "Reference")
    VARIETY = {"constant": "_type_check_integer_constant", "constant_reference": "_type_check_constant_reference", "function": "_type_check_operation",
               "field_reference": "_type_check_local_reference", "boolean_constant": "_type_check_boolean_constant", "builtin_reference": "_type_check_builtin_reference"}

    def harness(c):
        what = c.choice("function", ["dispatch", "physical-type", "parameter"])
        c.covered = True
        if what == "dispatch":
            del calls[:]
            variety = c.choice("variety", sorted(VARIETY))
            typed = c.choice("already-typed", ["no", "yes"]) == "yes"
            e = SRec("Expression", {"which_expression": variety, "type": SRec("ExpressionType", {"which_type": "integer" if typed else None})})
            pyvc.run_body(c, TC + "._type_check_expression", [e, "m.emb", "IR", []])
            c.oblige("dispatch:typed-expressions-are-left-alone-others-get-exactly-their-variety's-checker",
                     calls == ([] if typed else [(VARIETY[variety], e)]) or (not typed and len(calls) == 1 and calls[0][0] == VARIETY[variety] and calls[0][1] is e), detail=repr([x[0] for x in calls]))
            return
        kind = c.choice("definition", ["is_integer", "Flag", "enum", "enum-named-Flag-in-a-struct", "struct"])
        cn = SRec("CanonicalName", {"object_path": {"Flag": ["Flag"], "enum-named-Flag-in-a-struct": ["Outer", "Flag"]}.get(kind, ["Ee"])})
        eng.contract(ir_util.get_boolean_attribute, lambda interp, attrs, name, default_value=None: (kind == "is_integer") if name == attributes.IS_INTEGER else None, "get_boolean_attribute")
        td = SRec("TypeDefinition", {"attribute": [], "name": SRec("NameDefinition", {"canonical_name": cn})}, defaults={"has:enumeration": kind.startswith("enum")})
        want = {"is_integer": "integer", "Flag": "boolean", "enum": "enumeration", "enum-named-Flag-in-a-struct": "enumeration", "struct": "opaque"}[kind]
        if what == "physical-type":
            st, got = pyvc.run_body(c, TC + ".unbounded_expression_type_for_physical_type", [td])
            ok = isinstance(got, SRec) and got.f.get("which_type") == want
            c.oblige("physical-type:expression-type-kind", ok, detail=repr(got.f if isinstance(got, SRec) else got)[:200])
            if ok and want == "enumeration":
                en = got.f["enumeration"]
                c.oblige("physical-type:enum-type-is-named-by-the-definition-itself", en[0] == "EnumType" and en[1][0] == "Reference" and en[1][1] is cn, detail=repr(en)[:200])
            return
        arr = c.choice("parameter-type", ["atomic", "array"]) == "array"
        eng.contract(ir_util.find_object, lambda interp, ref, ir: td, "find_object")
        alias = SRec("Type", {"which_type": "array_type" if arr else "atomic_type", "source_location": ("LOC", "ptype"), "atomic_type": SRec("AtomicType", {"reference": SRec("Reference", {})})})
        param = SRec("RuntimeParameter", {"physical_type_alias": alias}, defaults={"type": lambda rec: SRec("ExpressionType", {})})
        errors = []
        pyvc.run_body(c, TC + "._annotate_parameter_type", [param, "IR", "m.emb", errors])
        if arr:
            c.oblige("parameter:array-type-gives-one-error-and-no-type", len(errors) == 1 and errors[0][0][1] == ("LOC", "ptype") and "Parameters cannot be arrays" in errors[0][0][2] and "type" not in param.f, detail=repr(errors)[:200])
        else:
            c.oblige("parameter:gets-the-type-of-the-referenced-definition", errors == [] and "type" in param.f and param.f["type"].f.get("which_type") == want, detail=repr(param.f.get("type"))[:200])
    paths = eng.explore(harness)
    return pyvc.collect(paths, "type_check.dispatch+physical-types"), sum(1 for p in paths if p.covered)


TARGETS["dispatch_and_physical_types"] = target_dispatch_and_physical_types


def target_reference_types():
    """_type_check_local_reference and _type_check_constant_reference (the types of names):

       local reference   designates the object of the LAST path element:  runtime parameter -> the expression type of the
                         parameter's physical type;  virtual field -> its definition is type-checked first, then its type
                         is copied;  physical array field -> opaque;  other physical field -> the expression type of its
                         physical type
       constant reference  enum value -> enumeration named by the reference WITHOUT its last path element (the enum, not
                         the value);  virtual field -> checked first, type copied;  physical field -> one error (with a
                         note naming the field) and no type"""
    tc = importlib.import_module(TC)
    ir_data = importlib.import_module("compiler.util.ir_data")
    ir_util = importlib.import_module("compiler.util.ir_util")
    ir_data_utils = importlib.import_module("compiler.util.ir_data_utils")
    error = importlib.import_module("compiler.util.error")
    eng = pyvc.Engine()
    eng.identity(ir_data_utils.builder)
    eng.contract(error.error, lambda interp, f, loc, msg: ("ERROR", f, loc, msg), "error.error")
    eng.contract(error.note, lambda interp, f, loc, msg: ("NOTE", f, loc, msg), "error.note")
    eng.contract(ir_data.OpaqueType, lambda interp: SRec("OpaqueType", {}), "OpaqueType")
    eng.contract(ir_util.field_is_virtual, lambda interp, f: f.f["ghost_virtual"], "field_is_virtual")
    eng.contract(ir_util.find_object, lambda interp, ref, ir: ref.f["ghost_object"], "find_object")
    checked, phys = [], []

    def ih(interp, e, src, ir, errors):
        checked.append((e, src))
        e.f["type"] = SRec("ExpressionType", {"which_type": "integer", "ghost": "type-of-definition"})
    eng.contract(tc._type_check_expression, ih, "_type_check_expression (definitions: induction hypothesis)")

    def set_from_physical(interp, e, ref, ir):
        phys.append((e, ref))
        e.f["type"] = SRec("ExpressionType", {"which_type": "from-physical", "ghost": ref})
    eng.contract(tc._set_expression_type_from_physical_type_reference, set_from_physical, "_set_expression_type_from_physical_type_reference")

    def fresh_expr(extra):
        d = {"source_location": ("LOC", "expr")}
        d.update(extra)
        return SRec("Expression", d, defaults={"type": lambda rec: SRec("ExpressionType", {}, defaults={
            "enumeration": lambda r2: SRec("EnumType", {}, defaults={"name": lambda r3: SRec("Reference", {})}),
            "opaque": lambda r2: SRec("OpaqueType", {})})})

    def harness(c):
        del checked[:], phys[:]
        which = c.choice("function", ["local", "constant"])
        c.covered = True
        errors = []
        tref = SRec("Reference", {"ghost": "physical-type"})
        if which == "local":
            kind = c.choice("referrent", ["parameter", "virtual", "array", "atomic"])
            plen = int(c.choice("path-length", ["1", "2"]))
            if kind == "parameter":
                obj = SRec("RuntimeParameter", {"physical_type_alias": SRec("Type", {"atomic_type": SRec("AtomicType", {"reference": tref})})})
            elif kind == "virtual":
                obj = SRec("Field", {"ghost_virtual": True, "read_transform": SRec("Expression", {})})
            elif kind == "array":
                obj = SRec("Field", {"ghost_virtual": False, "type": SRec("Type", {}, defaults={"has:atomic_type": False})})
            else:
                obj = SRec("Field", {"ghost_virtual": False, "type": SRec("Type", {"atomic_type": SRec("AtomicType", {"reference": tref})}, defaults={"has:atomic_type": True})})
            decoy = SRec("Field", {"ghost_virtual": False, "type": SRec("Type", {"atomic_type": SRec("AtomicType", {"reference": SRec("Reference", {"ghost": "decoy"})})}, defaults={"has:atomic_type": True})})
            # the head of a.b lives in the referring module, the member b (and its definition) possibly in another one
            path = ([SRec("Reference", {"ghost_object": decoy, "canonical_name": SRec("CanonicalName", {"module_file": "m.emb", "object_path": ["Foo", "a"]})})] if plen == 2 else []) + \
                [SRec("Reference", {"ghost_object": obj, "canonical_name": SRec("CanonicalName", {"module_file": "def.emb", "object_path": ["Bar", "b"]})})]
            e = fresh_expr({"field_reference": SRec("FieldReference", {"path": path})})
            pyvc.run_body(c, TC + "._type_check_local_reference", [e, "IR", errors])
            t = e.f.get("type")
            c.oblige("local:no-error-is-reported-here", errors == [])
            if kind in ("parameter", "atomic"):
                c.oblige("local:type-of-the-physical-type-of-the-LAST-path-element", len(phys) == 1 and phys[0][0] is e and phys[0][1] is tref and not checked, detail=repr(phys)[:200])
            elif kind == "virtual":
                c.oblige("local:virtual-field's-definition-is-checked-then-its-type-copied", len(checked) == 1 and checked[0][0] is obj.f["read_transform"] and t is not None and t.f.get("ghost") == "type-of-definition" and not phys,
                         detail=repr(t.f if t is not None else None)[:200])
                c.oblige("local:virtual-field's-definition-is-checked-as-part-of-the-file-that-defines-it", len(checked) == 1 and checked[0][1] == "def.emb",
                         detail="source_file_name passed for the definition: %r" % (checked[0][1] if checked else None,))
            else:
                c.oblige("local:array-field-is-opaque", t is not None and "opaque" in t.f and not phys and not checked, detail=repr(t.f if t is not None else None)[:200])
            return
        kind = c.choice("referred-object", ["enum-value", "virtual-field", "physical-field"])
        cn = SRec("CanonicalName", {"module_file": "m.emb", "object_path": ["Ee", "VALUE"] if kind == "enum-value" else ["Foo", "ff"]})
        if kind == "enum-value":
            obj = SRec("EnumValue", {})
        else:
            obj = SRec("Field", {"ghost_virtual": kind == "virtual-field", "read_transform": SRec("Expression", {}), "source_location": ("LOC", "field")})
        cn.f["ghost_object"] = obj
        cref = SRec("Reference", {"canonical_name": cn})
        e = fresh_expr({"constant_reference": cref})
        pyvc.run_body(c, TC + "._type_check_constant_reference", [e, "m.emb", "IR", errors])
        t = e.f.get("type")
        if kind == "enum-value":
            ok = errors == [] and t is not None and "enumeration" in t.f and t.f["enumeration"].f["name"].f["canonical_name"].f["object_path"] == ["Ee"] and cn.f["object_path"] == ["Ee", "VALUE"]
            c.oblige("constant:enum-value-has-the-type-of-its-enum-and-the-reference-itself-is-not-shortened", ok, detail=repr(t.f if t is not None else None)[:200])
        elif kind == "virtual-field":
            c.oblige("constant:virtual-field's-definition-is-checked-then-its-type-copied", errors == [] and len(checked) == 1 and checked[0][0] is obj.f["read_transform"] and checked[0][1] == "m.emb"
                     and t is not None and t.f.get("ghost") == "type-of-definition", detail=repr(t.f if t is not None else None)[:200])
        else:
            ok = len(errors) == 1 and len(errors[0]) == 2 and errors[0][0][0] == "ERROR" and errors[0][0][2] == ("LOC", "expr") and "physical fields are not allowed" in errors[0][0][3] \
                and errors[0][1][0] == "NOTE" and errors[0][1][2] == ("LOC", "field") and t is None and not checked
            c.oblige("constant:physical-field-gives-one-error-with-a-note-and-no-type", ok, detail=repr(errors)[:300])
    paths = eng.explore(harness)
    return pyvc.collect(paths, "type_check.reference-types"), sum(1 for p in paths if p.covered)


TARGETS["reference_types"] = target_reference_types
