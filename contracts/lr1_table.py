"""E1 slice contract on compiler/front_end/lr1.Grammar.parser (C08): the body of its `for item in item_sets[i]` loop - the step
that turns one LR(1) item into ACTION-table entries and detects conflicts - executed symbolically from any table row state:

   the item is a completed item of a non-seed production (-> Reduce), an item whose next symbol is a terminal (-> Shift to
   goto[i][terminal]), an item whose next symbol is a nonterminal (-> nothing), and/or the end item (-> Accept on $);
   the row action[i] may or may not already hold an entry for the terminal concerned / for $, and that entry is any Reduce,
   Shift or Accept (symbolic production / target state).

Step obligations:
   entry       afterwards action[i][terminal] is the action this item demands (Reduce(production) / Shift(goto target));
               for the end item action[i][$] is Accept(); an item that demands nothing leaves the row untouched
   conflict    a Conflict(i, terminal, {old, new}) is added iff an entry was already present and differs from the demanded
               action; conflicts are only ever added
   frame       no other key of the row is written
These make "conflicts == {} implies all items of a state demanding an action for a terminal demand the same one, and the
table holds it" an inductive invariant of the loop (paper step: induction over the items of the state) - i.e. an ambiguous
or non-LR(1) grammar is never silently accepted as conflict-free.  The statements after the loops are checked not to write
`action` or `conflicts` (syntactic frame obligation)."""
import ast
import importlib

import z3

from vlib import core, pyvc
from vlib.pyvc import GDict, GObj, SBool, SInt, SRec

DOTTED = "compiler.front_end.lr1.Grammar.parser"


def _slices():
    info = pyvc.load_function(DOTTED)
    outer = [n for n in info.node.body if isinstance(n, ast.For) and "range(len(item_sets))" in ast.unparse(n.iter)]
    if len(outer) != 1:
        raise core.CheckerError("anchor mismatch: expected one `for i in range(len(item_sets))` loop in Grammar.parser")
    inner = [n for n in outer[0].body if isinstance(n, ast.For) and "item_sets[i]" in ast.unparse(n.iter)]
    if len(inner) != 1 or len(outer[0].body) != 1:
        raise core.CheckerError("anchor mismatch: expected the state loop of Grammar.parser to consist of one `for item in item_sets[i]` loop")
    k = info.node.body.index(outer[0])
    # names of the locals, read off the code
    names = {"i": outer[0].target.id if isinstance(outer[0].target, ast.Name) else None, "item": inner[0].target.id if isinstance(inner[0].target, ast.Name) else None}
    m = __import__("re").match(r"(\w+)\[(\w+)\]$", ast.unparse(inner[0].iter))
    if m:
        names["item_sets"] = m.group(1)
    for n in info.node.body[:k]:
        if isinstance(n, ast.Assign) and len(n.targets) == 1:
            t, src = n.targets[0], ast.unparse(n.value)
            if isinstance(t, ast.Tuple) and len(t.elts) == 2 and src == "self._items()":
                names["item_sets_decl"], names["goto"] = t.elts[0].id, t.elts[1].id
            elif isinstance(t, ast.Name) and src == "collections.defaultdict(dict)":
                names["action"] = t.id
            elif isinstance(t, ast.Name) and src == "set()":
                names["conflicts"] = t.id
            elif isinstance(t, ast.Name) and src.startswith("self._item_cache["):
                names["end_item"] = t.id
    missing = [x for x in ("i", "item", "item_sets", "goto", "action", "conflicts", "end_item") if not names.get(x)]
    if missing or names.get("item_sets_decl") != names.get("item_sets"):
        raise core.CheckerError("anchor mismatch: Grammar.parser: cannot identify %s" % (missing or ["item_sets"]))
    info.names = names
    return info, inner[0], info.node.body[:k], info.node.body[k + 1:]


def target_action_step():
    lr1 = importlib.import_module("compiler.front_end.lr1")
    info, inner, before, after = _slices()
    eng = pyvc.Engine()
    eng.contract(lr1.Reduce, lambda interp, rule: ("Reduce", rule), "Reduce")
    eng.contract(lr1.Shift, lambda interp, state, items: ("Shift", state, items), "Shift")
    eng.contract(lr1.Accept, lambda interp: ("Accept",), "Accept")
    eng.contract(lr1.Conflict, lambda interp, state, symbol, actions: ("Conflict", state, symbol, actions), "Conflict")
    eng.contract(frozenset, lambda interp, xs: ("frozenset", list(xs)), "frozenset")
    END = lr1.END_OF_INPUT

    def harness(c):
        kind = c.choice("item", ["completed", "completed-seed", "before-terminal", "before-nonterminal"])
        is_end = c.choice("is-end-item", ["no", "yes"]) == "yes"
        if is_end and kind != "completed-seed":
            # the end item is [S' -> S ., $]: a completed item of the seed production
            c.covered = True
            return
        old_kind = c.choice("existing-entry", ["none", "Reduce", "Shift", "Accept"])
        old_end_kind = c.choice("existing-entry-for-$", ["none", "Reduce", "Accept"]) if is_end else "none"
        seed = GObj("seed-production")
        prod = seed if kind == "completed-seed" else GObj("production")
        lookahead = "t"
        item = SRec("Item", {"production": prod, "dot": 1, "terminal": lookahead, "next_symbol": {"completed": None, "completed-seed": None, "before-terminal": "t", "before-nonterminal": "N"}[kind]})
        old_prod, old_state = GObj("other-production"), z3.Int("old_shift_target")
        same_prod = z3.Bool("existing_reduce_is_by_the_same_production")

        def mk_old(k, tag):
            if k == "Reduce":
                return ("Reduce", SRec("P", {}) if False else ("PROD", tag))
            if k == "Shift":
                return ("Shift", SInt(old_state), "IS-old")
            return ("Accept",)
        # production equality is made symbolic through an integer id
        pid, old_pid = z3.Int("production_id"), z3.Int("existing_production_id")
        eng.contract(lr1.Reduce, lambda interp, rule: ("Reduce", SInt(pid) if rule is prod else SInt(z3.Int("seed_production_id"))), "Reduce")
        old = {"none": None, "Reduce": ("Reduce", SInt(old_pid)), "Shift": ("Shift", SInt(old_state), "IS-target"), "Accept": ("Accept",)}[old_kind]
        old_end = {"none": None, "Reduce": ("Reduce", SInt(z3.Int("existing_end_production_id"))), "Accept": ("Accept",)}[old_end_kind]
        present, entries = {"t": old is not None, END: old_end is not None, "u": True}, {"t": old, END: old_end, "u": ("Shift", 7, "IS7")}
        row = GDict(present, entries, label="action[i]")
        conflicts = pyvc.PSet()
        goto = {0: {"t": 1, "N": 2}}
        g = GObj("grammar", attrs={"terminals": pyvc.PSet(["t", "u"]), "nonterminals": pyvc.PSet(["N"]), "_seed_production": seed})
        it = pyvc.Interp(c, info)
        nm = info.names
        it.env = {"self": g, nm["item"]: item, nm["i"]: 0, nm["action"]: {0: row}, nm["conflicts"]: conflicts, nm["goto"]: goto, nm["item_sets"]: ["IS0", "IS-target", "IS2"],
                  nm["end_item"]: item if is_end else GObj("end-item")}
        c.covered = True
        it.block(inner.body)
        # demanded action
        if kind == "completed":
            want = ("Reduce", SInt(pid))
        elif kind == "before-terminal":
            want = ("Shift", 1, "IS-target")
        else:
            want = None

        def eq(a, b):
            r = it.equal(a, b)
            return r.t if isinstance(r, SBool) else z3.BoolVal(bool(r))
        confl = list(conflicts)
        exp_conf = []
        if want is not None:
            c.oblige("entry:row-holds-the-demanded-action", row.present["t"] is True and eq(row.entries["t"], want), detail=repr(row.entries.get("t")))
            if old is not None:
                exp_conf.append(("t", old, want))
        else:
            c.oblige("entry:an-item-that-demands-nothing-leaves-the-entry-alone", row.present["t"] is present["t"] and row.entries["t"] is entries["t"])
        if is_end:
            c.oblige("entry:end-item-sets-Accept-on-end-of-input", row.present[END] is True and row.entries[END] == ("Accept",), detail=repr(row.entries.get(END)))
            if old_end is not None:
                exp_conf.append((END, old_end, ("Accept",)))
        else:
            c.oblige("frame:end-of-input-entry-untouched", row.present[END] is present[END] and row.entries[END] is entries[END])
        c.oblige("frame:other-keys-untouched", row.present["u"] is True and row.entries["u"] is entries["u"] and set(row.present) == {"t", END, "u"})
        # conflicts: exactly those expected whose old entry differs from the new one
        differs = [z3.Not(eq(o, n)) for (_, o, n) in exp_conf]
        # on this path the code has decided each comparison; the recorded conflicts must match
        rec = {}
        for cf in confl:
            ok = isinstance(cf, tuple) and cf[0] == "Conflict" and cf[1] == 0 and cf[2] in ("t", END) and isinstance(cf[3], tuple) and cf[3][0] == "frozenset" and len(cf[3][1]) == 2
            c.oblige("conflict:shape(state,terminal,{old,new})", ok, detail=repr(cf)[:200])
            if ok:
                rec[cf[2]] = cf[3][1]
        for (sym, o, n), d in zip(exp_conf, differs):
            if sym in rec:
                c.oblige("conflict:recorded-only-when-the-entries-differ", d)
                c.oblige("conflict:names-the-old-and-the-new-action", z3.And(eq(rec[sym][0], o), eq(rec[sym][1], n)), detail=repr(rec[sym])[:200])
            else:
                c.oblige("conflict:recorded-whenever-the-entries-differ", z3.Not(d))
        c.oblige("conflict:none-without-a-previous-entry", set(rec) <= {s for (s, _, _) in exp_conf}, detail=repr(confl)[:200])
    paths = eng.explore(harness)
    return pyvc.collect(paths, "Grammar.parser.action-step"), sum(1 for p in paths if p.covered)


def frame_obligations():
    """The statements of Grammar.parser after the table loops write neither `action` nor `conflicts` (syntactic)."""
    import time
    t0 = time.time()
    info, inner, before, after = _slices()
    bad = []
    for st in after:
        for n in ast.walk(st):
            tgt = []
            if isinstance(n, (ast.Assign, ast.AugAssign, ast.AnnAssign, ast.Delete)):
                tgt = n.targets if isinstance(n, (ast.Assign, ast.Delete)) else [n.target]
            for t in tgt:
                base = t
                while isinstance(base, (ast.Subscript, ast.Attribute)):
                    base = base.value
                if isinstance(base, ast.Name) and base.id in (info.names["action"], info.names["conflicts"]):
                    bad.append("line %d: %s" % (n.lineno, ast.unparse(n)[:80]))
            if isinstance(n, ast.Call) and isinstance(n.func, ast.Attribute) and isinstance(n.func.value, ast.Name) and n.func.value.id in (info.names["action"], info.names["conflicts"]) \
                    and n.func.attr in ("clear", "pop", "update", "discard", "remove", "add", "setdefault", "popitem", "difference_update", "intersection_update"):
                bad.append("line %d: %s" % (n.lineno, ast.unparse(n)[:80]))
    return [core.Obligation("frame.Grammar.parser.statements-after-the-table-loops-write-neither-action-nor-conflicts", core.PROVED if not bad else core.REFUTED, "ast-write-set", time.time() - t0, kind="proof",
                            detail="%d statements" % len(after) if not bad else "; ".join(bad[:4]), model={"writes": bad[:6]} if bad else None)]


TARGETS = {"action_step": target_action_step}


def target_mark_error():
    """lr1.Parser.mark_error (C09: the error message attached to an erroneous token sequence): given the outcome of parsing
    the example (contract of Parser.parse: success, or an error at some token in some state),

       example parses                         -> a message, nothing recorded
       error at another token than stated     -> a message, nothing recorded
       error at the stated token (or at end of input for error_token None):
           ANY_TOKEN      -> default_errors[state] = code     unless a DIFFERENT code is already there (message, unchanged)
           otherwise      -> action[state][symbol] = Error(code)   unless a DIFFERENT code is there (message, unchanged)
       recording the same code twice is accepted; no other state / terminal is written."""
    lr1 = importlib.import_module("compiler.front_end.lr1")
    eng = pyvc.Engine()
    eng.contract(lr1.Error, lambda interp, code: ("Error", code), "Error")

    def harness(c):
        outcome = c.choice("example", ["parses", "fails-at-stated-token", "fails-at-other-token", "fails-at-end-of-input"])
        stated = c.choice("stated-error-token", ["a-token", "ANY_TOKEN", "None(end-of-input)"])
        existing = c.choice("existing-entry", ["none", "same-code", "different-code"])
        tok = GObj("stated-token", attrs={"symbol": "t"})
        other = GObj("other-token", attrs={"symbol": "u"})
        end_tok = GObj("end-token", attrs={"symbol": lr1.END_OF_INPUT})
        error_token = {"a-token": tok, "ANY_TOKEN": lr1.ANY_TOKEN, "None(end-of-input)": None}[stated]
        if outcome == "parses":
            result = SRec("ParseResult", {"parse_tree": "TREE", "error": None})
        else:
            at = {"fails-at-stated-token": error_token if error_token is not None else tok, "fails-at-other-token": other, "fails-at-end-of-input": end_tok}[outcome]
            result = SRec("ParseResult", {"parse_tree": None, "error": SRec("ParseError", {"code": None, "index": 3, "token": at, "state": 7, "expected_tokens": None})})
        symbol = lr1.END_OF_INPUT if error_token is None else ("t" if stated == "a-token" else lr1.ANY_TOKEN.symbol)
        old = {"none": None, "same-code": "CODE", "different-code": "OTHER"}[existing]
        present = old is not None
        row = GDict({symbol: present, "w": True}, {symbol: lr1.Error(old) if present else None, "w": lr1.Error("W")}, label="action[7]")
        defaults = GDict({7: present, 8: True}, {7: old, 8: "D8"}, label="default_errors")
        action = {7: row, 8: GDict({"w": True}, {"w": "X"}, label="action[8]")}
        me = GObj("parser", methods={"parse": lambda interp, obj, tokens: result}, attrs={"default_errors": defaults, "action": action})
        c.covered = True
        st, msg = pyvc.run_body(c, "compiler.front_end.lr1.Parser.mark_error", [me, ["TOKENS"], error_token, "CODE"])
        matches = (outcome == "fails-at-stated-token" and error_token is not None) or (outcome == "fails-at-end-of-input" and error_token is None)
        untouched_row = row.entries[symbol] is (None if not present else row.entries[symbol]) and row.present[symbol] is present
        row_same = (row.present[symbol] is present) and (not present or (isinstance(row.entries[symbol], lr1.Error) and row.entries[symbol].code == old))
        def_same = defaults.present[7] is present and defaults.entries[7] == old
        frame = row.entries["w"] == lr1.Error("W") and defaults.entries[8] == "D8" and action[8].entries["w"] == "X" and set(row.entries) == {symbol, "w"} and set(defaults.entries) == {7, 8}
        c.oblige("frame:no-other-state-or-terminal-written", frame)
        if not matches:
            c.oblige("unexpected-outcome:message-and-nothing-recorded", isinstance(msg, str) and msg != "" and row_same and def_same, detail=repr(msg))
            return
        if stated == "ANY_TOKEN":
            if existing == "different-code":
                c.oblige("default:different-code-is-not-overwritten", isinstance(msg, str) and def_same and row_same, detail=repr(msg))
            else:
                c.oblige("default:code-recorded-for-the-error-state", msg is None and defaults.present[7] is True and defaults.entries[7] == "CODE" and row_same, detail=repr(msg))
        else:
            if existing == "different-code":
                c.oblige("terminal:different-code-is-not-overwritten", isinstance(msg, str) and row_same and def_same, detail=repr(msg))
            else:
                e = row.entries[symbol]
                ok = msg is None and row.present[symbol] is True and ((e == ("Error", "CODE")) or (isinstance(e, lr1.Error) and e.code == "CODE")) and def_same
                c.oblige("terminal:Error(code)-recorded-for-(state,terminal)", ok, detail="%r %r" % (msg, e))
    paths = eng.explore(harness)
    return pyvc.collect(paths, "Parser.mark_error"), sum(1 for p in paths if p.covered)


TARGETS["mark_error"] = target_mark_error


def target_parse_step():
    """lr1.Parser.parse (C08: "the parse tree is a derivation ... leaves equal to the input in order"; "the error is raised at
    the first token ..." given the tables): one iteration of its `while True` loop from a generic configuration - a stack
    of 1..4 (state, tree) pairs over opaque trees, a cursor into opaque tokens, and the table entry for (state, next symbol)
    being absent / Shift / Reduce of a rule with 0, 1 or 2 right-hand-side symbols / Accept / Error:

       Shift s      push (s, the current token); cursor + 1; nothing else
       Reduce A->w  pop |w| entries, push (goto[state below][A], Reduction(A, the popped trees IN ORDER, the rule, merged location));
                    cursor unchanged - so every tree node is an instance of a production over its children, and the leaves
                    stay in input order (induction over steps: paper)
       Accept       returns ParseResult(the tree on top, no error)
       Error / no entry   returns ParseResult(None, ParseError(code - the state's default for a missing entry, else None -,
                    cursor, current token, state, the terminals of the state's row that are not errors))"""
    lr1 = importlib.import_module("compiler.front_end.lr1")
    pt = importlib.import_module("compiler.util.parser_types")
    info = pyvc.load_function("compiler.front_end.lr1.Parser.parse")
    loops = [n for n in info.node.body if isinstance(n, ast.While) and ast.unparse(n.test) == "True"]
    defs = [n for n in info.node.body if isinstance(n, ast.FunctionDef)]
    if len(loops) != 1 or len(defs) != 1:
        raise core.CheckerError("anchor mismatch: Parser.parse: expected one `while True` loop and one nested helper")
    k = info.node.body.index(loops[0])
    names = {}
    for n in info.node.body[:k]:
        if isinstance(n, ast.Assign) and len(n.targets) == 1 and isinstance(n.targets[0], ast.Name):
            src = ast.unparse(n.value)
            if src == "[(0, None)]":
                names["stack"] = n.targets[0].id
            elif src == "0":
                names["cursor"] = n.targets[0].id
            elif src.startswith("list(tokens)"):
                names["tokens"] = n.targets[0].id
    if sorted(names) != ["cursor", "stack", "tokens"]:
        raise core.CheckerError("anchor mismatch: Parser.parse: cannot identify the stack / cursor / token list")
    eng = pyvc.Engine()
    eng.contract(pt.merge_source_locations, lambda interp, *trees: ("MERGED", trees), "merge_source_locations")
    eng.contract(lr1.Reduction, lambda interp, symbol, children, production, source_location: ("Reduction", symbol, children, production, source_location), "Reduction")
    eng.contract(lr1.ParseResult, lambda interp, tree, err: ("ParseResult", tree, err), "ParseResult")
    eng.contract(lr1.ParseError, lambda interp, code, index, token, state, expected: ("ParseError", code, index, token, state, expected), "ParseError")
    eng.contract(lr1.Error, lambda interp, code: lr1.Error(code), "Error")

    def harness(c):
        depth = int(c.choice("stack-depth", ["1", "2", "3", "4"]))
        entry = c.choice("table-entry", ["none", "none-with-default-error", "Shift", "Accept", "Reduce-0", "Reduce-1", "Reduce-2", "Error"])
        cur = int(c.choice("cursor", ["0", "1"]))
        rlen = int(entry[-1]) if entry.startswith("Reduce") else 0
        if rlen > depth - 1 or (entry == "Accept" and depth != 2):
            c.covered = True          # configurations the tables cannot produce (the rhs is on the stack; Accept only over [S])
            return
        toks = [GObj("token%d" % i, attrs={"symbol": "t%d" % i}) for i in range(3)]
        if entry == "Accept":
            toks[cur] = GObj("end", attrs={"symbol": lr1.END_OF_INPUT})
        sym = toks[cur].attrs["symbol"]
        trees = [None] + [GObj("tree%d" % i) for i in range(1, depth)]
        states = [0] + [10 + i for i in range(1, depth)]
        stack0 = list(zip(states, trees))
        stack = list(stack0)
        rule = pt.Production("L", tuple("x%d" % i for i in range(rlen)))
        acts = {"Shift": lr1.Shift(77, "items"), "Accept": lr1.Accept(), "Error": lr1.Error("explicit")}
        act = acts[entry] if entry in acts else (lr1.Reduce(rule) if entry.startswith("Reduce") else None)
        top = states[-1]
        row = {"other": lr1.Shift(9, None), "bad": lr1.Error("x"), "red": lr1.Reduce(rule)}
        if act is not None:
            row[sym] = act
        below = states[depth - 1 - rlen]
        me = GObj("parser", attrs={"action": {top: row}, "default_errors": ({top: "default-code"} if entry == "none-with-default-error" else {}),
                                   "goto": {below: {"L": 55}}})
        it = pyvc.Interp(c, info)
        it.env = {"self": me, names["tokens"]: toks, names["stack"]: stack, names["cursor"]: cur}
        it.stmt(defs[0])
        c.covered = True
        returned = "no"
        try:
            it.block(loops[0].body)
        except pyvc._Return as r:
            returned = r.value
        cur1 = it.env[names["cursor"]]
        if entry == "Shift":
            c.oblige("shift:pushes-the-new-state-with-the-current-token-and-advances", returned == "no" and stack == stack0 + [(77, toks[cur])] and cur1 == cur + 1, detail=repr(stack)[:200])
        elif entry.startswith("Reduce"):
            kids = [t for (_, t) in stack0[depth - rlen:]] if rlen else []
            ok = returned == "no" and cur1 == cur and len(stack) == depth - rlen + 1 and stack[:-1] == stack0[:depth - rlen] and stack[-1][0] == 55
            node = stack[-1][1] if ok else None
            ok = ok and isinstance(node, tuple) and node[0] == "Reduction" and node[1] == "L" and list(node[2]) == kids and all(a is b for a, b in zip(node[2], kids)) and node[3] is rule
            c.oblige("reduce:pops-the-rhs-pushes-goto-and-a-node-over-the-popped-trees-in-order", ok, detail=repr(stack)[:300])
        elif entry == "Accept":
            c.oblige("accept:returns-the-tree-on-top-and-no-error", returned == ("ParseResult", trees[-1], None) and returned[1] is trees[-1], detail=repr(returned)[:200])
        else:
            code = {"none": None, "none-with-default-error": "default-code", "Error": "explicit"}[entry]
            ok = isinstance(returned, tuple) and returned[0] == "ParseResult" and returned[1] is None and isinstance(returned[2], tuple) and returned[2][0] == "ParseError"
            c.oblige("error:returns-no-tree-and-a-ParseError", ok, detail=repr(returned)[:200])
            if ok:
                e = returned[2]
                c.oblige("error:code-index-token-state", e[1] == code and e[2] == cur and e[3] is toks[cur] and e[4] == top, detail=repr(e)[:200])
                c.oblige("error:expected-tokens-are-the-non-error-terminals-of-the-state", set(e[5]) == {k2 for k2, v in row.items() if not isinstance(v, lr1.Error)}, detail=repr(e[5])[:200])
            c.oblige("error:stack-untouched", stack == stack0)
    paths = eng.explore(harness)
    return pyvc.collect(paths, "Parser.parse.step"), sum(1 for p in paths if p.covered)


TARGETS["parse_step"] = target_parse_step


def target_items_step():
    """lr1.Grammar._items (C08 / C09: the canonical collection and its GOTO table, "goto sharing"): one iteration of its
    `while i < len(item_list)` loop, from a state list without duplicates whose index map is its inverse (loop invariant,
    re-established), for every shape of the state's goto sets - each an EXISTING state's item set or a NEW one, two
    symbols possibly leading to the same new set:

        goto_table[i][X]  is the index of the state whose item set equals goto(I_i, X) - the existing state if there is one
                          (never a duplicate), else a state appended in this round; equal new sets share one new state
        new states are appended in the order of the sorted symbols; existing states keep their numbers; i advances by one"""
    info = pyvc.load_function("compiler.front_end.lr1.Grammar._items")
    loops = [n for n in info.node.body if isinstance(n, ast.While)]
    if len(loops) != 1:
        raise core.CheckerError("anchor mismatch: Grammar._items: expected one while loop")
    k = info.node.body.index(loops[0])
    names = {}
    for n in info.node.body[:k]:
        if isinstance(n, ast.Assign) and len(n.targets) == 1 and isinstance(n.targets[0], ast.Name):
            src = ast.unparse(n.value)
            if src.startswith("[frozenset("):
                names["item_list"] = n.targets[0].id
            elif src.startswith("{") and src.endswith(": 0}"):
                names["items"] = n.targets[0].id
            elif src == "collections.defaultdict(dict)":
                names["goto_table"] = n.targets[0].id
            elif src == "0":
                names["i"] = n.targets[0].id
    if sorted(names) != ["goto_table", "i", "item_list", "items"]:
        raise core.CheckerError("anchor mismatch: Grammar._items: cannot identify its state variables (%s)" % sorted(names))
    import collections
    eng = pyvc.Engine()
    eng.contract(frozenset, lambda interp, xs=(): frozenset(xs), "frozenset")

    def harness(c):
        nstates = int(c.choice("states-so-far", ["1", "2", "3"]))
        cur = int(c.choice("current-state", [str(j) for j in range(nstates)]))
        shape = c.choice("goto-sets", ["none", "x:new", "x:old0", "x:new y:new-same", "x:new y:new-other", "x:old0 y:new z:old-last", "y:new x:new-other z:new-same-as-x"])
        sets = [frozenset({"s%d" % j}) for j in range(nstates)]
        item_list = list(sets)
        items = {s: j for j, s in enumerate(sets)}
        goto_table = collections.defaultdict(dict)
        goto_table[99]["q"] = 5
        NEW = {"new": {"n1"}, "new-same": {"n1"}, "new-other": {"n2"}, "new-same-as-x": {"n2"}, "old0": set(sets[0]), "old-last": set(sets[-1])}
        gotos = {}
        for part in shape.split():
            if part == "none":
                continue
            sym, what = part.split(":")
            gotos[sym] = set(NEW[what])
        me = GObj("grammar", methods={"_parallel_goto": lambda interp, obj, item_set: (c.oblige("goto-is-computed-for-the-current-state", item_set == sets[cur]), dict(gotos))[1]})
        it = pyvc.Interp(c, info)
        it.env = {"self": me, names["item_list"]: item_list, names["items"]: items, names["goto_table"]: goto_table, names["i"]: cur}
        c.covered = True
        it.block(loops[0].body)
        c.oblige("advances-to-the-next-state", it.env[names["i"]] == cur + 1)
        c.oblige("invariant:no-duplicate-states-and-the-index-map-is-the-inverse", len(set(item_list)) == len(item_list) and items == {s: j for j, s in enumerate(item_list)}, detail=repr(item_list)[:200])
        c.oblige("existing-states-keep-their-numbers", item_list[:nstates] == sets)
        row = goto_table.get(cur, {})
        c.oblige("one-goto-entry-per-symbol", sorted(row) == sorted(gotos), detail=repr(row))
        ok = all(0 <= row[s] < len(item_list) and item_list[row[s]] == frozenset(gotos[s]) for s in gotos if s in row)
        c.oblige("goto-entry-is-the-state-with-exactly-that-item-set", ok, detail=repr(row))
        new_in_order = []
        for s in sorted(gotos):
            fs = frozenset(gotos[s])
            if fs not in sets and fs not in new_in_order:
                new_in_order.append(fs)
        c.oblige("new-states-appended-once-in-sorted-symbol-order", item_list[nstates:] == new_in_order, detail=repr(item_list[nstates:]))
        c.oblige("frame:other-rows-untouched", goto_table[99] == {"q": 5} and set(goto_table) <= {cur, 99})
    paths = eng.explore(harness)
    return pyvc.collect(paths, "Grammar._items.step"), sum(1 for p in paths if p.covered)


TARGETS["items_step"] = target_items_step


def target_parallel_goto():
    """lr1.Grammar._parallel_goto (C08: GOTO of a state on every symbol at once): for item sets built from real Item tuples -
    completed items, items before a terminal, before a nonterminal, several items before the same symbol - and closures that
    are cached or not:

        result[X]  ==  the union, over the items [A -> u . X v, a] of the state, of closure([A -> u X . v, a])     for every X
        no entry for a symbol that no item of the state has after its dot (completed items contribute nothing)
    where closure() is _closure_of_item (its own contract, C08) or its memo table, which holds the same sets."""
    lr1 = importlib.import_module("compiler.front_end.lr1")
    pt = importlib.import_module("compiler.util.parser_types")
    import collections
    eng = pyvc.Engine()
    eng.contract(collections.defaultdict, lambda interp, factory=None: collections.defaultdict(set), "collections.defaultdict(set)")
    P1, P2, P3 = pt.Production("A", ("x", "B")), pt.Production("B", ("x",)), pt.Production("C", ("B", "y"))

    def mk(prod, dot, la):
        return lr1.Item(prod, dot, la, prod.rhs[dot] if dot < len(prod.rhs) else None)

    def harness(c):
        shape = c.choice("state", ["one-shift", "two-items-same-symbol", "terminal-and-nonterminal", "only-completed", "mixed"])
        cached = c.choice("closure-cache", ["empty", "all", "some"])
        its = {"one-shift": [mk(P1, 0, "$")], "two-items-same-symbol": [mk(P1, 0, "$"), mk(P2, 0, "y")], "terminal-and-nonterminal": [mk(P1, 0, "$"), mk(P3, 0, "$")],
               "only-completed": [mk(P2, 1, "$")], "mixed": [mk(P1, 0, "$"), mk(P1, 1, "$"), mk(P2, 1, "y"), mk(P3, 0, "a"), mk(P2, 0, "y")]}[shape]
        adv = {i: mk(i.production, i.dot + 1, i.terminal) for i in its if i.next_symbol is not None}
        item_cache = {(a.production, a.dot, a.terminal): a for a in adv.values()}
        clos = {a: frozenset({"cl:%s:%d:%s" % (a.production.lhs, a.dot, a.terminal), "shared"}) for a in adv.values()}
        keys = sorted(clos, key=str)
        memo = {a: clos[a] for j, a in enumerate(keys) if cached == "all" or (cached == "some" and j % 2 == 0)}
        called = []

        def closure(interp, obj, item):
            called.append(item)
            if item not in clos:
                c.oblige("closure-is-taken-of-the-advanced-item", False, detail=repr(item)[:200])
                return frozenset()
            return clos[item]
        me = GObj("grammar", methods={"_closure_of_item": closure}, attrs={"_item_cache": item_cache, "_closure_of_item_cache": memo})
        c.covered = True
        st, got = pyvc.run_body(c, "compiler.front_end.lr1.Grammar._parallel_goto", [me, set(its)])
        want = collections.defaultdict(set)
        for i in its:
            if i.next_symbol is not None:
                want[i.next_symbol] |= clos[adv[i]]
        c.oblige("goto-of-every-symbol-is-the-union-of-the-closures-of-the-advanced-items", isinstance(got, dict) and {k2: set(v) for k2, v in got.items()} == dict(want), detail=repr(got)[:300])
        c.oblige("memoised-closures-are-not-recomputed", all(x not in memo for x in called), detail=repr(called)[:200])
    paths = eng.explore(harness)
    return pyvc.collect(paths, "Grammar._parallel_goto"), sum(1 for p in paths if p.covered)


TARGETS["parallel_goto"] = target_parallel_goto


def _spec_first(tables, symbols):
    """FIRST of a symbol string over given single-symbol tables (ALSU p221), written independently."""
    out = set()
    for s in symbols:
        out |= {x for x in tables[s] if x is not None}
        if None not in tables[s]:
            return out
    return out | {None}


def target_first():
    """lr1.Grammar._first (C08: FIRST sets): for every symbol string of length 0..3 over three symbols whose FIRST tables are
    ANY subsets of {a, b, epsilon} (exhaustive: 8^3 tables x 40 strings; _first treats all terminals alike):
        FIRST(X1 .. Xn) = the non-epsilon members of FIRST(Xi) for the longest prefix all of whose earlier symbols are nullable,
                          plus epsilon iff every Xi is nullable (in particular FIRST of the empty string is {epsilon})."""
    import itertools
    eng = pyvc.Engine()
    eng.contract(set, lambda interp, xs=(): set(xs), "set()")
    subsets = [frozenset(x for x, on in zip(("a", "b", None), bits) if on) for bits in itertools.product((0, 1), repeat=3)]
    strings = [()] + [t for n in (1, 2, 3) for t in itertools.product("XYZ", repeat=n)]
    obs, cov = [], 0
    import time
    t0 = time.time()
    bad = None
    n = 0
    # the tables are concrete here, so the executor runs one path per case; cases are grouped into one obligation per string length
    results = {0: [], 1: [], 2: [], 3: []}
    for fx, fy, fz in itertools.product(subsets, repeat=3):
        tables = {"X": set(fx), "Y": set(fy), "Z": set(fz)}
        for s in strings:
            if any(sym not in s for sym in ()):
                continue
            used = set(s)
            # skip tables that differ only in symbols the string does not mention (same execution)
            if ("X" not in used and fx != subsets[0]) or ("Y" not in used and fy != subsets[0]) or ("Z" not in used and fz != subsets[0]):
                continue

            def harness(c, tables=tables, s=s):
                me = GObj("grammar", attrs={"firsts": tables})
                c.covered = True
                st, got = pyvc.run_body(c, "compiler.front_end.lr1.Grammar._first", [me, list(s)])
                c.oblige("FIRST-of-a-string", isinstance(got, set) and got == _spec_first(tables, s), detail="FIRST%r over %r = %r" % (s, tables, got))
            paths = eng.explore(harness)
            n += 1
            for o in pyvc.collect(paths, "Grammar._first"):
                results[len(s)].append(o)
    for ln, os_ in results.items():
        badl = [o for o in os_ if o.verdict != core.PROVED]
        if badl:
            obs.extend(badl[:3])
        else:
            obs.append(core.Obligation("Grammar._first[length=%d].FIRST-of-a-string" % ln, core.PROVED, "syntactic", 0.0, detail="%d (tables, string) cases, every subset of {a, b, epsilon} per mentioned symbol" % len(os_)))
    return obs, n


def target_seed_firsts_round():
    """lr1.Grammar._compute_seed_firsts (the FIRST fixed point): one round of its `while True` loop from ANY current table
    (every combination of subsets of {a, epsilon} for two nonterminals) over a small grammar: the table grows by exactly
    FIRST(rhs) of every production into its lhs (one application of the monotone operator whose least fixed point FIRST
    is), terminals keep their singleton, and the loop is left iff nothing was added."""
    import itertools
    pt = importlib.import_module("compiler.util.parser_types")
    info = pyvc.load_function("compiler.front_end.lr1.Grammar._compute_seed_firsts")
    loops = [n for n in info.node.body if isinstance(n, ast.While)]
    if len(loops) != 1:
        raise core.CheckerError("anchor mismatch: Grammar._compute_seed_firsts: expected one while loop")
    eng = pyvc.Engine()
    eng.contract(set, lambda interp, xs=(): set(xs), "set()")
    prods = [pt.Production("S", ("A", "a")), pt.Production("A", ()), pt.Production("A", ("a", "A")), pt.Production("S", ("A", "A"))]
    subsets = [frozenset(x for x, on in zip(("a", None), bits) if on) for bits in itertools.product((0, 1), repeat=2)]
    obs, n = [], 0
    allo = []
    for fs_, fa in itertools.product(subsets, repeat=2):
        tables0 = {"a": {"a"}, "S": set(fs_), "A": set(fa)}

        def harness(c, tables0=tables0):
            tables = {k: set(v) for k, v in tables0.items()}
            me = GObj("grammar", attrs={"firsts": tables, "productions": list(prods)},
                      methods={"_first": lambda interp, obj, symbols: _spec_first(tables, list(symbols))})
            it = pyvc.Interp(c, info)
            it.env = {"self": me}
            c.covered = True
            left = False
            try:
                it.block(loops[0].body)
            except pyvc._Break:
                left = True
            want = {k: set(v) for k, v in tables0.items()}
            for p in prods:
                want[p.lhs] |= _spec_first(tables0, p.rhs)
            c.oblige("round-adds-exactly-FIRST(rhs)-of-every-production", tables == want, detail="%r -> %r, expected %r" % (tables0, tables, want))
            c.oblige("loop-is-left-iff-nothing-was-added", left == (want == tables0))
        for o in pyvc.collect(eng.explore(harness), "Grammar._compute_seed_firsts.round"):
            allo.append(o)
        n += 1
    bad = [o for o in allo if o.verdict != core.PROVED]
    if bad:
        obs.extend(bad[:4])
    else:
        for nm in ("round-adds-exactly-FIRST(rhs)-of-every-production", "loop-is-left-iff-nothing-was-added"):
            obs.append(core.Obligation("Grammar._compute_seed_firsts.round." + nm, core.PROVED, "syntactic", 0.0, detail="%d starting tables" % n))
    return obs, n


TARGETS["first"] = target_first
TARGETS["seed_firsts_round"] = target_seed_firsts_round


# ---------------------------------------------------------------------------------------------------------------------
# Grammar._closure_of_item (C08: CLOSURE with two memo tables), function under contract instead of bounded comparison only
# ---------------------------------------------------------------------------------------------------------------------
_CLOSURE_GRAMMARS = {
    # name: (productions as (lhs, rhs) in order, start)
    "left-recursive": [("S", ("S", "a")), ("S", ("b",))],
    "mutual": [("S", ("A", "x")), ("A", ("B",)), ("B", ("A", "y")), ("B", ("z",))],
    "nullable-tail": [("S", ("A", "N", "w")), ("A", ("a",)), ("N", ()), ("N", ("n",))],
    "indirectly-nullable-tail": [("S", ("A", "y")), ("S", ("p", "A", "w")), ("A", ("B", "N")), ("N", ("M",)), ("M", ()), ("M", ("m",)), ("B", ("b",))],
    "nested-nullable": [("S", ("A", "B", "C")), ("A", ("a",)), ("A", ()), ("B", ("A", "A")), ("C", ("c",)), ("C", ("B", "S"))],
    "expression": [("E", ("E", "+", "T")), ("E", ("T",)), ("T", ("(", "E", ")")), ("T", ("i",))],
}


def _spec_closure_tables(prods):
    """Independent specification over plain tuples: FIRST of strings, single-level closure and least closed set."""
    nts = {l for l, _ in prods}
    syms = nts | {s for _, r in prods for s in r} | {"$"}
    first = {s: (set() if s in nts else {s}) for s in syms}
    nullable = set()
    changed = True
    while changed:
        changed = False
        for l, r in prods:
            k = 0
            for s in r:
                new = first[s] - first[l]
                if new:
                    first[l] |= new
                    changed = True
                if s not in nullable:
                    break
                k += 1
            else:
                if l not in nullable:
                    nullable.add(l)
                    changed = True

    def first_of(string):
        out = set()
        for s in string:
            out |= first[s]
            if s not in nullable:
                return out, False
        return out, True

    def step(item):
        (l, r), dot, la = item
        if dot >= len(r) or r[dot] not in nts:
            return set()
        f, _ = first_of(r[dot + 1:] + (la,))
        return {((l2, r2), 0, b) for (l2, r2) in prods if l2 == r[dot] for b in f}

    def closure(item):
        s, work = {item}, [item]
        while work:
            for n in step(work.pop()):
                if n not in s:
                    s.add(n)
                    work.append(n)
        return s
    return syms - nts, first_of, step, closure


def target_closure_of_item():
    """lr1.Grammar._closure_of_item, body executed by pyvc on ghost grammar objects.  For six structurally different grammars
    (left recursion, mutual recursion, nullable and INDIRECTLY nullable tails, nested nullables, an expression grammar), every
    item [A -> u . v, a] of the grammar as root and three memo states (both tables empty / every proper sub-closure already
    memoised / every second one):

        result == the least set S containing the root such that [A -> u . B v, a] in S, B -> w a production, b in FIRST(v a)
                  imply [B -> . w, b] in S                                                   (FIRST: callee contract of _first)
        the memo entry written for the root is that set; memo entries present before are not changed; single-level memo
        entries written are the one-step sets; the closing `for item in item_list[::-1]` pass only calls _closure_of_item on
        members of the result (induction hypothesis: that call returns and memoises the closure of its argument)."""
    lr1 = importlib.import_module("compiler.front_end.lr1")
    pt = importlib.import_module("compiler.util.parser_types")
    eng = pyvc.Engine()
    eng.contract(set, lambda interp, xs=(): set(xs), "set()")
    per_grammar = {}
    ncase = 0
    for gname, prods in sorted(_CLOSURE_GRAMMARS.items()):
        terms, first_of, step, closure = _spec_closure_tables(prods)
        P = {p: pt.Production(p[0], p[1]) for p in prods}

        def mk(t):
            (p, dot, la) = t
            return lr1.Item(P[p], dot, la, p[1][dot] if dot < len(p[1]) else None)
        all_items = [(p, d, la) for p in prods for d in range(len(p[1]) + 1) for la in sorted(terms)]
        item_cache = {(P[p], d, la): mk((p, d, la)) for (p, d, la) in all_items}
        by_lhs = {}
        for p in prods:
            by_lhs.setdefault(p[0], []).append(P[p])
        res = per_grammar.setdefault(gname, [])
        # attributes of a real Grammar object that this contract does not specify (e.g. a table added by a later change) are
        # taken from an object built by the real constructor, so that the ghost is never narrower than the real object
        try:
            extras = {k: v for k, v in vars(lr1.Grammar(prods[0][0], [P[p] for p in prods])).items()}
        except Exception:
            extras = {}
        for root in all_items:
            want = closure(root)
            for memo_state in ("empty", "all-others", "every-second"):
                def harness(c, root=root, want=want, memo_state=memo_state):
                    others = sorted(x for x in want if x != root)
                    pre = {mk(x): {mk(y) for y in closure(x)} for j, x in enumerate(others) if memo_state == "all-others" or (memo_state == "every-second" and j % 2 == 0)}
                    pre_copy = {k: set(v) for k, v in pre.items()}
                    single = {mk(x): {mk(y) for y in step(x)} for j, x in enumerate(others) if memo_state == "every-second" and j % 3 == 0}
                    single_pre = set(single)
                    called = []

                    def rec(interp, obj, item):
                        called.append(item)
                        t = ((item.production.lhs, tuple(item.production.rhs)), item.dot, item.terminal)
                        s = {mk(y) for y in closure(t)}
                        obj.attrs["_closure_of_item_cache"].setdefault(item, s)
                        return obj.attrs["_closure_of_item_cache"][item]

                    def first(interp, obj, symbols):
                        f, eps = first_of(tuple(symbols))
                        return set(f) | ({None} if eps else set())
                    attrs = {"_closure_of_item_cache": pre, "_single_level_closure_of_item_cache": single, "_productions_by_lhs": by_lhs, "_item_cache": item_cache}
                    for k, v in extras.items():
                        attrs.setdefault(k, v)
                    me = GObj("grammar", methods={"_closure_of_item": rec, "_first": first}, attrs=attrs)
                    c.covered = True
                    st, got = pyvc.run_body(c, "compiler.front_end.lr1.Grammar._closure_of_item", [me, mk(root)])
                    wantset = {mk(x) for x in want}
                    c.oblige("closure-is-the-least-closed-set", isinstance(got, set) and got == wantset,
                             detail="%s root=%r memo=%s: got %d items, specified %d; missing %r, extra %r" % (gname, root, memo_state, len(got) if isinstance(got, set) else -1, len(wantset),
                                                                                                              sorted(map(str, wantset - got))[:3] if isinstance(got, set) else "", sorted(map(str, got - wantset))[:3] if isinstance(got, set) else ""))
                    c.oblige("root-memoised-with-its-closure", pre.get(mk(root)) == wantset, detail="%s root=%r" % (gname, root))
                    c.oblige("frame:earlier-memo-entries-unchanged", all(pre.get(k) == v for k, v in pre_copy.items()), detail="%s root=%r" % (gname, root))
                    c.oblige("single-level-memo-entries-are-the-one-step-sets",
                             all(v == {mk(y) for y in step(((k.production.lhs, tuple(k.production.rhs)), k.dot, k.terminal))} for k, v in single.items() if isinstance(k, lr1.Item)),
                             detail="%s root=%r new entries %d" % (gname, root, len(set(single) - single_pre)))
                    c.oblige("closing-pass-only-revisits-members-of-the-result", all(x in wantset for x in called), detail="%s root=%r" % (gname, root))
                paths = eng.explore(harness)
                ncase += 1
                res.extend(pyvc.collect(paths, "Grammar._closure_of_item"))
        # memo state "left behind by an earlier call": for every ordered pair of non-trivial roots (dot before a nonterminal)
        # the real body runs on r1 and then, with the memo tables as that call left them, on r2
        nts = {l for l, _ in prods}
        roots2 = [t for t in all_items if t[1] < len(t[0][1]) and t[0][1][t[1]] in nts]
        for r1 in roots2:
            for r2 in roots2:
                if r1 == r2:
                    continue

                def harness2(c, r1=r1, r2=r2):
                    pre, single = {}, {}

                    def rec(interp, obj, item):
                        t = ((item.production.lhs, tuple(item.production.rhs)), item.dot, item.terminal)
                        obj.attrs["_closure_of_item_cache"].setdefault(item, {mk(y) for y in closure(t)})
                        return obj.attrs["_closure_of_item_cache"][item]

                    def first(interp, obj, symbols):
                        f, eps = first_of(tuple(symbols))
                        return set(f) | ({None} if eps else set())
                    attrs = {"_closure_of_item_cache": pre, "_single_level_closure_of_item_cache": single, "_productions_by_lhs": by_lhs, "_item_cache": item_cache}
                    for k, v in extras.items():
                        attrs.setdefault(k, v)
                    me = GObj("grammar", methods={"_closure_of_item": rec, "_first": first}, attrs=attrs)
                    c.covered = True
                    pyvc.run_body(c, "compiler.front_end.lr1.Grammar._closure_of_item", [me, mk(r1)])
                    st, got = pyvc.run_body(c, "compiler.front_end.lr1.Grammar._closure_of_item", [me, mk(r2)])
                    wantset = {mk(x) for x in closure(r2)}
                    c.oblige("after-an-earlier-call:closure-is-the-least-closed-set", isinstance(got, set) and got == wantset,
                             detail="%s first %r then %r: missing %r, extra %r" % (gname, r1, r2, sorted(map(str, wantset - got))[:3] if isinstance(got, set) else "", sorted(map(str, got - wantset))[:3] if isinstance(got, set) else ""))
                paths = eng.explore(harness2)
                ncase += 1
                res.extend(pyvc.collect(paths, "Grammar._closure_of_item"))
    obs = []
    for gname, os_ in sorted(per_grammar.items()):
        by_clause = {}
        for o in os_:
            by_clause.setdefault(o.name.rsplit(".", 1)[-1] if "]." not in o.name else o.name.split("].", 1)[1], []).append(o)
        for clause, group in sorted(by_clause.items()):
            bad = [o for o in group if o.verdict != core.PROVED]
            if bad:
                for o in bad[:3]:
                    o.name = "Grammar._closure_of_item[%s].%s" % (gname, clause)
                    obs.append(o)
            else:
                obs.append(core.Obligation("Grammar._closure_of_item[%s].%s" % (gname, clause), core.PROVED, "syntactic", round(sum(o.seconds for o in group), 3),
                                           detail="%d (root item, memo state) cases" % len(group)))
    return obs, ncase


TARGETS["closure_of_item"] = target_closure_of_item
