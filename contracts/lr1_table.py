"""E1 slice contract on compiler/front_end/lr1.Grammar.parser (C08): the body of its `for item in item_sets[i]` loop - the step
that turns one LR(1) item into ACTION-table entries and detects conflicts - executed symbolically from any table row state:

   the item is a completed item of a non-seed production (-> Reduce), an item whose next symbol is a terminal (-> Shift to
   goto[i][terminal]), an item whose next symbol is a nonterminal (-> nothing), and/or the end item (-> Accept on $);
   the row action[i] may or may not already hold an entry for the terminal concerned / for $, and that entry is any Reduce,
   Shift or Accept (symbolic production / target state).

Step obligations:
   entry       afterwards action[i][terminal] is the action this item demands (Reduce(production) / Shift(goto target));
               for the end item action[i][$] is Accept(); an item that demands nothing leaves the row untouched
   conflict    a Conflict(i, terminal, {old, new}) is added iff an entry was already present and differs from the demanded
               action; conflicts are only ever added
   frame       no other key of the row is written
These make "conflicts == {} implies all items of a state demanding an action for a terminal demand the same one, and the
table holds it" an inductive invariant of the loop (paper step: induction over the items of the state) - i.e. an ambiguous
or non-LR(1) grammar is never silently accepted as conflict-free.  The statements after the loops are checked not to write
`action` or `conflicts` (syntactic frame obligation)."""
import ast
import importlib

import z3

from vlib import core, pyvc
from vlib.pyvc import GDict, GObj, SBool, SInt, SRec

DOTTED = "compiler.front_end.lr1.Grammar.parser"


def _slices():
    info = pyvc.load_function(DOTTED)
    outer = [n for n in info.node.body if isinstance(n, ast.For) and "range(len(item_sets))" in ast.unparse(n.iter)]
    if len(outer) != 1:
        raise core.CheckerError("anchor mismatch: expected one `for i in range(len(item_sets))` loop in Grammar.parser")
    inner = [n for n in outer[0].body if isinstance(n, ast.For) and "item_sets[i]" in ast.unparse(n.iter)]
    if len(inner) != 1 or len(outer[0].body) != 1:
        raise core.CheckerError("anchor mismatch: expected the state loop of Grammar.parser to consist of one `for item in item_sets[i]` loop")
    k = info.node.body.index(outer[0])
    # names of the locals, read off the code
    names = {"i": outer[0].target.id if isinstance(outer[0].target, ast.Name) else None, "item": inner[0].target.id if isinstance(inner[0].target, ast.Name) else None}
    m = __import__("re").match(r"(\w+)\[(\w+)\]$", ast.unparse(inner[0].iter))
    if m:
        names["item_sets"] = m.group(1)
    for n in info.node.body[:k]:
        if isinstance(n, ast.Assign) and len(n.targets) == 1:
            t, src = n.targets[0], ast.unparse(n.value)
            if isinstance(t, ast.Tuple) and len(t.elts) == 2 and src == "self._items()":
                names["item_sets_decl"], names["goto"] = t.elts[0].id, t.elts[1].id
            elif isinstance(t, ast.Name) and src == "collections.defaultdict(dict)":
                names["action"] = t.id
            elif isinstance(t, ast.Name) and src == "set()":
                names["conflicts"] = t.id
            elif isinstance(t, ast.Name) and src.startswith("self._item_cache["):
                names["end_item"] = t.id
    missing = [x for x in ("i", "item", "item_sets", "goto", "action", "conflicts", "end_item") if not names.get(x)]
    if missing or names.get("item_sets_decl") != names.get("item_sets"):
        raise core.CheckerError("anchor mismatch: Grammar.parser: cannot identify %s" % (missing or ["item_sets"]))
    info.names = names
    return info, inner[0], info.node.body[:k], info.node.body[k + 1:]


def target_action_step():
    lr1 = importlib.import_module("compiler.front_end.lr1")
    info, inner, before, after = _slices()
    eng = pyvc.Engine()
    eng.contract(lr1.Reduce, lambda interp, rule: ("Reduce", rule), "Reduce")
    eng.contract(lr1.Shift, lambda interp, state, items: ("Shift", state, items), "Shift")
    eng.contract(lr1.Accept, lambda interp: ("Accept",), "Accept")
    eng.contract(lr1.Conflict, lambda interp, state, symbol, actions: ("Conflict", state, symbol, actions), "Conflict")
    eng.contract(frozenset, lambda interp, xs: ("frozenset", list(xs)), "frozenset")
    END = lr1.END_OF_INPUT

    def harness(c):
        kind = c.choice("item", ["completed", "completed-seed", "before-terminal", "before-nonterminal"])
        is_end = c.choice("is-end-item", ["no", "yes"]) == "yes"
        if is_end and kind != "completed-seed":
            # the end item is [S' -> S ., $]: a completed item of the seed production
            c.covered = True
            return
        old_kind = c.choice("existing-entry", ["none", "Reduce", "Shift", "Accept"])
        old_end_kind = c.choice("existing-entry-for-$", ["none", "Reduce", "Accept"]) if is_end else "none"
        seed = GObj("seed-production")
        prod = seed if kind == "completed-seed" else GObj("production")
        lookahead = "t"
        item = SRec("Item", {"production": prod, "dot": 1, "terminal": lookahead, "next_symbol": {"completed": None, "completed-seed": None, "before-terminal": "t", "before-nonterminal": "N"}[kind]})
        old_prod, old_state = GObj("other-production"), z3.Int("old_shift_target")
        same_prod = z3.Bool("existing_reduce_is_by_the_same_production")

        def mk_old(k, tag):
            if k == "Reduce":
                return ("Reduce", SRec("P", {}) if False else ("PROD", tag))
            if k == "Shift":
                return ("Shift", SInt(old_state), "IS-old")
            return ("Accept",)
        # production equality is made symbolic through an integer id
        pid, old_pid = z3.Int("production_id"), z3.Int("existing_production_id")
        eng.contract(lr1.Reduce, lambda interp, rule: ("Reduce", SInt(pid) if rule is prod else SInt(z3.Int("seed_production_id"))), "Reduce")
        old = {"none": None, "Reduce": ("Reduce", SInt(old_pid)), "Shift": ("Shift", SInt(old_state), "IS-target"), "Accept": ("Accept",)}[old_kind]
        old_end = {"none": None, "Reduce": ("Reduce", SInt(z3.Int("existing_end_production_id"))), "Accept": ("Accept",)}[old_end_kind]
        present, entries = {"t": old is not None, END: old_end is not None, "u": True}, {"t": old, END: old_end, "u": ("Shift", 7, "IS7")}
        row = GDict(present, entries, label="action[i]")
        conflicts = pyvc.PSet()
        goto = {0: {"t": 1, "N": 2}}
        g = GObj("grammar", attrs={"terminals": pyvc.PSet(["t", "u"]), "nonterminals": pyvc.PSet(["N"]), "_seed_production": seed})
        it = pyvc.Interp(c, info)
        nm = info.names
        it.env = {"self": g, nm["item"]: item, nm["i"]: 0, nm["action"]: {0: row}, nm["conflicts"]: conflicts, nm["goto"]: goto, nm["item_sets"]: ["IS0", "IS-target", "IS2"],
                  nm["end_item"]: item if is_end else GObj("end-item")}
        c.covered = True
        it.block(inner.body)
        # demanded action
        if kind == "completed":
            want = ("Reduce", SInt(pid))
        elif kind == "before-terminal":
            want = ("Shift", 1, "IS-target")
        else:
            want = None

        def eq(a, b):
            r = it.equal(a, b)
            return r.t if isinstance(r, SBool) else z3.BoolVal(bool(r))
        confl = list(conflicts)
        exp_conf = []
        if want is not None:
            c.oblige("entry:row-holds-the-demanded-action", row.present["t"] is True and eq(row.entries["t"], want), detail=repr(row.entries.get("t")))
            if old is not None:
                exp_conf.append(("t", old, want))
        else:
            c.oblige("entry:an-item-that-demands-nothing-leaves-the-entry-alone", row.present["t"] is present["t"] and row.entries["t"] is entries["t"])
        if is_end:
            c.oblige("entry:end-item-sets-Accept-on-end-of-input", row.present[END] is True and row.entries[END] == ("Accept",), detail=repr(row.entries.get(END)))
            if old_end is not None:
                exp_conf.append((END, old_end, ("Accept",)))
        else:
            c.oblige("frame:end-of-input-entry-untouched", row.present[END] is present[END] and row.entries[END] is entries[END])
        c.oblige("frame:other-keys-untouched", row.present["u"] is True and row.entries["u"] is entries["u"] and set(row.present) == {"t", END, "u"})
        # conflicts: exactly those expected whose old entry differs from the new one
        differs = [z3.Not(eq(o, n)) for (_, o, n) in exp_conf]
        # on this path the code has decided each comparison; the recorded conflicts must match
        rec = {}
        for cf in confl:
            ok = isinstance(cf, tuple) and cf[0] == "Conflict" and cf[1] == 0 and cf[2] in ("t", END) and isinstance(cf[3], tuple) and cf[3][0] == "frozenset" and len(cf[3][1]) == 2
            c.oblige("conflict:shape(state,terminal,{old,new})", ok, detail=repr(cf)[:200])
            if ok:
                rec[cf[2]] = cf[3][1]
        for (sym, o, n), d in zip(exp_conf, differs):
            if sym in rec:
                c.oblige("conflict:recorded-only-when-the-entries-differ", d)
                c.oblige("conflict:names-the-old-and-the-new-action", z3.And(eq(rec[sym][0], o), eq(rec[sym][1], n)), detail=repr(rec[sym])[:200])
            else:
                c.oblige("conflict:recorded-whenever-the-entries-differ", z3.Not(d))
        c.oblige("conflict:none-without-a-previous-entry", set(rec) <= {s for (s, _, _) in exp_conf}, detail=repr(confl)[:200])
    paths = eng.explore(harness)
    return pyvc.collect(paths, "Grammar.parser.action-step"), sum(1 for p in paths if p.covered)


def frame_obligations():
    """The statements of Grammar.parser after the table loops write neither `action` nor `conflicts` (syntactic)."""
    import time
    t0 = time.time()
    info, inner, before, after = _slices()
    bad = []
    for st in after:
        for n in ast.walk(st):
            tgt = []
            if isinstance(n, (ast.Assign, ast.AugAssign, ast.AnnAssign, ast.Delete)):
                tgt = n.targets if isinstance(n, (ast.Assign, ast.Delete)) else [n.target]
            for t in tgt:
                base = t
                while isinstance(base, (ast.Subscript, ast.Attribute)):
                    base = base.value
                if isinstance(base, ast.Name) and base.id in (info.names["action"], info.names["conflicts"]):
                    bad.append("line %d: %s" % (n.lineno, ast.unparse(n)[:80]))
            if isinstance(n, ast.Call) and isinstance(n.func, ast.Attribute) and isinstance(n.func.value, ast.Name) and n.func.value.id in (info.names["action"], info.names["conflicts"]) \
                    and n.func.attr in ("clear", "pop", "update", "discard", "remove", "add", "setdefault", "popitem", "difference_update", "intersection_update"):
                bad.append("line %d: %s" % (n.lineno, ast.unparse(n)[:80]))
    return [core.Obligation("frame.Grammar.parser.statements-after-the-table-loops-write-neither-action-nor-conflicts", core.PROVED if not bad else core.REFUTED, "ast-write-set", time.time() - t0, kind="proof",
                            detail="%d statements" % len(after) if not bad else "; ".join(bad[:4]), model={"writes": bad[:6]} if bad else None)]


TARGETS = {"action_step": target_action_step}
