"""Sidecar contracts for compiler/front_end/expression_bounds.py (C05; reused by C04/C14/C19).

Abstract value  A = (minimum_value, maximum_value, modulus, modular_value), strings as the IR
stores them.  gamma(A) = { x | min <= x <= max  and  (modulus = "infinity" ? x = mv
                                                      : exists k. x - mv = k * modulus) }.

INV(A) is what earlier passes / the transfer functions themselves establish and what
`_assert_integer_constraints` checks:
    kinds:  modulus in numstr(>0) | "infinity";  modular_value numstr;
            minimum_value numstr | "-infinity";  maximum_value numstr | "infinity"
    modulus = "infinity"  =>  min = max = mv
    modulus finite        =>  0 <= mv < modulus; finite min, max congruent to mv; min != max;
                              min <= max
"""
import math

import z3

from vlib import core, pyvc
from vlib.pyvc import SInt, SNumStr, SRec, SBool, Unsupported, PathEnd

MOD = "compiler.front_end.expression_bounds."
INF, NINF = "infinity", "-infinity"


# ---------------------------------------------------------------------------
# extended integers


def ext(v):
    """('inf', +1|-1) or ('num', z3 term / python int) for an int | numstr | +-infinity value."""
    if isinstance(v, str):
        if v == INF:
            return ("inf", 1)
        if v == NINF:
            return ("inf", -1)
        try:
            return ("num", z3.IntVal(int(v)))
        except ValueError:
            return ("bad", v)
    if isinstance(v, SNumStr):
        return ("num", v.t)
    if isinstance(v, (SInt,)):
        return ("num", v.t)
    if isinstance(v, bool):
        return ("bad", v)
    if isinstance(v, int):
        return ("num", z3.IntVal(v))
    return ("bad", v)


def _pre(interp, name, ok, detail=""):
    if not ok:
        interp.ctx.oblige(name + ".call-pre", False, detail=detail)
        raise PathEnd()


def spec_add(interp, a, b):
    ea, eb = ext(a), ext(b)
    _pre(interp, "_add", ea[0] != "bad" and eb[0] != "bad", "operands %r %r" % (a, b))
    if ea[0] == "inf" and eb[0] == "inf":
        _pre(interp, "_add", ea[1] == eb[1], "inf + -inf")
        return INF if ea[1] > 0 else NINF
    if ea[0] == "inf":
        return INF if ea[1] > 0 else NINF
    if eb[0] == "inf":
        return INF if eb[1] > 0 else NINF
    return pyvc.mk_int(ea[1] + eb[1])


def spec_sub(interp, a, b):
    eb = ext(b)
    _pre(interp, "_sub", eb[0] != "bad")
    if eb[0] == "inf":
        nb = NINF if eb[1] > 0 else INF
    else:
        nb = pyvc.mk_int(-eb[1])
    return spec_add(interp, a, nb)


def spec_is_infinite(interp, a):
    return isinstance(a, str) and a in (INF, NINF)


def spec_sign(interp, a):
    ea = ext(a)
    _pre(interp, "_sign", ea[0] != "bad")
    if ea[0] == "inf":
        return ea[1]
    c = interp.ctx
    if c.branch(ea[1] > 0):
        return 1
    if c.branch(ea[1] < 0):
        return -1
    return 0


def spec_mul(interp, a, b):
    ea, eb = ext(a), ext(b)
    _pre(interp, "_mul", ea[0] != "bad" and eb[0] != "bad")
    if ea[0] == "num" and eb[0] == "num":
        return pyvc.mk_int(ea[1] * eb[1])
    sa, sb = spec_sign(interp, a), spec_sign(interp, b)
    s = sa * sb
    if s > 0:
        return INF
    if s < 0:
        return NINF
    return 0


def _spec_extremum(is_max):
    def spec(interp, seq):
        seq = list(seq)
        _pre(interp, "_max" if is_max else "_min", len(seq) > 0)
        es = [ext(x) for x in seq]
        _pre(interp, "_max" if is_max else "_min", all(e[0] != "bad" for e in es))
        top = 1 if is_max else -1
        if any(e[0] == "inf" and e[1] == top for e in es):
            return INF if is_max else NINF
        fin = [e[1] for e in es if e[0] == "num"]
        if not fin:
            return NINF if is_max else INF
        if len(fin) == 1:
            return pyvc.mk_int(fin[0])
        c = interp.ctx
        m = c.fresh_int("ext")
        c.assume(z3.And([(m >= t) if is_max else (m <= t) for t in fin]))
        c.one_of(m, fin)
        return SInt(m)
    return spec


spec_max = _spec_extremum(True)
spec_min = _spec_extremum(False)


def spec_math_gcd(interp, a, b):
    """math.gcd: g >= 0, g | a, g | b with explicit cofactors; g = 0 iff a = b = 0.
    (Greatest-ness is not needed for soundness and is not assumed.)"""
    c = interp.ctx
    if pyvc.is_strlike(a) or pyvc.is_strlike(b):
        interp.raise_py("TypeError", _N, "gcd of str")
    if not pyvc.is_sym(a) and not pyvc.is_sym(b):
        return math.gcd(a, b)
    for u in (a, b):
        if not pyvc.is_sym(u) and u in (1, -1):
            return 1          # gcd(1, x) = 1
    ta, tb = pyvc.zint(a), pyvc.zint(b)
    memo = c.__dict__.setdefault("gcd_memo", {})
    key = (ta.get_id(), tb.get_id())
    if key in memo:
        return SInt(memo[key])
    g, ka, kb = c.fresh_int("g"), c.fresh_int("ka"), c.fresh_int("kb")
    c.assume(g >= 0)
    c.assume((g == 0) == z3.And(ta == 0, tb == 0))
    if z3.is_const(ta) and ta.decl().kind() == z3.Z3_OP_UNINTERPRETED:
        c.define(ta, g * ka)
    else:
        c.equation(ta, g * ka)
    if z3.is_const(tb) and tb.decl().kind() == z3.Z3_OP_UNINTERPRETED:
        c.define(tb, g * kb)
    else:
        c.equation(tb, g * kb)
    # sign facts that follow from g*k = a (help the nonlinear solver)
    c.assume(z3.Implies(ta > 0, z3.And(g > 0, ka > 0, g <= ta)))
    c.assume(z3.Implies(tb > 0, z3.And(g > 0, kb > 0, g <= tb)))
    memo[key] = g
    return SInt(g)


class _Node:
    lineno = 0


_N = _Node()


def spec_gcd(interp, a, b):
    """_greatest_common_divisor(a, b) with "infinity" as the product of all integers."""
    c = interp.ctx

    def norm(v):
        if isinstance(v, str) and v == INF:
            return ("inf", None)
        e = ext(v)
        _pre(interp, "_greatest_common_divisor", e[0] == "num", "operand %r" % (v,))
        return e
    ea, eb = norm(a), norm(b)
    for e in (ea, eb):
        if e[0] == "num":
            c.oblige("_greatest_common_divisor.call-pre", e[1] >= 0, detail="operand >= 0")
    if ea[0] == "inf" and eb[0] == "inf":
        return INF
    if ea[0] == "inf":
        if c.branch(eb[1] == 0):
            return INF
        return pyvc.mk_int(eb[1])
    if eb[0] == "inf":
        if c.branch(ea[1] == 0):
            return INF
        return pyvc.mk_int(ea[1])
    za = c.branch(ea[1] == 0)
    zb = c.branch(eb[1] == 0)
    if za and zb:
        return INF
    if za:
        return pyvc.mk_int(eb[1])
    if zb:
        return pyvc.mk_int(ea[1])
    return spec_math_gcd(interp, pyvc.mk_int(ea[1]), pyvc.mk_int(eb[1]))


def spec_shared_modular_value(interp, left, right):
    """Result (m, v): both operand congruence classes are contained in the result's class.
    Used modularly by choice/maximum: the callee is verified separately against exactly this."""
    c = interp.ctx
    (lm, lv), (rm, rv) = left, right
    elm, erm = _modulus(interp, lm), _modulus(interp, rm)
    elv, erv = ext(lv), ext(rv)
    _pre(interp, "_shared_modular_value", elv[0] == "num" and erv[0] == "num")
    if elm is None and erm is None:
        if c.branch(elv[1] == erv[1]):
            return (INF, lv)
    # otherwise: fresh modulus m > 0, 0 <= v < m, m | lm, m | rm, m | lv - v, m | rv - v
    m, v = c.fresh_int("sm"), c.fresh_int("sv")
    c.assume(z3.And(m > 0, v >= 0, v < m))
    k1, k2 = c.fresh_int("k"), c.fresh_int("k")
    c.equation(elv[1], v + k1 * m)
    c.equation(erv[1], v + k2 * m)
    if elm is not None:
        k3 = c.fresh_int("k")
        c.equation(elm, k3 * m)
        c.assume(k3 > 0)
    if erm is not None:
        k4 = c.fresh_int("k")
        c.equation(erm, k4 * m)
        c.assume(k4 > 0)
    return (SInt(m), SInt(v))


def _modulus(interp, m):
    """None for "infinity", else z3 term."""
    if isinstance(m, str) and m == INF:
        return None
    e = ext(m)
    _pre(interp, "modulus", e[0] == "num", "modulus %r" % (m,))
    return e[1]


# ---------------------------------------------------------------------------
# abstract operands


class Abs:
    """One abstract operand on one path: the record plus the z3 terms behind it."""

    def __init__(self, rec, lo, hi, mod, mv, k, val):
        self.rec, self.lo, self.hi, self.mod, self.mv, self.k, self.val = rec, lo, hi, mod, mv, k, val


SHAPES = ["const", "fin[n,n]", "fin[-inf,n]", "fin[n,inf]", "fin[-inf,inf]"]


def make_operand(c, name, shapes=SHAPES):
    """Creates IntegerType fields satisfying INV, and a ghost member `val` of gamma."""
    shape = c.choice(name, shapes)
    mv = z3.Int(name + "_mv")
    val = z3.Int(name + "_val")
    if shape == "const":
        c.define(val, mv)
        rec = SRec("IntegerType", dict(modulus=INF, modular_value=SNumStr(mv), minimum_value=SNumStr(mv),
                                       maximum_value=SNumStr(mv)))
        return Abs(rec, mv, mv, None, mv, None, val)
    M = z3.Int(name + "_mod")
    k = z3.Int(name + "_k")
    c.assume(z3.And(M > 0, mv >= 0, mv < M))
    c.define(val, mv + k * M)
    lo = hi = None
    f = dict(modulus=SNumStr(M), modular_value=SNumStr(mv))
    if shape in ("fin[n,n]", "fin[n,inf]"):
        lo = z3.Int(name + "_min")
        klo = z3.Int(name + "_kmin")
        c.define(lo, mv + klo * M)
        c.assume(z3.And(lo <= val, klo <= k))
        f["minimum_value"] = SNumStr(lo)
    else:
        f["minimum_value"] = NINF
    if shape in ("fin[n,n]", "fin[-inf,n]"):
        hi = z3.Int(name + "_max")
        khi = z3.Int(name + "_kmax")
        c.define(hi, mv + khi * M)
        c.assume(z3.And(val <= hi, k <= khi))
        f["maximum_value"] = SNumStr(hi)
    else:
        f["maximum_value"] = INF
    if lo is not None and hi is not None:
        c.assume(z3.And(lo < hi, klo < khi))
    return Abs(SRec("IntegerType", f), lo, hi, M, mv, k, val)


def expr_with_type(integer_rec, extra=None):
    t = SRec("ExpressionType", {"integer": integer_rec, "which_type": "integer"})
    f = {"type": t}
    f.update(extra or {})
    return SRec("Expression", f)


def result_expr(function, args):
    res_int = SRec("IntegerType", {})
    e = expr_with_type(res_int, {"function": SRec("Function", {"function": function, "args": args}),
                                 "which_expression": "function"})
    return e


def check_result(c, res, value, clause_prefix="", value_feasible=True):
    """Postcondition: kinds, INV(res) and value in gamma(res).  `res` is the IntegerType record."""
    p = clause_prefix
    f = res.f
    for fld in ("modulus", "modular_value", "minimum_value", "maximum_value"):
        if fld not in f:
            c.oblige(p + "shape:set-" + fld, False, detail="field %s not written" % fld)
            return
    mod, mv, lo, hi = f["modulus"], f["modular_value"], f["minimum_value"], f["maximum_value"]

    def numstr(v):
        if isinstance(v, SNumStr):
            return v.t
        if isinstance(v, str) and pyvc._canonical_decimal(v):
            return z3.IntVal(int(v))
        return None
    tmv = numstr(mv)
    c.oblige(p + "shape:kind-modular_value", tmv is not None, detail=repr(mv))
    tmod = numstr(mod)
    c.oblige(p + "shape:kind-modulus", tmod is not None or (isinstance(mod, str) and mod == INF), detail=repr(mod))
    tlo = numstr(lo)
    c.oblige(p + "shape:kind-minimum", tlo is not None or (isinstance(lo, str) and lo == NINF), detail=repr(lo))
    thi = numstr(hi)
    c.oblige(p + "shape:kind-maximum", thi is not None or (isinstance(hi, str) and hi == INF), detail=repr(hi))
    if tmv is None or (tmod is None and mod != INF) or (tlo is None and lo != NINF) or (thi is None and hi != INF):
        return
    # soundness: value in gamma(res)
    if value is not None:
        if tlo is not None:
            c.oblige(p + "sound:min", tlo <= value)
        else:
            c.oblige(p + "sound:min", True)
        if thi is not None:
            c.oblige(p + "sound:max", value <= thi)
        else:
            c.oblige(p + "sound:max", True)
        if tmod is None:
            c.oblige(p + "sound:constant", value == tmv)
        else:
            c.oblige_divides(p + "sound:congruent", tmod, value - tmv)
    # INV(res): exactly the assertions of _assert_integer_constraints, plus mv range
    if tmod is None:
        c.oblige(p + "inv:const-min", tlo is not None and tlo == tmv)
        c.oblige(p + "inv:const-max", thi is not None and thi == tmv)
    else:
        c.oblige(p + "inv:modulus>0", tmod > 0)
        c.oblige(p + "inv:0<=mv<modulus", z3.And(tmv >= 0, tmv < tmod))
        if tlo is not None:
            c.oblige_divides(p + "inv:min-congruent", tmod, tlo - tmv)
        else:
            c.oblige(p + "inv:min-congruent", True)
        if thi is not None:
            c.oblige_divides(p + "inv:max-congruent", tmod, thi - tmv)
        else:
            c.oblige(p + "inv:max-congruent", True)
        if tlo is not None and thi is not None:
            c.oblige(p + "inv:min<max", tlo < thi)
        else:
            c.oblige(p + "inv:min<max", True)


# ---------------------------------------------------------------------------
# engine set-up


def make_engine(level="transfer", exclude=None):
    """Contract table.  level="helpers": nothing but math.gcd (helpers are verified against
    their bodies); level="transfer": helpers are replaced by their (separately verified) specs."""
    import importlib
    eb = importlib.import_module("compiler.front_end.expression_bounds")
    ir_data_utils = importlib.import_module("compiler.util.ir_data_utils")
    eng = pyvc.Engine()
    eng.contract(eb._math_gcd, spec_math_gcd, "math.gcd")
    eng.identity(ir_data_utils.reader)
    eng.identity(ir_data_utils.builder)
    if True:
        eng.contract(eb._add, spec_add)
        eng.contract(eb._sub, spec_sub)
        eng.contract(eb._mul, spec_mul)
        eng.contract(eb._sign, spec_sign)
        eng.contract(eb._is_infinite, spec_is_infinite)
        eng.contract(eb._max, spec_max)
        eng.contract(eb._min, spec_min)
        eng.contract(eb._greatest_common_divisor, spec_gcd)
        eng.contract(eb._shared_modular_value, spec_shared_modular_value)
    if exclude is not None:
        # the function under verification is executed from its body, not replaced by its spec
        del eng.specs[id(getattr(eb, exclude))]
    return eng


# ---------------------------------------------------------------------------
# targets: helpers against their spec functions


def _ext_operand(c, name, kinds=("int", "numstr", "inf", "-inf")):
    k = c.choice(name, list(kinds))
    if k == "int":
        return SInt(z3.Int(name))
    if k == "numstr":
        return SNumStr(z3.Int(name))
    if k == "inf":
        return INF
    return NINF


def _same(interp_eq, got, want):
    return interp_eq(got, want)


def _helper_target(fname, spec, arity, kinds=("int", "numstr", "inf", "-inf"), pre=None, listarg=0):
    def target():
        eng = make_engine("helpers", exclude=fname)
        dotted = MOD + fname

        def harness(c):
            if listarg:
                n = c.choice("n", [str(i) for i in range(1, listarg + 1)])
                args = [[_ext_operand(c, "a%d" % i, kinds) for i in range(int(n))]]
            else:
                args = [_ext_operand(c, "a%d" % i, kinds) for i in range(arity)]
            info = pyvc.load_function(dotted)
            it = pyvc.Interp(c, info)
            if pre is not None and not pre(c, args):
                return
            c.covered = True
            # spec first (its call-pre obligations define the precondition; a path where the
            # precondition fails is outside the contract)
            sub = Ctx2(c)
            try:
                want = spec(sub, *args)
            except PathEnd:
                # precondition of the helper not met on this shape: outside the contract
                c.results[:] = [r for r in c.results if not r[0].endswith(".call-pre")]
                return
            c.results[:] = [r for r in c.results if not r[0].endswith(".call-pre")]
            st, got = pyvc.run_body(c, dotted, args)
            eq = it.equal(got, want)
            c.oblige("result==spec", eq if isinstance(eq, bool) else eq.t,
                     detail="got %r want %r" % (got, want))
        paths = eng.explore(harness)
        return pyvc.collect(paths, fname), sum(1 for p in paths if p.covered)
    return target


class Ctx2:
    """A spec runs with the same path context as the body (shares forks and assumptions)."""

    def __init__(self, c):
        self.ctx = c

    def raise_py(self, name, node, msg=""):
        raise pyvc.PyRaise(name, "spec", msg)


def _pre_add(c, args):
    a, b = args
    return not (isinstance(a, str) and isinstance(b, str) and a != b)


def _pre_gcd(c, args):
    for a in args:
        if isinstance(a, str):
            continue
        c.assume(a.t >= 0)
    return True


TARGETS = {}
TARGETS["_add"] = _helper_target("_add", spec_add, 2, pre=_pre_add)
TARGETS["_sub"] = _helper_target("_sub", spec_sub, 2,
                                 pre=lambda c, a: not (isinstance(a[0], str) and isinstance(a[1], str) and a[0] == a[1]))
TARGETS["_mul"] = _helper_target("_mul", spec_mul, 2)
TARGETS["_sign"] = _helper_target("_sign", spec_sign, 1)
TARGETS["_is_infinite"] = _helper_target("_is_infinite", spec_is_infinite, 1)
TARGETS["_max"] = _helper_target("_max", spec_max, 1, listarg=4)
TARGETS["_min"] = _helper_target("_min", spec_min, 1, listarg=4)
TARGETS["_greatest_common_divisor"] = _helper_target("_greatest_common_divisor", spec_gcd, 2,
                                                     kinds=("int", "numstr", "inf"), pre=_pre_gcd)


# ---------------------------------------------------------------------------
# targets: transfer functions


def _ir_data():
    import importlib
    return importlib.import_module("compiler.util.ir_data")


def target_additive():
    eng = make_engine("transfer")
    FM = _ir_data().FunctionMapping

    def harness(c):
        opname = c.choice("op", ["ADDITION", "SUBTRACTION"])
        L = make_operand(c, "L")
        R = make_operand(c, "R")
        e = result_expr(getattr(FM, opname), [expr_with_type(L.rec), expr_with_type(R.rec)])
        c.covered = True
        pyvc.run_body(c, MOD + "_compute_constraints_of_additive_operator", [e])
        value = L.val + R.val if opname == "ADDITION" else L.val - R.val
        check_result(c, e.f["type"].f["integer"], value)
    paths = eng.explore(harness)
    return pyvc.collect(paths, "additive"), sum(1 for p in paths if p.covered)


TARGETS["additive"] = target_additive


def target_multiplicative(lshape=None):
    eng = make_engine("transfer")
    FM = _ir_data().FunctionMapping

    def harness(c):
        L = make_operand(c, "L", [lshape] if lshape else SHAPES)
        R = make_operand(c, "R")
        e = result_expr(FM.MULTIPLICATION, [expr_with_type(L.rec), expr_with_type(R.rec)])
        c.covered = True
        pyvc.run_body(c, MOD + "_compute_constraints_of_multiplicative_operator", [e])
        check_result(c, e.f["type"].f["integer"], L.val * R.val)
    paths = eng.explore(harness)
    return pyvc.collect(paths, "multiplicative"), sum(1 for p in paths if p.covered)


for _s in SHAPES:
    TARGETS["multiplicative:" + _s] = (lambda s: (lambda: target_multiplicative(s)))(_s)


def _bool_type(c, name):
    k = c.choice(name, ["unknown", "true", "false"])
    if k == "unknown":
        rec = SRec("BooleanType", {"has:value": False})
        return rec, None
    rec = SRec("BooleanType", {"has:value": True, "value": k == "true"})
    return rec, (k == "true")


def target_choice(tshape=None):
    eng = make_engine("transfer")
    FM = _ir_data().FunctionMapping

    def harness(c):
        brec, bval = _bool_type(c, "cond")
        cond = SRec("Expression", {"type": SRec("ExpressionType", {"boolean": brec, "which_type": "boolean"})})
        kind = c.choice("type", ["integer", "boolean", "enumeration"])
        if kind != "integer":
            if tshape not in (None, SHAPES[0]):
                return
            t = SRec("Expression", {"type": SRec("ExpressionType", {kind: SRec(kind, {"tag": "T"}), "which_type": kind})})
            f = SRec("Expression", {"type": SRec("ExpressionType", {kind: SRec(kind, {"tag": "F"}), "which_type": kind})})
            e = SRec("Expression", {"type": SRec("ExpressionType", {"which_type": kind}),
                                    "function": SRec("Function", {"function": FM.CHOICE, "args": [cond, t, f]})})
            c.covered = True
            pyvc.run_body(c, MOD + "_compute_constraints_of_choice_operator", [e])
            if bval is not None:
                got = e.f["type"].f.get(kind)
                c.oblige("constant-condition-selects-branch", got is not None and got.f.get("tag") == ("T" if bval else "F"))
            return
        T = make_operand(c, "T", [tshape] if tshape else SHAPES)
        F = make_operand(c, "F")
        e = result_expr(FM.CHOICE, [cond, expr_with_type(T.rec), expr_with_type(F.rec)])
        # the run-time value of the condition: any value if unknown, the constant otherwise
        taken = c.choice("taken", ["T", "F"])
        if bval is not None and (taken == "T") != bval:
            return
        c.covered = True
        pyvc.run_body(c, MOD + "_compute_constraints_of_choice_operator", [e])
        res = e.f["type"].f["integer"]
        check_result(c, res, T.val if taken == "T" else F.val)
        if bval is not None:
            # "a constant condition selects the branch": result bounds are exactly that side's
            side = T if bval else F
            for fld in ("modulus", "modular_value", "minimum_value", "maximum_value"):
                it = pyvc.Interp(c, pyvc.load_function(MOD + "_compute_constraints_of_choice_operator"))
                eq = it.equal(res.f.get(fld), side.rec.f[fld])
                c.oblige("constant-condition-selects-branch:" + fld, eq if isinstance(eq, bool) else eq.t)
    paths = eng.explore(harness)
    return pyvc.collect(paths, "choice"), sum(1 for p in paths if p.covered)


for _s in SHAPES:
    TARGETS["choice:" + _s] = (lambda s: (lambda: target_choice(s)))(_s)


def target_maximum(arity, first=None):
    eng = make_engine("transfer")
    FM = _ir_data().FunctionMapping

    def harness(c):
        c.labels.append("arity=%d" % arity)
        ops = [make_operand(c, "A%d" % i, [first] if (first and i == 0) else SHAPES) for i in range(arity)]
        e = result_expr(FM.MAXIMUM, [expr_with_type(o.rec) for o in ops])
        # the value of $max is one of the arguments and >= all of them: fork on which
        w = int(c.choice("argmax", [str(i) for i in range(arity)]))
        for i, o in enumerate(ops):
            if i != w:
                c.assume(o.val <= ops[w].val)
        if not c.feasible():
            return
        c.covered = True
        pyvc.run_body(c, MOD + "_compute_constraints_of_maximum_function", [e])
        check_result(c, e.f["type"].f["integer"], ops[w].val)
    paths = eng.explore(harness)
    return pyvc.collect(paths, "maximum"), sum(1 for p in paths if p.covered)


TARGETS["maximum:1"] = lambda: target_maximum(1)
TARGETS["maximum:2"] = lambda: target_maximum(2)
for _s in SHAPES:
    TARGETS["maximum:3:" + _s] = (lambda s: (lambda: target_maximum(3, s)))(_s)
THOROUGH_TARGETS = {}
for _s in SHAPES:
    THOROUGH_TARGETS["maximum:4:" + _s] = (lambda s: (lambda: target_maximum(4, s)))(_s)


def target_bound():
    """$upper_bound(x) / $lower_bound(x): the result is the constant max(x) / min(x), which is a
    true bound of every member of gamma(x).  Precondition: the selected bound is finite (unbounded
    run-time expressions are rejected by constraints._integer_bounds_errors)."""
    eng = make_engine("transfer")
    FM = _ir_data().FunctionMapping

    def harness(c):
        opname = c.choice("op", ["UPPER_BOUND", "LOWER_BOUND"])
        A = make_operand(c, "A")
        bound = A.hi if opname == "UPPER_BOUND" else A.lo
        if bound is None:
            return
        e = result_expr(getattr(FM, opname), [expr_with_type(A.rec)])
        c.covered = True
        pyvc.run_body(c, MOD + "_compute_constraints_of_bound_function", [e])
        res = e.f["type"].f["integer"]
        check_result(c, res, bound)
        c.oblige("is-true-bound", (A.val <= bound) if opname == "UPPER_BOUND" else (bound <= A.val))
    paths = eng.explore(harness)
    return pyvc.collect(paths, "bound"), sum(1 for p in paths if p.covered)


TARGETS["bound"] = target_bound


def target_constant():
    eng = make_engine("transfer")

    def harness(c):
        v = z3.Int("v")
        e = expr_with_type(SRec("IntegerType", {}), {"constant": SRec("NumericConstant", {"value": SNumStr(v)}),
                                                     "which_expression": "constant"})
        c.covered = True
        pyvc.run_body(c, MOD + "_compute_constant_value_of_constant", [e])
        check_result(c, e.f["type"].f["integer"], v)
    paths = eng.explore(harness)
    return pyvc.collect(paths, "constant"), sum(1 for p in paths if p.covered)


TARGETS["constant"] = target_constant


def target_assert_integer_constraints():
    """Every assert of _assert_integer_constraints is an obligation under INV: the pass cannot
    crash the compiler on its own output."""
    eng = make_engine("transfer")

    def harness(c):
        A = make_operand(c, "A")
        e = expr_with_type(A.rec)
        c.covered = True
        pyvc.run_body(c, MOD + "_assert_integer_constraints", [e])
        c.oblige("returns", True)
    paths = eng.explore(harness)
    return pyvc.collect(paths, "_assert_integer_constraints"), sum(1 for p in paths if p.covered)


TARGETS["_assert_integer_constraints"] = target_assert_integer_constraints


def target_shared_modular_value():
    """_shared_modular_value against the contract its callers (choice, $max) use."""
    eng = make_engine("helpers", exclude="_shared_modular_value")

    def harness(c):
        sides = []
        for n in ("l", "r"):
            k = c.choice(n, ["const", "fin"])
            mv = z3.Int(n + "_mv")
            if k == "const":
                sides.append((INF, SNumStr(mv), None, mv))
            else:
                M = z3.Int(n + "_mod")
                c.assume(z3.And(M > 0, mv >= 0, mv < M))
                sides.append((SNumStr(M), SNumStr(mv), M, mv))
        c.covered = True
        st, got = pyvc.run_body(c, MOD + "_shared_modular_value", [(sides[0][0], sides[0][1]), (sides[1][0], sides[1][1])])
        ok_shape = isinstance(got, tuple) and len(got) == 2
        c.oblige("returns-pair", ok_shape)
        if not ok_shape:
            return
        m, v = got
        if isinstance(m, str) and m == INF:
            c.oblige("inf-only-for-equal-constants", z3.BoolVal(sides[0][2] is None and sides[1][2] is None))
            ev = ext(v)
            c.oblige("inf-value", ev[0] == "num" and z3.And(ev[1] == sides[0][3], ev[1] == sides[1][3]))
            return
        em, ev = ext(m), ext(v)
        c.oblige("kinds", em[0] == "num" and ev[0] == "num")
        if em[0] != "num" or ev[0] != "num":
            return
        c.oblige("modulus>0", em[1] > 0)
        c.oblige("0<=value<modulus", z3.And(ev[1] >= 0, ev[1] < em[1]))
        for (ms, vs, M, mv), nm in zip(sides, ("left", "right")):
            c.oblige_divides("value-congruent:" + nm, em[1], mv - ev[1])
            if M is not None:
                c.oblige_divides("modulus-divides:" + nm, em[1], M)
    paths = eng.explore(harness)
    return pyvc.collect(paths, "_shared_modular_value"), sum(1 for p in paths if p.covered)


TARGETS["_shared_modular_value"] = target_shared_modular_value


def target_physical_leaves():
    """_set_integer_constraints_from_physical_type for every prelude integer type and every legal
    size 1..64 (finite configuration space, enumerated completely; type_size concrete)."""
    eng = make_engine("transfer")
    out = []
    n = 0
    for tname, lo_fn, hi_fn in (
            ("UInt", lambda s: 0, lambda s: 2 ** s - 1),
            ("Int", lambda s: -(2 ** (s - 1)), lambda s: 2 ** (s - 1) - 1),
            ("Bcd", lambda s: 0, lambda s: 10 ** (s // 4) * 2 ** (s % 4) - 1)):
        def harness(c, tname=tname, lo_fn=lo_fn, hi_fn=hi_fn):
            s = int(c.choice("size", [str(i) for i in range(1, 65)]))
            res = SRec("IntegerType", {"modulus": "1", "modular_value": "0"})
            e = expr_with_type(res)
            pt = SRec("Type", {"atomic_type": SRec("AtomicType", {"reference": SRec("Reference", {
                "canonical_name": SRec("CanonicalName", {"object_path": [tname], "module_file": ""})})})})
            c.covered = True
            pyvc.run_body(c, MOD + "_set_integer_constraints_from_physical_type", [e, pt, s])
            c.oblige("documented-min", res.f.get("minimum_value") == str(lo_fn(s)), detail=repr(res.f.get("minimum_value")))
            c.oblige("documented-max", res.f.get("maximum_value") == str(hi_fn(s)), detail=repr(res.f.get("maximum_value")))
            check_result(c, res, None)
        paths = eng.explore(harness)
        n += sum(1 for p in paths if p.covered)
        out += pyvc.collect(paths, "leaf." + tname)

    def harness_unknown(c):
        tname = c.choice("type", ["UInt", "Int", "Bcd"])
        res = SRec("IntegerType", {"modulus": "1", "modular_value": "0"})
        e = expr_with_type(res)
        pt = SRec("Type", {})
        c.covered = True
        pyvc.run_body(c, MOD + "_set_integer_constraints_from_physical_type", [e, pt, None])
        check_result(c, res, z3.Int("any"))
    paths = eng.explore(harness_unknown)
    n += sum(1 for p in paths if p.covered)
    out += pyvc.collect(paths, "leaf.unknown-size")
    return out, n


TARGETS["leaves"] = target_physical_leaves


# ---------------------------------------------------------------------------
# ir_util: three-valued constant folding


def target_constant_folding():
    """ir_util._constant_value_of_function: a non-None result equals the value of the function for
    every valuation of the unknown arguments; the dispatch never raises for any FunctionMapping
    member applied to arguments of its documented types."""
    import importlib
    ir_util = importlib.import_module("compiler.util.ir_util")
    FM = _ir_data().FunctionMapping
    eng = pyvc.Engine()
    eng.contract(ir_util.constant_value, lambda interp, e, bindings=None: e.f["cv"], "constant_value")
    INT, BOOL = "int", "bool"
    sigs = {
        "ADDITION": [(INT, INT)], "SUBTRACTION": [(INT, INT)], "MULTIPLICATION": [(INT, INT)],
        "EQUALITY": [(INT, INT), (BOOL, BOOL)], "INEQUALITY": [(INT, INT), (BOOL, BOOL)],
        "LESS": [(INT, INT)], "LESS_OR_EQUAL": [(INT, INT)], "GREATER": [(INT, INT)], "GREATER_OR_EQUAL": [(INT, INT)],
        "AND": [(BOOL, BOOL)], "OR": [(BOOL, BOOL)],
        "CHOICE": [(BOOL, INT, INT), (BOOL, BOOL, BOOL)],
        "MAXIMUM": [(INT,), (INT, INT), (INT, INT, INT), (INT, INT, INT, INT)],
        "UPPER_BOUND": [(INT,)], "LOWER_BOUND": [(INT,)],
        "PRESENCE": [("field",)], "UNKNOWN": [(INT,)],
    }
    members = [m.name for m in FM]
    missing = [m for m in members if m not in sigs]
    if missing:
        raise core.CheckerError("FunctionMapping members without a documented signature in the contract: %s" % missing)

    def sem(op, vals):
        a = vals
        if op == "ADDITION":
            return a[0] + a[1]
        if op == "SUBTRACTION":
            return a[0] - a[1]
        if op == "MULTIPLICATION":
            return a[0] * a[1]
        if op == "EQUALITY":
            return a[0] == a[1]
        if op == "INEQUALITY":
            return a[0] != a[1]
        if op == "LESS":
            return a[0] < a[1]
        if op == "LESS_OR_EQUAL":
            return a[0] <= a[1]
        if op == "GREATER":
            return a[0] > a[1]
        if op == "GREATER_OR_EQUAL":
            return a[0] >= a[1]
        if op == "AND":
            return z3.And(a[0], a[1])
        if op == "OR":
            return z3.Or(a[0], a[1])
        if op == "CHOICE":
            return z3.If(a[0], a[1], a[2])
        if op == "MAXIMUM":
            r = a[0]
            for x in a[1:]:
                r = z3.If(x > r, x, r)
            return r
        if op in ("UPPER_BOUND", "LOWER_BOUND"):
            return a[0]     # the bound of a constant is the constant
        return None

    def harness(c):
        op = c.choice("f", members)
        sig = c.choice("sig", [",".join(s) for s in sigs[op]]).split(",")
        args, actual = [], []
        for i, ty in enumerate(sig):
            if ty == "field":
                args.append(SRec("Expression", {"cv": None}))
                actual.append(None)
                continue
            known = c.choice("a%d" % i, ["known", "unknown"]) == "known"
            if ty == INT:
                v = z3.Int("v%d" % i)
                args.append(SRec("Expression", {"cv": SInt(v) if known else None}))
            else:
                v = z3.Bool("b%d" % i)
                args.append(SRec("Expression", {"cv": SBool(v) if known else None}))
            actual.append(v)
        fn = SRec("Function", {"function": getattr(FM, op), "args": args})
        c.covered = True
        st, got = pyvc.run_body(c, "compiler.util.ir_util._constant_value_of_function", [fn, None])
        if got is None:
            # "unknown" is always sound; precision: all-known arguments of a foldable function fold
            if all(a.f["cv"] is not None for a in args) and sem(op, actual) is not None:
                c.oblige("folds-when-all-known", False, detail="returned None with all arguments known")
            else:
                c.oblige("sound", True)
            return
        want = sem(op, actual)
        if want is None:
            c.oblige("sound", False, detail="folded %s to %r" % (op, got))
            return
        if z3.is_bool(want):
            ok = isinstance(got, (SBool, bool))
            c.oblige("sound", ok and (pyvc.zbool(got) == want), detail="got %r" % (got,))
        else:
            ok = isinstance(got, (SInt, int)) and not isinstance(got, bool)
            c.oblige("sound", ok and (pyvc.zint(got) == want), detail="got %r" % (got,))
    paths = eng.explore(harness)
    return pyvc.collect(paths, "constant_folding"), sum(1 for p in paths if p.covered)


TARGETS["constant_folding"] = target_constant_folding


# ---------------------------------------------------------------------------
# tightness of ?: (known finding KF-C05-1): ground witness on the real front end


def tightness_choice_finding():
    """The property says the interval is attained for expressions without repeated variables.  For
    `?:` the premise "the condition can take both values" cannot be discharged from BooleanType.
    Ground witness, evaluated through the real front end on every run."""
    import importlib
    import time
    t0 = time.time()
    glue = importlib.import_module("compiler.front_end.glue")
    test_util = None
    src = ('[$default byte_order: "LittleEndian"]\n'
           "struct Foo:\n  0 [+1]  UInt  x\n  let v = x > 300 ? 1 : 2\n")
    ir, debug, errors = glue.parse_emboss_file("w.emb", _Reader({"w.emb": src}))
    if errors:
        return core.Obligation("tightness.choice[x>300?1:2].attained:min", core.ERROR, "cpython", time.time() - t0,
                               detail="witness module rejected: %r" % (errors,), kind="ground")
    v = [f for f in ir.module[0].type[0].structure.field if f.name.name.text == "v"][0]
    t = v.read_transform.type.integer
    lo, hi = int(t.minimum_value), int(t.maximum_value)
    attained = {(1 if x > 300 else 2) for x in range(256)}
    ok = lo in attained and hi in attained
    return core.Obligation("tightness.choice[x>300?1:2].attained:min", core.PROVED if ok else core.REFUTED, "cpython-ground",
                           time.time() - t0, model={"module": src, "inferred": [lo, hi], "attained": sorted(attained)},
                           detail="inferred [%d,%d], attained %s over all 256 values of x" % (lo, hi, sorted(attained)),
                           kind="ground", replay={"reproduced": not ok, "inputs": src})


class _Reader:
    def __init__(self, files):
        self.files = files

    def __call__(self, name):
        if name in self.files:
            return self.files[name], None
        import importlib
        res = importlib.import_module("compiler.util.resources")
        if name == "":
            return res.load("compiler.front_end", "prelude.emb"), None
        return None, ["not found"]
