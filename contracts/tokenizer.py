"""E1 slice contract on compiler/front_end/tokenizer._tokenize_line (C10): one iteration of its `while offset < len(line)`
loop, executed from a symbolic state (any line length, any offset inside the line, any line number), with Python's `re`
and `str.startswith` abstracted:

   literal i "matches at offset"      an uninterpreted boolean (if it does, the literal fits into the rest of the line)
   regex j matches at offset          an uninterpreted boolean and, if so, a match length 0 <= R_j <= len(line) - offset

and small pattern tables in place of the module's (the loop body treats every table entry alike; the tables of the real
module are compared with doc/grammar.md by the ground obligations of C09/C10).  Postcondition of the iteration:

   the candidate chosen is a LONGEST match, and among the longest the EARLIEST in (literals in order, then regexes in order)
   no candidate matches with positive length  ->  returns (None, [[error at columns offset+1 .. offset+2]]), appends no token
   otherwise  offset' = offset + length > offset  (progress, hence termination and: tokens never overlap);
              a token is appended iff the winner's symbol is not None, with symbol '"literal"' / the pattern's symbol, text =
              the matched text, location (line, offset+1) - (line, offset+length+1)

The whole-line statement (tokens in order, non-overlapping, covering everything but the None-symbol matches) is the
induction over iterations (paper step); the bounded comparison with a tokenizer built from the documented table grounds
the `re` abstraction."""
import ast
import importlib
import itertools

import z3

from vlib import core, pyvc
from vlib.pyvc import GObj, GStr, SBool, SInt, SRec

DOTTED = "compiler.front_end.tokenizer._tokenize_line"


def target_line_loop():
    tk = importlib.import_module("compiler.front_end.tokenizer")
    error = importlib.import_module("compiler.util.error")
    pt = importlib.import_module("compiler.util.parser_types")
    info = pyvc.load_function(DOTTED)
    loops = [n for n in ast.walk(info.node) if isinstance(n, ast.While)]
    if len(loops) != 1 or "offset < len(line)" not in ast.unparse(loops[0].test):
        raise core.CheckerError("anchor mismatch: expected one `while offset < len(line)` loop in _tokenize_line")
    loop = loops[0]
    eng = pyvc.Engine()
    eng.contract(error.error, lambda interp, f, loc, msg: ("ERR", loc, msg), "error.error")
    eng.contract(pt.SourceLocation, lambda interp, a, b, **k: ("LOC", a, b), "SourceLocation")
    eng.contract(pt.Token, lambda interp, sym, text, loc: ("TOK", sym, text, loc), "Token")

    def harness(c):
        lits = list(c.choice("literals", ["ab|a|abc", "a|ab", "abc|ab|a", "x"]).split("|"))
        nre = int(c.choice("regexes", ["1", "2", "3"]))
        none_at = int(c.choice("symbol-None-regex", [str(i) for i in range(nre)] + ["-1"]))
        N, off, ln = z3.Int("len_line"), z3.Int("offset"), z3.Int("line_number")
        c.assume(z3.And(off >= 0, off < N))
        lit_m = [z3.Bool("literal_%d_matches" % i) for i in range(len(lits))]
        re_m = [z3.Bool("regex_%d_matches" % j) for j in range(nre)]
        re_len = [z3.Int("regex_%d_length" % j) for j in range(nre)]
        for i, l in enumerate(lits):
            c.assume(z3.Implies(lit_m[i], len(l) <= N - off))
        for j in range(nre):
            c.assume(z3.And(re_len[j] >= 0, re_len[j] <= N - off))

        def startswith(interp, suffix, literal):
            if suffix.tag != ("suffix",) or literal not in lits:
                raise pyvc.Unsupported("startswith on something other than line[offset:] / a table literal")
            return SBool(lit_m[lits.index(literal)])

        def suffix(interp, s, lo):
            c.oblige("slices-start-at-the-current-offset", pyvc.zint(lo) == off)
            return GStr(N - off, tag=("suffix",), ops={"startswith": startswith})
        line = GStr(N, tag=("line",), ops={"suffix": suffix})

        def mk_match(j):
            def match(interp, obj, text):
                if not (isinstance(text, GStr) and text.tag == ("suffix",)):
                    raise pyvc.Unsupported("regex.match on something other than line[offset:]")
                if interp.ctx.branch(re_m[j]):
                    return GObj("match%d" % j, methods={"group": lambda interp2, o, idx=0: GStr(re_len[j], tag=("match", j))})
                return None
            return match
        patterns = [SRec("T", {"regex": GObj("re%d" % j, methods={"match": mk_match(j)}), "symbol": None if j == none_at else "Sym%d" % j}) for j in range(nre)]
        it = pyvc.Interp(c, info)
        tokens = []
        it.env = {"line": line, "line_number": SInt(ln), "file_name": "f.emb", "tokens": tokens, "offset": SInt(off),
                  "LITERAL_TOKEN_PATTERNS": tuple(lits), "REGEX_TOKEN_PATTERNS": patterns}
        c.covered = True
        returned = None
        try:
            it.block(loop.body)
        except pyvc._Return as r:
            returned = r.value
        # candidates in priority order with their (symbolic) match lengths
        cands = [("lit", i, z3.If(lit_m[i], z3.IntVal(len(l)), z3.IntVal(0))) for i, l in enumerate(lits)] + \
                [("re", j, z3.If(re_m[j], re_len[j], z3.IntVal(0))) for j in range(nre)]
        best = cands[0][2]
        for (_, _, ln_) in cands[1:]:
            best = z3.If(ln_ > best, ln_, best)
        if returned is not None:
            ok = isinstance(returned, tuple) and len(returned) == 2 and returned[0] is None and isinstance(returned[1], list) and len(returned[1]) == 1 \
                and len(returned[1][0]) == 1 and returned[1][0][0][0] == "ERR"
            c.oblige("error-return-shape", ok, detail=repr(returned)[:200])
            c.oblige("error-only-when-nothing-matches", best == 0)
            c.oblige("no-token-on-error", tokens == [])
            if ok:
                loc = returned[1][0][0][1]
                c.oblige("error-location-is-the-next-character", z3.And(pyvc.zint(loc[1][0]) == ln, pyvc.zint(loc[1][1]) == off + 1, pyvc.zint(loc[2][0]) == ln,
                                                                          pyvc.zint(loc[2][1]) == off + 2), detail=repr(loc)[:200])
            return
        chosen = it.env["best_candidate"]
        if isinstance(chosen, str):
            c.oblige("a-candidate-was-chosen", chosen != "" and chosen in lits, detail=repr(chosen))
            if chosen not in lits:
                return
            w = lits.index(chosen)
            wlen, wsym, wtext = cands[w][2], '"' + chosen + '"', chosen
            c.oblige("chosen-literal-matches", lit_m[w])
        else:
            c.oblige("a-candidate-was-chosen", isinstance(chosen, GStr) and chosen.tag[0] == "match", detail=repr(chosen))
            if not (isinstance(chosen, GStr) and chosen.tag[0] == "match"):
                return
            j = chosen.tag[1]
            w = len(lits) + j
            wlen, wsym, wtext = cands[w][2], patterns[j].f["symbol"], chosen
            c.oblige("chosen-regex-matches", re_m[j])
        c.oblige("no-error-only-when-something-matches", best > 0)
        c.oblige("chosen-is-a-longest-match", wlen == best)
        c.oblige("ties-go-to-the-earliest-pattern", z3.And([cands[k][2] < wlen for k in range(w)]) if w else True)
        c.oblige("progress:offset-advances-by-the-match-length", pyvc.zint(it.env["offset"]) == off + wlen)
        c.oblige("progress:offset-strictly-increases-and-stays-inside-the-line", z3.And(pyvc.zint(it.env["offset"]) > off, pyvc.zint(it.env["offset"]) <= N))
        if wsym is None:
            c.oblige("no-token-for-a-None-symbol-pattern", tokens == [])
        else:
            okt = len(tokens) == 1 and tokens[0][0] == "TOK" and tokens[0][1] == wsym and tokens[0][2] is wtext
            c.oblige("one-token-with-the-winner's-symbol-and-text", okt, detail=repr(tokens)[:200])
            if okt:
                loc = tokens[0][3]
                c.oblige("token-location-is-the-matched-slice", z3.And(pyvc.zint(loc[1][0]) == ln, pyvc.zint(loc[1][1]) == off + 1, pyvc.zint(loc[2][0]) == ln,
                                                                     pyvc.zint(loc[2][1]) == off + wlen + 1), detail=repr(loc)[:200])
    paths = eng.explore(harness)
    return pyvc.collect(paths, "_tokenize_line.loop-body"), sum(1 for p in paths if p.covered)


def replay_line_loop(name, model):
    """Replay of a refuted loop-body obligation: the REAL _tokenize_line, with the module's two tables replaced by small
    concrete ones realising the abstract tables of the obligation (real `re` objects), on every line of length <= 6 over
    "ab x!", against a straightforward longest-match / first-wins reference."""
    import collections
    import re
    tk = importlib.import_module("compiler.front_end.tokenizer")
    m = re.search(r"literals=([^,\]]*),regexes=(\d),symbol-None-regex=(-?\d)", name)
    lits = tuple(m.group(1).split("|")) if m else ("ab", "a", "abc")
    nre, none_at = (int(m.group(2)), int(m.group(3))) if m else (3, 2)
    P = collections.namedtuple("P", ["regex", "symbol"])
    rx = [r"a+", r"[ab]+", r"[ab x]b?"][:nre]
    pats = [P(re.compile(r), None if j == none_at else "Sym%d" % j) for j, r in enumerate(rx)]
    saved = tk.LITERAL_TOKEN_PATTERNS, tk.REGEX_TOKEN_PATTERNS
    tk.LITERAL_TOKEN_PATTERNS, tk.REGEX_TOKEN_PATTERNS = lits, pats
    try:
        for n in range(1, 7):
            for chars in itertools.product("ab x!", repeat=n):
                line = "".join(chars)
                want, off, err = [], 0, None
                while off < len(line):
                    cs = [(l, '"' + l + '"') for l in lits if line.startswith(l, off)] + [(mm.group(0), p.symbol) for p in pats for mm in [p.regex.match(line[off:])] if mm]
                    best = max([len(t) for t, _ in cs] or [0])
                    if best == 0:
                        err = off
                        break
                    t, sym = [c for c in cs if len(c[0]) == best][0]
                    if sym is not None:
                        want.append((sym, t, (7, off + 1), (7, off + best + 1)))
                    off += best
                try:
                    toks, errs = tk._tokenize_line(line, 7, "f.emb")
                except Exception as e:          # noqa
                    return {"reproduced": True, "inputs": {"line": line, "literals": lits, "regexes": rx[:nre], "symbol_None_regex": none_at}, "got": "exception %r" % (e,)}
                if err is not None:
                    loc = errs[0][0].location if errs else None
                    good = toks is None and errs and (loc.start.line, loc.start.column, loc.end.line, loc.end.column) == (7, err + 1, 7, err + 2)
                    got = "tokens=%r errors=%r" % (toks, errs)
                else:
                    got = None if toks is None else [(t.symbol, t.text, (t.source_location.start.line, t.source_location.start.column), (t.source_location.end.line, t.source_location.end.column)) for t in toks]
                    good = got == want
                if not good:
                    return {"reproduced": True, "inputs": {"line": line, "literals": lits, "regexes": rx[:nre], "symbol_None_regex": none_at}, "got": repr(got)[:400], "expected": repr(want if err is None else "error at column %d" % (err + 1))[:400]}
    finally:
        tk.LITERAL_TOKEN_PATTERNS, tk.REGEX_TOKEN_PATTERNS = saved
    return {"reproduced": False, "note": "no line of length <= 6 over 'ab x!' with the concrete stand-in tables fails"}


TARGETS = {"line_loop": target_line_loop}
