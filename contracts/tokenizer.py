"""E1 slice contract on compiler/front_end/tokenizer._tokenize_line (C10): one iteration of its `while offset < len(line)`
loop, executed from a symbolic state (any line length, any offset inside the line, any line number), with Python's `re`
and `str.startswith` abstracted:

   literal i "matches at offset"      an uninterpreted boolean (if it does, the literal fits into the rest of the line)
   regex j matches at offset          an uninterpreted boolean and, if so, a match length 0 <= R_j <= len(line) - offset

and small pattern tables in place of the module's (the loop body treats every table entry alike; the tables of the real
module are compared with doc/grammar.md by the ground obligations of C09/C10).  Postcondition of the iteration:

   the candidate chosen is a LONGEST match, and among the longest the EARLIEST in (literals in order, then regexes in order)
   no candidate matches with positive length  ->  returns (None, [[error at columns offset+1 .. offset+2]]), appends no token
   otherwise  offset' = offset + length > offset  (progress, hence termination and: tokens never overlap);
              a token is appended iff the winner's symbol is not None, with symbol '"literal"' / the pattern's symbol, text =
              the matched text, location (line, offset+1) - (line, offset+length+1)

The whole-line statement (tokens in order, non-overlapping, covering everything but the None-symbol matches) is the
induction over iterations (paper step); the bounded comparison with a tokenizer built from the documented table grounds
the `re` abstraction."""
import ast
import importlib
import itertools

import z3

from vlib import core, pyvc
from vlib.pyvc import GObj, GStr, SBool, SInt, SRec

DOTTED = "compiler.front_end.tokenizer._tokenize_line"


def target_line_loop():
    tk = importlib.import_module("compiler.front_end.tokenizer")
    error = importlib.import_module("compiler.util.error")
    pt = importlib.import_module("compiler.util.parser_types")
    info = pyvc.load_function(DOTTED)
    loops = [n for n in ast.walk(info.node) if isinstance(n, ast.While)]
    if len(loops) != 1 or "offset < len(line)" not in ast.unparse(loops[0].test):
        raise core.CheckerError("anchor mismatch: expected one `while offset < len(line)` loop in _tokenize_line")
    loop = loops[0]
    # the names of the locals are read off the code (a renamed local is not a changed behaviour)
    V_OFFSET = loop.test.left.id if isinstance(loop.test, ast.Compare) and isinstance(loop.test.left, ast.Name) else None
    rets = [n for n in info.node.body if isinstance(n, ast.Return) and isinstance(n.value, ast.Tuple) and len(n.value.elts) == 2 and isinstance(n.value.elts[0], ast.Name)]
    params = [a.arg for a in info.node.args.args]
    if V_OFFSET is None or len(rets) != 1 or len(params) != 3:
        raise core.CheckerError("anchor mismatch: _tokenize_line(line, line_number, file_name) with `while <offset> < len(line)` and a final `return <tokens>, None` expected")
    V_TOKENS = rets[0].value.elts[0].id
    P_LINE, P_LINE_NUMBER, P_FILE = params
    eng = pyvc.Engine()
    eng.contract(error.error, lambda interp, f, loc, msg: ("ERR", loc, msg), "error.error")
    eng.contract(pt.SourceLocation, lambda interp, a, b, **k: ("LOC", a, b), "SourceLocation")
    eng.contract(pt.Token, lambda interp, sym, text, loc: ("TOK", sym, text, loc), "Token")

    def harness(c):
        lits = list(c.choice("literals", ["ab|a|abc", "a|ab", "abc|ab|a", "x"]).split("|"))
        nre = int(c.choice("regexes", ["1", "2", "3"]))
        none_at = int(c.choice("symbol-None-regex", [str(i) for i in range(nre)] + ["-1"]))
        N, off, ln = z3.Int("len_line"), z3.Int("offset"), z3.Int("line_number")
        c.assume(z3.And(off >= 0, off < N))
        lit_m = [z3.Bool("literal_%d_matches" % i) for i in range(len(lits))]
        re_m = [z3.Bool("regex_%d_matches" % j) for j in range(nre)]
        re_len = [z3.Int("regex_%d_length" % j) for j in range(nre)]
        for i, l in enumerate(lits):
            c.assume(z3.Implies(lit_m[i], len(l) <= N - off))
        for j in range(nre):
            c.assume(z3.And(re_len[j] >= 0, re_len[j] <= N - off))

        def startswith(interp, suffix, literal):
            if suffix.tag != ("suffix",) or literal not in lits:
                raise pyvc.Unsupported("startswith on something other than line[offset:] / a table literal")
            return SBool(lit_m[lits.index(literal)])

        def suffix(interp, s, lo):
            c.oblige("slices-start-at-the-current-offset", pyvc.zint(lo) == off)
            return GStr(N - off, tag=("suffix",), ops={"startswith": startswith})
        line = GStr(N, tag=("line",), ops={"suffix": suffix})

        def mk_match(j):
            def match(interp, obj, text):
                if not (isinstance(text, GStr) and text.tag == ("suffix",)):
                    raise pyvc.Unsupported("regex.match on something other than line[offset:]")
                if interp.ctx.branch(re_m[j]):
                    return GObj("match%d" % j, methods={"group": lambda interp2, o, idx=0: GStr(re_len[j], tag=("match", j))})
                return None
            return match
        patterns = [SRec("T", {"regex": GObj("re%d" % j, methods={"match": mk_match(j)}), "symbol": None if j == none_at else "Sym%d" % j}) for j in range(nre)]
        it = pyvc.Interp(c, info)
        tokens = []
        it.env = {P_LINE: line, P_LINE_NUMBER: SInt(ln), P_FILE: "f.emb", V_TOKENS: tokens, V_OFFSET: SInt(off),
                  "LITERAL_TOKEN_PATTERNS": tuple(lits), "REGEX_TOKEN_PATTERNS": patterns}
        c.covered = True
        returned = None
        try:
            it.block(loop.body)
        except pyvc._Return as r:
            returned = r.value
        # candidates in priority order with their (symbolic) match lengths
        cands = [("lit", i, z3.If(lit_m[i], z3.IntVal(len(l)), z3.IntVal(0))) for i, l in enumerate(lits)] + \
                [("re", j, z3.If(re_m[j], re_len[j], z3.IntVal(0))) for j in range(nre)]
        best = cands[0][2]
        for (_, _, ln_) in cands[1:]:
            best = z3.If(ln_ > best, ln_, best)
        if returned is not None:
            ok = isinstance(returned, tuple) and len(returned) == 2 and returned[0] is None and isinstance(returned[1], list) and len(returned[1]) == 1 \
                and len(returned[1][0]) == 1 and returned[1][0][0][0] == "ERR"
            c.oblige("error-return-shape", ok, detail=repr(returned)[:200])
            c.oblige("error-only-when-nothing-matches", best == 0)
            c.oblige("no-token-on-error", tokens == [])
            if ok:
                loc = returned[1][0][0][1]
                c.oblige("error-location-is-the-next-character", z3.And(pyvc.zint(loc[1][0]) == ln, pyvc.zint(loc[1][1]) == off + 1, pyvc.zint(loc[2][0]) == ln,
                                                                          pyvc.zint(loc[2][1]) == off + 2), detail=repr(loc)[:200])
            return
        # no error: the iteration consumed `adv` characters and appended at most one token; the winner is identified from
        # these observables only (not from the function's temporaries)
        adv = pyvc.zint(it.env[V_OFFSET]) - off
        c.oblige("no-error-only-when-something-matches", best > 0)
        c.oblige("progress:offset-advances-by-the-longest-match-length", adv == best)
        c.oblige("progress:offset-strictly-increases-and-stays-inside-the-line", z3.And(adv > 0, off + adv <= N))
        c.oblige("at-most-one-token-per-iteration", len(tokens) <= 1, detail=repr(tokens)[:200])

        def first_longest(w):
            return z3.And([cands[w][2] == best] + [cands[k][2] < best for k in range(w)])
        sym_of = ['"' + l + '"' for l in lits] + [p.f["symbol"] for p in patterns]
        if not tokens:
            silent = [w for w in range(len(cands)) if sym_of[w] is None]
            c.oblige("no-token-only-when-the-winner-has-no-symbol", z3.Or([first_longest(w) for w in silent]) if silent else False)
            return
        if len(tokens) != 1:
            return
        tok = tokens[0]
        okt = isinstance(tok, tuple) and tok[0] == "TOK"
        c.oblige("token-shape", okt, detail=repr(tok)[:200])
        if not okt:
            return
        text = tok[2]
        if isinstance(text, str) and text in lits:
            w = lits.index(text)
        elif isinstance(text, GStr) and text.tag[0] == "match":
            w = len(lits) + text.tag[1]
        else:
            c.oblige("token-text-is-the-matched-text", False, detail=repr(text)[:200])
            return
        c.oblige("chosen-candidate-matches-here", lit_m[w] if w < len(lits) else re_m[w - len(lits)])
        c.oblige("chosen-is-a-longest-match", cands[w][2] == best)
        c.oblige("ties-go-to-the-earliest-pattern", z3.And([cands[k][2] < cands[w][2] for k in range(w)]) if w else True)
        c.oblige("token-symbol-is-the-winner's", tok[1] == sym_of[w] and sym_of[w] is not None, detail="%r vs %r" % (tok[1], sym_of[w]))
        loc = tok[3]
        c.oblige("token-location-is-the-matched-slice", z3.And(pyvc.zint(loc[1][0]) == ln, pyvc.zint(loc[1][1]) == off + 1, pyvc.zint(loc[2][0]) == ln,
                                                             pyvc.zint(loc[2][1]) == off + cands[w][2] + 1), detail=repr(loc)[:200])
    paths = eng.explore(harness)
    obs = pyvc.collect(paths, "_tokenize_line.loop-body")
    # Frame (read-set) obligation behind the table abstraction: the contract replaces the module's two pattern tables by small
    # stand-ins, which is only sound while the loop body reads no OTHER module-level state (a second table derived from the
    # real ones, a helper that knows the real patterns).  If it does, nothing above may be counted as proved: undecided.
    import builtins
    local_names = {a.arg for a in info.node.args.args} | {n.id for n in ast.walk(info.node) if isinstance(n, ast.Name) and isinstance(n.ctx, (ast.Store, ast.Del))} \
        | {a.arg for n in ast.walk(info.node) if isinstance(n, ast.Lambda) for a in n.args.args}
    read = {n.id for st in loop.body for n in ast.walk(st) if isinstance(n, ast.Name) and isinstance(n.ctx, ast.Load)}
    other = sorted(x for x in read - local_names - {"LITERAL_TOKEN_PATTERNS", "REGEX_TOKEN_PATTERNS", "parser_types", "error"} if not hasattr(builtins, x))
    obs.append(core.Obligation("_tokenize_line.loop-body.frame:reads-no-module-state-but-the-two-pattern-tables", core.PROVED if not other else core.UNKNOWN, "syntactic", 0.0,
                               detail=("the loop body also reads %s: the stand-in tables of this contract no longer determine its behaviour, so the clauses above are not a proof of the real loop "
                                       "(the bounded comparison with the documented table decides)" % other) if other else "module-level names read: the two tables, parser_types, error"))
    return obs, sum(1 for p in paths if p.covered)


def replay_line_loop(name, model):
    """Replay of a refuted loop-body obligation: the REAL _tokenize_line, with the module's two tables replaced by small
    concrete ones realising the abstract tables of the obligation (real `re` objects), on every line of length <= 6 over
    "ab x!", against a straightforward longest-match / first-wins reference."""
    import collections
    import re
    tk = importlib.import_module("compiler.front_end.tokenizer")
    m = re.search(r"literals=([^,\]]*),regexes=(\d),symbol-None-regex=(-?\d)", name)
    lits = tuple(m.group(1).split("|")) if m else ("ab", "a", "abc")
    nre, none_at = (int(m.group(2)), int(m.group(3))) if m else (3, 2)
    P = collections.namedtuple("P", ["regex", "symbol"])
    rx = [r"a+", r"[ab]+", r"[ab x]b?"][:nre]
    pats = [P(re.compile(r), None if j == none_at else "Sym%d" % j) for j, r in enumerate(rx)]
    saved = tk.LITERAL_TOKEN_PATTERNS, tk.REGEX_TOKEN_PATTERNS
    tk.LITERAL_TOKEN_PATTERNS, tk.REGEX_TOKEN_PATTERNS = lits, pats
    try:
        for n in range(1, 7):
            for chars in itertools.product("ab x!", repeat=n):
                line = "".join(chars)
                want, off, err = [], 0, None
                while off < len(line):
                    cs = [(l, '"' + l + '"') for l in lits if line.startswith(l, off)] + [(mm.group(0), p.symbol) for p in pats for mm in [p.regex.match(line[off:])] if mm]
                    best = max([len(t) for t, _ in cs] or [0])
                    if best == 0:
                        err = off
                        break
                    t, sym = [c for c in cs if len(c[0]) == best][0]
                    if sym is not None:
                        want.append((sym, t, (7, off + 1), (7, off + best + 1)))
                    off += best
                try:
                    toks, errs = tk._tokenize_line(line, 7, "f.emb")
                except Exception as e:          # noqa
                    return {"reproduced": True, "inputs": {"line": line, "literals": lits, "regexes": rx[:nre], "symbol_None_regex": none_at}, "got": "exception %r" % (e,)}
                if err is not None:
                    loc = errs[0][0].location if errs else None
                    good = toks is None and errs and (loc.start.line, loc.start.column, loc.end.line, loc.end.column) == (7, err + 1, 7, err + 2)
                    got = "tokens=%r errors=%r" % (toks, errs)
                else:
                    got = None if toks is None else [(t.symbol, t.text, (t.source_location.start.line, t.source_location.start.column), (t.source_location.end.line, t.source_location.end.column)) for t in toks]
                    good = got == want
                if not good:
                    return {"reproduced": True, "inputs": {"line": line, "literals": lits, "regexes": rx[:nre], "symbol_None_regex": none_at}, "got": repr(got)[:400], "expected": repr(want if err is None else "error at column %d" % (err + 1))[:400]}
    finally:
        tk.LITERAL_TOKEN_PATTERNS, tk.REGEX_TOKEN_PATTERNS = saved
    return {"reproduced": False, "note": "no line of length <= 6 over 'ab x!' with the concrete stand-in tables fails"}


TARGETS = {"line_loop": target_line_loop}


def _tokenize_slices():
    info = pyvc.load_function("compiler.front_end.tokenizer.tokenize")
    body = info.node.body
    loops = [i for i, n in enumerate(body) if isinstance(n, ast.For) and ".splitlines()" in ast.unparse(n.iter) and isinstance(n.target, ast.Name)]
    if len(loops) != 1:
        raise core.CheckerError("anchor mismatch: expected one top-level `for <line> in text.splitlines()` loop in tokenize")
    loop, tail = body[loops[0]], body[loops[0] + 1:]
    # names of the locals, read off the code: the token list is what the function finally returns, the indentation stack is
    # the list initialised to [""], the line counter the variable initialised to 0 and incremented in the loop
    names = {"line": loop.target.id}
    for n in body[:loops[0]]:
        if isinstance(n, ast.Assign) and len(n.targets) == 1 and isinstance(n.targets[0], ast.Name):
            src = ast.unparse(n.value)
            if src in ("['']", '[""]'):
                names["indent_stack"] = n.targets[0].id
            elif src == "0":
                names["line_number"] = n.targets[0].id
    rets = [n for n in tail if isinstance(n, ast.Return) and isinstance(n.value, ast.Tuple) and len(n.value.elts) == 2 and isinstance(n.value.elts[0], ast.Name)]
    if rets:
        names["tokens"] = rets[-1].value.elts[0].id
    params = [a.arg for a in info.node.args.args]
    if len(params) == 2:
        names["text"], names["file_name"] = params
    missing = [k for k in ("line", "indent_stack", "line_number", "tokens", "text", "file_name") if k not in names]
    if missing:
        raise core.CheckerError("anchor mismatch: tokenize(): cannot identify %s" % missing)
    info.names = names
    return info, loop, tail


def target_indent_loop():
    """One iteration of the per-line loop of tokenizer.tokenize from a symbolic state: any line (length N, W leading
    whitespace characters), any open indentation stack of depth 1..4 that is a chain of strict prefixes starting at ""
    (the loop invariant; re-established here), any outcome of _tokenize_line (its contract: (None, errors) or a token list).
    String comparisons of the leading whitespace with stack entries are uninterpreted booleans constrained only by what
    holds of all strings (equal strings have equal lengths; a prefix is not longer; a prefix of equal length is equal;
    everything starts with "")."""
    tk = importlib.import_module("compiler.front_end.tokenizer")
    error = importlib.import_module("compiler.util.error")
    pt = importlib.import_module("compiler.util.parser_types")
    info, loop, tail = _tokenize_slices()
    eng = pyvc.Engine()
    eng.contract(error.error, lambda interp, f, loc, msg: ("ERR", loc, msg), "error.error")
    eng.contract(pt.SourceLocation, lambda interp, a, b, **k: ("LOC", a, b), "SourceLocation")
    eng.contract(pt.Token, lambda interp, sym, text, loc: SRec("Token", {"symbol": sym, "text": text, "source_location": loc}), "Token")

    def harness(c):
        d = int(c.choice("open-levels", ["1", "2", "3", "4"]))
        shape = c.choice("line-tokens", ["error", "", "C", "CC", "X", "XC", "CX", "XX"])
        N, W, ln = z3.Int("len_line"), z3.Int("leading_whitespace"), z3.Int("line_number")
        L = [z3.Int("open_%d_length" % i) for i in range(d)]
        e = [z3.Bool("lw_equals_open_%d" % i) for i in range(d)]
        p = z3.Bool("lw_startswith_top")
        c.assume(z3.And(W >= 0, W <= N, L[0] == 0, ln >= 0))
        for i in range(1, d):
            c.assume(L[i] > L[i - 1])
        for i in range(d):
            c.assume(z3.Implies(e[i], W == L[i]))
        c.assume(e[0] == (W == 0))
        c.assume(z3.And(z3.Implies(e[d - 1], p), z3.Implies(p, W >= L[d - 1]), z3.Implies(z3.And(p, W == L[d - 1]), e[d - 1])))
        # lower entries are prefixes of the top one: if the line's whitespace starts with the top entry it differs from them
        if d == 1:
            c.assume(p)
        stack0 = [GStr(L[i], tag=("open", i)) for i in range(d)]

        def lw_eq(interp, g, o):
            if isinstance(o, GStr) and o.tag[0] == "open":
                return SBool(e[o.tag[1]])
            raise pyvc.Unsupported("== of the leading whitespace with something that is not an open level")

        def lw_startswith(interp, g, o):
            if isinstance(o, GStr) and o.tag == ("open", d - 1):
                return SBool(p)
            raise pyvc.Unsupported("startswith of something that is not the innermost open level")

        def lw_slice(interp, g, lo, hi):
            c.oblige("indent-text-starts-after-the-enclosing-level", z3.And(hi is None, pyvc.zint(lo) == L[d - 1]) if hi is None else False)
            return GStr(W - L[d - 1], tag=("indent-text",))
        lw = GStr(W, tag=("lw",), ops={"eq": lw_eq, "startswith": lw_startswith, "slice": lw_slice})

        def line_slice(interp, g, lo, hi):
            c.oblige("leading-whitespace-is-the-part-lstrip-removes", z3.And(pyvc.zint(0 if lo is None else lo) == 0, pyvc.zint(hi) == W) if hi is not None else False)
            return lw
        line = GStr(N, tag=("line",), ops={"lstrip": lambda interp, g: GStr(N - W, tag=("stripped",)), "slice": line_slice})
        ltoks = [SRec("Token", {"symbol": "Comment" if ch == "C" else "SnakeWord", "text": "t%d" % i, "source_location": ("LOC", i)}) for i, ch in enumerate(shape)] if shape != "error" else None
        lerr = [["E"]] if shape == "error" else None
        eng.contract(tk._tokenize_line, lambda interp, l, n, f: (c.oblige("line-number-passed-on", pyvc.zint(n) == ln + 1), (ltoks, lerr))[1], "_tokenize_line")
        it = pyvc.Interp(c, info)
        tokens, stack = [], list(stack0)
        nm = info.names
        it.env = {nm["line"]: line, nm["line_number"]: SInt(ln), nm["file_name"]: "f.emb", nm["tokens"]: tokens, nm["indent_stack"]: stack, nm["text"]: "unused"}
        c.covered = True
        returned = "no"
        try:
            it.block(loop.body)
        except pyvc._Continue:
            pass
        except pyvc._Return as r:
            returned = r.value
        ln1 = ln + 1

        def is_loc(l, a, b, c_, d_):
            return z3.And(pyvc.zint(l[1][0]) == a, pyvc.zint(l[1][1]) == b, pyvc.zint(l[2][0]) == c_, pyvc.zint(l[2][1]) == d_)

        def tok_is(t, sym, text, loc4):
            if not (isinstance(t, SRec) and t.f["symbol"] == sym):
                return False
            tx = t.f["text"]
            if not ((tx == text) if isinstance(text, str) else (isinstance(tx, GStr) and tx.tag == text)):
                return False
            return is_loc(t.f["source_location"], *loc4)
        if shape == "error":
            c.oblige("line-errors-are-returned-and-nothing-else-happens", returned != "no" and returned[0] is None and returned[1] is lerr and tokens == [] and stack == stack0)
            return
        nl = (ln1, N + 1, ln1, N + 1)
        blank = all(ch == "C" for ch in shape)
        if blank:
            ok = returned == "no" and len(tokens) == len(ltoks) + 1 and all(a is b for a, b in zip(tokens, ltoks)) and stack == stack0
            c.oblige("blank-or-comment-line:tokens-then-newline,indentation-untouched", ok, detail=repr(tokens)[:200])
            if ok:
                c.oblige("newline-token-at-end-of-line", tok_is(tokens[-1], '"\\n"', "\n", nl))
            return
        some_eq = z3.Or(e)
        if returned != "no":
            okr = isinstance(returned, tuple) and returned[0] is None and len(returned[1]) == 1 and len(returned[1][0]) == 1 and returned[1][0][0][0] == "ERR" and returned[1][0][0][2] == "Bad indentation"
            c.oblige("error-return-shape", okr, detail=repr(returned)[:200])
            c.oblige("bad-indentation-only-when-no-open-level-matches", z3.And(z3.Not(p), z3.Not(some_eq)))
            if okr:
                c.oblige("bad-indentation-location-is-the-leading-whitespace", is_loc(returned[1][0][0][1], ln1, 1, ln1, W + 1))
            return
        # accepted line: [Indent | Dedent*] line tokens, newline
        k = len(tokens) - len(ltoks) - 1
        c.oblige("line-tokens-in-order-then-one-newline", k >= 0 and all(a is b for a, b in zip(tokens[k:], ltoks)), detail=repr(tokens)[:200])
        if k < 0:
            return
        c.oblige("newline-token-at-end-of-line", tok_is(tokens[-1], '"\\n"', "\n", nl))
        c.oblige("accepted-only-when-an-open-level-matches-or-extends", z3.Or(p, some_eq))
        pre = tokens[:k]
        if stack == stack0:
            c.oblige("same-indentation:no-Indent-no-Dedent", k == 0)
            c.oblige("same-indentation:whitespace-equals-innermost-level", e[d - 1])
        elif len(stack) == d + 1 and stack[:d] == stack0:
            c.oblige("deeper:exactly-one-Indent", k == 1 and stack[-1] is lw)
            c.oblige("deeper:whitespace-strictly-extends-innermost-level", z3.And(p, z3.Not(e[d - 1]), W > L[d - 1]))
            if k == 1:
                c.oblige("deeper:Indent-token-is-the-new-part-of-the-whitespace", tok_is(pre[0], "Indent", ("indent-text",), (ln1, L[d - 1] + 1, ln1, W + 1)), detail=repr(pre[0])[:200])
        elif len(stack) < d and stack == stack0[:len(stack)] and stack:
            i = len(stack) - 1
            c.oblige("shallower:one-Dedent-per-closed-level", k == d - 1 - i)
            c.oblige("shallower:whitespace-equals-the-level-returned-to", z3.And(e[i], z3.Not(p)))
            for t in pre:
                c.oblige("shallower:Dedent-tokens-are-empty-at-the-end-of-the-whitespace", tok_is(t, "Dedent", "", (ln1, W + 1, ln1, W + 1)), detail=repr(t)[:200])
        else:
            c.oblige("indentation-stack-changes-only-by-push-or-pop", False, detail="%d -> %d entries" % (d, len(stack)))
            return
        # loop invariant re-established: chain of strict prefixes whose top is this line's leading whitespace
        lens = [g.length for g in stack]
        c.oblige("invariant:open-levels-stay-a-strictly-growing-chain-from-the-empty-string", z3.And([lens[0] == 0] + [lens[j] > lens[j - 1] for j in range(1, len(lens))]))
        c.oblige("invariant:balance(open-levels-1==Indents-Dedents)", len(stack) - d == sum(1 for t in pre if t.f["symbol"] == "Indent") - sum(1 for t in pre if t.f["symbol"] == "Dedent"))
    paths = eng.explore(harness)
    return pyvc.collect(paths, "tokenize.line-loop-body"), sum(1 for p in paths if p.covered)


def target_final_dedents():
    """The statements after the per-line loop of tokenizer.tokenize: one empty Dedent at (last line + 1, 1) per level still
    open (so Indent and Dedent tokens balance, with the balance invariant of the loop body), and (tokens, [])."""
    error = importlib.import_module("compiler.util.error")
    pt = importlib.import_module("compiler.util.parser_types")
    info, loop, tail = _tokenize_slices()
    eng = pyvc.Engine()
    eng.contract(pt.SourceLocation, lambda interp, a, b, **k: ("LOC", a, b), "SourceLocation")
    eng.contract(pt.Token, lambda interp, sym, text, loc: SRec("Token", {"symbol": sym, "text": text, "source_location": loc}), "Token")

    def harness(c):
        d = int(c.choice("open-levels", ["1", "2", "3", "4", "5"]))
        ln = z3.Int("line_number")
        marker = SRec("Token", {"symbol": "X", "text": "x", "source_location": None})
        tokens = [marker]
        it = pyvc.Interp(c, info)
        nm = info.names
        it.env = {nm["tokens"]: tokens, nm["indent_stack"]: [GStr(z3.Int("l%d" % i), tag=("open", i)) for i in range(d)], nm["line_number"]: SInt(ln), nm["file_name"]: "f.emb"}
        c.covered = True
        returned = None
        try:
            it.block(tail)
        except pyvc._Return as r:
            returned = r.value
        ok = isinstance(returned, tuple) and len(returned) == 2 and returned[0] is tokens and returned[1] == []
        c.oblige("returns-the-tokens-and-no-errors", ok, detail=repr(returned)[:200])
        c.oblige("one-Dedent-per-level-still-open", len(tokens) == 1 + (d - 1) and tokens[0] is marker)
        for t in tokens[1:]:
            c.oblige("final-Dedents-are-empty-at-the-line-after-the-last", z3.And(t.f["symbol"] == "Dedent", t.f["text"] == "", pyvc.zint(t.f["source_location"][1][0]) == ln + 1, pyvc.zint(t.f["source_location"][1][1]) == 1,
                                                                               pyvc.zint(t.f["source_location"][2][0]) == ln + 1, pyvc.zint(t.f["source_location"][2][1]) == 1))
    paths = eng.explore(harness)
    return pyvc.collect(paths, "tokenize.final-dedents"), sum(1 for p in paths if p.covered)


def replay_tokenize(name, model):
    """Replay of a refuted tokenize() slice obligation: the REAL tokenize on every text of length <= 7 over " \tx#\n" (and
    <= 5 with a second kind of whitespace), checked with the invariants of the property (props/C10.check_text)."""
    from props import C10
    for alphabet, n in ((" x#\n", 7), (" \tx\n", 8)):
        for k in range(0, n + 1):
            for chars in itertools.product(alphabet, repeat=k):
                text = "".join(chars)
                why = C10.check_text(text)
                if why is not None:
                    return {"reproduced": True, "inputs": {"text": text}, "why": why}
    return {"reproduced": False, "note": "no text of length <= 7 over ' x#\\n' fails the invariants"}


TARGETS.update({"indent_loop": target_indent_loop, "final_dedents": target_final_dedents})
