"""CPython side of the C05 contracts: replay of counter-models on the real functions and the
random concrete cross-check of the symbolic engine (DESIGN 2.1 "engine self-validation").

Everything here runs the *real* code object of the imported module on *real* ir_data nodes."""
import importlib
import math
import random
import re

INF, NINF = "infinity", "-infinity"


def _mods():
    return (importlib.import_module("compiler.front_end.expression_bounds"),
            importlib.import_module("compiler.util.ir_data"),
            importlib.import_module("compiler.util.ir_util"))


# -- concrete gamma / INV ----------------------------------------------------------


def inv_failures(t):
    """Clauses of INV violated by an IntegerType-like object with str fields."""
    out = []
    for fld in ("modulus", "modular_value", "minimum_value", "maximum_value"):
        if not isinstance(getattr(t, fld), str) or not getattr(t, fld):
            return ["shape:set-" + fld]

    def canon(s):
        return re.fullmatch(r"-?[0-9]+", s) is not None and str(int(s)) == s
    if not canon(t.modular_value):
        out.append("shape:kind-modular_value")
    if not (canon(t.modulus) or t.modulus == INF):
        out.append("shape:kind-modulus")
    if not (canon(t.minimum_value) or t.minimum_value == NINF):
        out.append("shape:kind-minimum")
    if not (canon(t.maximum_value) or t.maximum_value == INF):
        out.append("shape:kind-maximum")
    if out:
        return out
    mv = int(t.modular_value)
    if t.modulus == INF:
        if t.minimum_value != t.modular_value:
            out.append("inv:const-min")
        if t.maximum_value != t.modular_value:
            out.append("inv:const-max")
        return out
    m = int(t.modulus)
    if m <= 0:
        return ["inv:modulus>0"]
    if not 0 <= mv < m:
        out.append("inv:0<=mv<modulus")
    if t.minimum_value != NINF and (int(t.minimum_value) - mv) % m:
        out.append("inv:min-congruent")
    if t.maximum_value != INF and (int(t.maximum_value) - mv) % m:
        out.append("inv:max-congruent")
    if t.minimum_value != NINF and t.maximum_value != INF and not int(t.minimum_value) < int(t.maximum_value):
        out.append("inv:min<max")
    return out


def gamma_failures(t, value):
    out = []
    if t.minimum_value != NINF and not int(t.minimum_value) <= value:
        out.append("sound:min")
    if t.maximum_value != INF and not value <= int(t.maximum_value):
        out.append("sound:max")
    if t.modulus == INF:
        if value != int(t.modular_value):
            out.append("sound:constant")
    elif int(t.modulus) > 0 and (value - int(t.modular_value)) % int(t.modulus):
        out.append("sound:congruent")
    return out


# -- building real IR --------------------------------------------------------------


def mk_integer_expr(ir_data, lo, hi, mod, mv):
    return ir_data.Expression(type=ir_data.ExpressionType(integer=ir_data.IntegerType(
        modulus=str(mod), modular_value=str(mv), minimum_value=str(lo), maximum_value=str(hi))))


def operand_from_model(ir_data, name, shape, model):
    g = lambda k, d=0: int(model.get(name + "_" + k, d))
    mv = g("mv")
    if shape == "const":
        return mk_integer_expr(ir_data, mv, mv, INF, mv), mv
    M = g("mod", 1)
    lo = g("min") if shape in ("fin[n,n]", "fin[n,inf]") else NINF
    hi = g("max") if shape in ("fin[n,n]", "fin[-inf,n]") else INF
    return mk_integer_expr(ir_data, lo, hi, M, mv), g("val", mv)


def near_operand(ir_data, rng, other):
    """An operand whose bounds lie within a few units of `other`'s (finite) bounds: near-equal large bounds are where
    comparisons done in floating point, or through string forms, go wrong."""
    t = other.type.integer
    lo, hi = int(t.minimum_value), int(t.maximum_value)
    lo2 = lo + rng.choice([-2, -1, 0, 1, 2])
    hi2 = max(lo2, hi + rng.choice([-2, -1, 0, 1, 2]))
    v = rng.choice([lo2, hi2, rng.randint(lo2, hi2)])
    if lo2 == hi2:
        return mk_integer_expr(ir_data, v, v, INF, v), v, "const"        # INV: a single value is a constant (modulus infinity)
    return mk_integer_expr(ir_data, lo2, hi2, 1, 0), v, "fin[n,n]"


def random_operand(ir_data, rng, shape=None):
    shape = shape or rng.choice(["const", "fin[n,n]", "fin[-inf,n]", "fin[n,inf]", "fin[-inf,inf]"])
    big = rng.choice([3, 20, 300, 2 ** 33, 2 ** 70])
    if shape == "const":
        v = rng.randint(-big, big)
        return mk_integer_expr(ir_data, v, v, INF, v), v, shape
    M = rng.choice([1, 1, 2, 3, 4, 6, 8, 12, rng.randint(1, 50)])
    mv = rng.randrange(M)
    klo = rng.randint(-big, big) // M
    khi = klo + rng.randint(1, max(1, big // M + 1))
    k = rng.randint(klo, khi)
    lo = mv + klo * M if shape in ("fin[n,n]", "fin[n,inf]") else NINF
    hi = mv + khi * M if shape in ("fin[n,n]", "fin[-inf,n]") else INF
    return mk_integer_expr(ir_data, lo, hi, M, mv), mv + k * M, shape


def parse_label(name):
    m = re.search(r"\[(.*)\]\.", name)
    if not m:
        return {}
    out = {}
    for part in re.findall(r"([A-Za-z0-9_]+)=((?:fin\[[^\]]*\])|[^,]*)", m.group(1)):
        out[part[0]] = part[1]
    return out


# -- replay of a refuted obligation ------------------------------------------------


def replay(ob_name, model):
    """Runs the real function on the model's input.  Returns a dict with reproduced: bool."""
    eb, ir_data, ir_util = _mods()
    model = model or {}
    lab = parse_label(ob_name)
    clause = ob_name.rsplit("].", 1)[-1] if "]." in ob_name else ob_name.rsplit(".", 1)[-1]
    fam = ob_name.split("[", 1)[0].split(".")[0]
    FM = ir_data.FunctionMapping
    try:
        if fam in ("additive", "multiplicative", "choice", "maximum", "bound"):
            return _replay_transfer(fam, lab, model, clause, eb, ir_data, FM)
        if fam == "constant_folding":
            return _replay_folding(lab, model, ir_data, ir_util, FM)
        if fam in ("_add", "_sub", "_mul", "_sign", "_is_infinite", "_max", "_min", "_greatest_common_divisor"):
            return _replay_helper(fam, lab, model, eb)
    except Exception as e:  # replay machinery problem: not reproduced, say why
        return {"reproduced": False, "error": "%s: %s" % (type(e).__name__, e)}
    return {"reproduced": False, "error": "no replay harness for " + fam}


def _run_transfer(fam, args_exprs, op, eb, ir_data):
    e = ir_data.Expression(function=ir_data.Function(function=op, args=args_exprs),
                           type=ir_data.ExpressionType(integer=ir_data.IntegerType()))
    fn = {"additive": eb._compute_constraints_of_additive_operator,
          "multiplicative": eb._compute_constraints_of_multiplicative_operator,
          "choice": eb._compute_constraints_of_choice_operator,
          "maximum": eb._compute_constraints_of_maximum_function,
          "bound": eb._compute_constraints_of_bound_function}[fam]
    fn(e)
    return e.type.integer


def _replay_transfer(fam, lab, model, clause, eb, ir_data, FM):
    if fam == "additive":
        op = getattr(FM, lab["op"])
        l, lv = operand_from_model(ir_data, "L", lab["L"], model)
        r, rv = operand_from_model(ir_data, "R", lab["R"], model)
        args, value = [l, r], (lv + rv if lab["op"] == "ADDITION" else lv - rv)
    elif fam == "multiplicative":
        op = FM.MULTIPLICATION
        l, lv = operand_from_model(ir_data, "L", lab["L"], model)
        r, rv = operand_from_model(ir_data, "R", lab["R"], model)
        args, value = [l, r], lv * rv
    elif fam == "choice":
        op = FM.CHOICE
        if lab.get("type", "integer") != "integer":
            return {"reproduced": False, "error": "non-integer choice replay not implemented"}
        cond = ir_data.Expression(type=ir_data.ExpressionType(boolean=ir_data.BooleanType(
            value={"true": True, "false": False}.get(lab["cond"]))))
        t, tv = operand_from_model(ir_data, "T", lab["T"], model)
        f, fv = operand_from_model(ir_data, "F", lab["F"], model)
        args, value = [cond, t, f], (tv if lab["taken"] == "T" else fv)
    elif fam == "maximum":
        op = FM.MAXIMUM
        n = int(lab["arity"])
        ops = [operand_from_model(ir_data, "A%d" % i, lab["A%d" % i], model) for i in range(n)]
        args, value = [o[0] for o in ops], max(o[1] for o in ops)
    else:
        op = getattr(FM, lab["op"])
        a, av = operand_from_model(ir_data, "A", lab["A"], model)
        args = [a]
        value = int(a.type.integer.maximum_value if lab["op"] == "UPPER_BOUND" else a.type.integer.minimum_value)
    pre = [x for a in args if a.type.integer is not None for x in inv_failures(a.type.integer)]
    if pre:
        return {"reproduced": False, "error": "model violates the precondition INV: %s" % pre}
    inputs = [str(a.type) for a in args]
    try:
        res = _run_transfer(fam, args, op, eb, ir_data)
    except Exception as e:
        return {"reproduced": True, "inputs": inputs, "value": value,
                "observed": "real function raised %s: %s" % (type(e).__name__, e)}
    fails = inv_failures(res)
    if not any(f.startswith("shape") for f in fails):
        fails += gamma_failures(res, value)
    return {"reproduced": bool(fails), "inputs": inputs, "value": str(value), "result": str(res),
            "failed_clauses": fails, "clause_refuted_symbolically": clause}


def _replay_folding(lab, model, ir_data, ir_util, FM):
    op = lab["f"]
    sig = lab["sig"].split(",") if "sig" in lab else []
    # the label parser splits "sig=int,int" badly; recover arity from a<i> entries
    n = len([k for k in lab if re.fullmatch(r"a\d", k)])
    args = []
    for i in range(n):
        known = lab["a%d" % i] == "known"
        if "v%d" % i in model or ("b%d" % i not in model):
            v = int(model.get("v%d" % i, 0))
            e = ir_data.Expression(constant=ir_data.NumericConstant(value=str(v))) if known else \
                ir_data.Expression(field_reference=ir_data.FieldReference())
        if "b%d" % i in model:
            e = ir_data.Expression(boolean_constant=ir_data.BooleanConstant(value=bool(model["b%d" % i]))) if known else \
                ir_data.Expression(field_reference=ir_data.FieldReference())
        args.append(e)
    fn = ir_data.Function(function=getattr(FM, op), args=args)
    try:
        got = ir_util._constant_value_of_function(fn, None)
    except Exception as e:
        return {"reproduced": True, "inputs": str(fn), "observed": "raised %s: %s" % (type(e).__name__, e)}
    return {"reproduced": False, "inputs": str(fn), "observed": repr(got),
            "note": "no exception; value comparison is left to the symbolic verdict"}


def _ref_ext(v):
    if v in (INF, NINF):
        return v
    return int(v)


def _replay_helper(fam, lab, model, eb):
    args = []
    i = 0
    while "a%d" % i in lab:
        k = lab["a%d" % i]
        v = int(model.get("a%d" % i, 0))
        args.append({"int": v, "numstr": str(v), "inf": INF, "-inf": NINF}[k])
        i += 1
    fn = getattr(eb, fam)
    call_args = [args] if fam in ("_max", "_min") else args
    try:
        got = fn(*call_args)
    except Exception as e:
        return {"reproduced": True, "inputs": repr(call_args), "observed": "raised %s: %s" % (type(e).__name__, e)}
    want = REF[fam](*call_args)
    return {"reproduced": got != want or type(got) is not type(want), "inputs": repr(call_args),
            "observed": repr(got), "expected": repr(want)}


def _r_add(a, b):
    a, b = _ref_ext(a), _ref_ext(b)
    if isinstance(a, str):
        return a
    if isinstance(b, str):
        return b
    return a + b


def _neg(b):
    b = _ref_ext(b)
    return {INF: NINF, NINF: INF}.get(b, -b if not isinstance(b, str) else b)


def _r_sign(a):
    a = _ref_ext(a)
    if a == INF:
        return 1
    if a == NINF:
        return -1
    return (a > 0) - (a < 0)


def _r_mul(a, b):
    ea, eb_ = _ref_ext(a), _ref_ext(b)
    if isinstance(ea, str) or isinstance(eb_, str):
        s = _r_sign(a) * _r_sign(b)
        return INF if s > 0 else NINF if s < 0 else 0
    return ea * eb_


def _r_max(a):
    a = [_ref_ext(x) for x in a]
    if INF in a:
        return INF
    f = [x for x in a if not isinstance(x, str)]
    return max(f) if f else NINF


def _r_min(a):
    a = [_ref_ext(x) for x in a]
    if NINF in a:
        return NINF
    f = [x for x in a if not isinstance(x, str)]
    return min(f) if f else INF


def _r_gcd(a, b):
    a = a if a == INF else int(a)
    b = b if b == INF else int(b)
    if a == INF and b == INF:
        return INF
    if a == INF:
        return INF if b == 0 else b
    if b == INF:
        return INF if a == 0 else a
    if a == 0 and b == 0:
        return INF
    return math.gcd(a, b)


REF = {"_add": _r_add, "_sub": lambda a, b: _r_add(a, _neg(b)), "_mul": _r_mul, "_sign": _r_sign,
       "_is_infinite": lambda a: a in (INF, NINF), "_max": _r_max, "_min": _r_min,
       "_greatest_common_divisor": _r_gcd}


# -- random concrete cross-check ---------------------------------------------------


def cross_check(seed, n):
    """n random concrete runs of each transfer function on INV-satisfying operands; returns
    (runs, failures) where a failure is a concrete post-condition violation (or exception)."""
    eb, ir_data, ir_util = _mods()
    FM = ir_data.FunctionMapping
    rng = random.Random(seed)
    runs, fails, samples = 0, [], []
    for i in range(n):
        fam = rng.choice(["additive", "multiplicative", "choice", "maximum", "bound"])
        try:
            if fam in ("additive", "multiplicative"):
                l, lv, _ = random_operand(ir_data, rng)
                r, rv, _ = random_operand(ir_data, rng)
                if fam == "additive":
                    opn = rng.choice(["ADDITION", "SUBTRACTION"])
                    op, value = getattr(FM, opn), (lv + rv if opn == "ADDITION" else lv - rv)
                else:
                    op, value = FM.MULTIPLICATION, lv * rv
                args = [l, r]
            elif fam == "choice":
                cv = rng.choice([None, True, False])
                cond = ir_data.Expression(type=ir_data.ExpressionType(boolean=ir_data.BooleanType(value=cv)))
                t, tv, tshape = random_operand(ir_data, rng)
                f, fv, _ = near_operand(ir_data, rng, t) if tshape == "fin[n,n]" and rng.random() < 0.5 else random_operand(ir_data, rng)
                taken = cv if cv is not None else rng.choice([True, False])
                op, args, value = FM.CHOICE, [cond, t, f], (tv if taken else fv)
            elif fam == "maximum":
                ops = [random_operand(ir_data, rng) for _ in range(rng.randint(1, 4))]
                if ops[0][2] == "fin[n,n]" and rng.random() < 0.5:
                    ops = [ops[0]] + [near_operand(ir_data, rng, ops[0][0]) for _ in ops[1:]] + [near_operand(ir_data, rng, ops[0][0])]
                op, args, value = FM.MAXIMUM, [o[0] for o in ops], max(o[1] for o in ops)
            else:
                a, av, shape = random_operand(ir_data, rng, rng.choice(["const", "fin[n,n]"]))
                opn = rng.choice(["UPPER_BOUND", "LOWER_BOUND"])
                op, args = getattr(FM, opn), [a]
                value = int(a.type.integer.maximum_value if opn == "UPPER_BOUND" else a.type.integer.minimum_value)
            inputs = [str(a.type).replace("\n", " ") for a in args]
            res = _run_transfer(fam, args, op, eb, ir_data)
            bad = inv_failures(res)
            if not any(b.startswith("shape") for b in bad):
                bad += gamma_failures(res, value)
            runs += 1
            if bad:
                fails.append({"family": fam, "inputs": inputs, "value": str(value), "result": str(res), "failed": bad})
            elif len(samples) < 3:
                samples.append({"family": fam, "inputs": inputs, "value": str(value), "result": str(res).replace("\n", " ")})
        except Exception as e:
            runs += 1
            fails.append({"family": fam, "exception": "%s: %s" % (type(e).__name__, e)})
    return runs, fails, samples
