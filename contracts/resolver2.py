"""E1 contracts on the rest of compiler/front_end/symbol_resolver (C12): how the scope tables are BUILT and which scopes are
VISIBLE from a place - the two inputs of the scope search proved in contracts/resolver.py.

   _nested_name                               canonical name of a nested definition = parent path + [name], same module
   _add_struct_field_to_scope                 field name LOCAL; abbreviation PRIVATE and bound to the FIELD's canonical name;
                                              `this` PRIVATE inside the field's own scope, bound to the field
   _add_type_name_to_scope / _add_enum_value_to_scope / _add_parameter_name_to_scope
                                              SEARCHABLE / LOCAL / LOCAL, canonical name nested in the enclosing scope
   _add_alias_to_scope / _add_import_to_scope import aliases: stored in the scope the path designates, SEARCHABLE, duplicate
                                              -> one error and the first definition stays; the prelude import adds nothing
   _set_visible_scopes_for_type_definition    innermost first: (own scope,) + enclosing scopes in their order
   _set_visible_scopes_for_module             module's own scope, then ONLY the anonymously imported modules, in order
   _set_visible_scopes_for_attribute          attributes on a field see the field's scope first; others leave scopes alone
   _resolve_reference                         resolved references untouched; else bound to exactly the target found
   _set_scope_for_type_definition / _set_scope_for_module / _add_module_to_scope / _module_source_from_table_action
                                              table plumbing of the traversals

Scope tables are ghost dicts (presence of a name symbolic); IR nodes are ghost records that hold only what the function may
read.  `_Scope(...)`, `ir_data.CanonicalName(...)`, `ir_data.Word(...)` constructors are modelled by records of their
arguments; error constructors by tagged tuples of their arguments."""
import importlib

import z3

from vlib import core, pyvc
from vlib.pyvc import GDict, SBool, SRec

SR = "compiler.front_end.symbol_resolver"


def _engine():
    sr = importlib.import_module(SR)
    ir_data = importlib.import_module("compiler.util.ir_data")
    ir_data_utils = importlib.import_module("compiler.util.ir_data_utils")
    parser_types = importlib.import_module("compiler.util.parser_types")
    eng = pyvc.Engine()
    eng.contract(sr.duplicate_name_error, lambda interp, f, loc, name, original: ("DUPLICATE", f, loc, name, original), "duplicate_name_error")
    eng.contract(sr.FileLocation, lambda interp, f, loc: ("FILELOC", f, loc), "FileLocation")
    eng.contract(sr._Scope, lambda interp, cn, loc, vis, alias=None: GDict({"this": False}, {}, truthy=False, label="new-scope",
                                                                         attrs={"canonical_name": cn, "source_location": loc, "visibility": vis, "alias": alias}), "_Scope(...)")
    eng.contract(ir_data.CanonicalName, lambda interp, **kw: SRec("CanonicalName", kw, {"object_path": []}), "ir_data.CanonicalName")
    eng.contract(ir_data.Word, lambda interp, **kw: SRec("Word", kw), "ir_data.Word")
    eng.contract(parser_types.SourceLocation, lambda interp, *a, **kw: ("SRCLOC", a, tuple(sorted(kw.items()))), "parser_types.SourceLocation")
    eng.identity(ir_data_utils.builder)
    return sr, eng


def _cn(mod, *path):
    return SRec("CanonicalName", {"module_file": mod, "object_path": list(path)}, {"object_path": []})


def _cn_eq(v, mod, path):
    return isinstance(v, SRec) and v.typename == "CanonicalName" and v.f.get("module_file") == mod and list(v.f.get("object_path", [])) == list(path)


def _scope(sr, label, cn, present, entries, vis="SEARCHABLE"):
    return GDict(present, entries, truthy=True, label=label, attrs={"canonical_name": cn, "source_location": ("LOC", label), "visibility": getattr(sr._Scope, vis), "alias": None})


def _name_ir(text):
    return SRec("NameDefinition", {"name": SRec("Word", {"text": text, "source_location": ("LOC", text)}), "canonical_name": SRec("CanonicalName", {})})


def _is_new(got, sr, vis, mod, path, loc, alias=None):
    return (isinstance(got, GDict) and got.label == "new-scope" and _cn_eq(got.attrs["canonical_name"], mod, path) and got.attrs["visibility"] is getattr(sr._Scope, vis)
            and got.attrs["source_location"] == loc and got.attrs["alias"] == alias)


def target_nested_name():
    sr, eng = _engine()

    def harness(c):
        depth = int(c.choice("depth", ["0", "1", "2", "3"]))
        parent = _cn("m.emb", *["T%d" % i for i in range(depth)])
        before = list(parent.f["object_path"])
        c.covered = True
        st, got = pyvc.run_body(c, SR + "._nested_name", [parent, "leaf"])
        c.oblige("parent-path-plus-name-same-module", _cn_eq(got, "m.emb", before + ["leaf"]), detail=repr(got.f if isinstance(got, SRec) else got))
        c.oblige("frame:parent-name-not-modified", parent.f["object_path"] == before and got.f["object_path"] is not parent.f["object_path"])
    paths = eng.explore(harness)
    return pyvc.collect(paths, "_nested_name"), sum(1 for p in paths if p.covered)


def target_add_struct_field():
    sr, eng = _engine()

    def harness(c):
        has_abbr = c.choice("abbreviation", ["no", "yes"]) == "yes"
        depth = int(c.choice("enclosing-depth", ["1", "2"]))
        encl = ["Outer", "Inner"][:depth]
        p_name, p_abbr = z3.Bool("field_name_already_in_scope"), z3.Bool("abbreviation_already_in_scope")
        first_f = GDict({}, {}, truthy=False, label="first-f", attrs={"canonical_name": _cn("m.emb", *(encl + ["field"])), "source_location": ("LOC", "first-f"), "visibility": sr._Scope.LOCAL, "alias": None})
        first_a = GDict({}, {}, truthy=False, label="first-a", attrs={"canonical_name": _cn("m.emb", *(encl + ["other"])), "source_location": ("LOC", "first-a"), "visibility": sr._Scope.PRIVATE, "alias": None})
        bystander = GDict({}, {}, truthy=False, label="bystander", attrs={})
        scope = _scope(sr, "struct-scope", _cn("m.emb", *encl), {"field": SBool(p_name), "fl": SBool(p_abbr), "zz": True, "this": False}, {"field": first_f, "fl": first_a, "zz": bystander})
        fields = {"name": _name_ir("field")}
        if has_abbr:
            fields["abbreviation"] = SRec("Word", {"text": "fl", "source_location": ("LOC", "fl")})
        else:
            fields["has:abbreviation"] = False
        field = SRec("Field", fields)
        errors = []
        c.covered = True
        st, got = pyvc.run_body(c, SR + "._add_struct_field_to_scope", [field, scope, errors])
        want = encl + ["field"]
        c.oblige("field-gets-canonical-name-nested-in-the-structure", _cn_eq(field.f["name"].f["canonical_name"], "m.emb", want), detail=repr(field.f["name"].f["canonical_name"].f))
        c.oblige("frame:no-other-name-written", scope.entries["zz"] is bystander and scope.present["zz"] is True and set(scope.entries) == {"field", "fl", "zz"} and scope.present["this"] is False,
                 detail=repr(sorted(scope.entries)))
        exp_errors = []
        # the field's own name
        if scope.entries["field"] is first_f:
            c.oblige("duplicate-field-name:first-definition-stays", p_name)
            exp_errors.append(("DUPLICATE", "m.emb", ("LOC", "field"), "field", ("FILELOC", "m.emb", ("LOC", "first-f"))))
            fscope = None
        else:
            fscope = scope.entries["field"]
            c.oblige("field-name-is-LOCAL-with-its-canonical-name", z3.And(z3.Not(p_name), z3.BoolVal(_is_new(fscope, sr, "LOCAL", "m.emb", want, ("LOC", "field")))), detail=repr(fscope))
        # the abbreviation: PRIVATE, and it names the FIELD (canonical name of the field, not of the abbreviation)
        if has_abbr:
            if scope.entries["fl"] is first_a:
                c.oblige("duplicate-abbreviation:first-definition-stays", p_abbr)
                exp_errors.append(("DUPLICATE", "m.emb", ("LOC", "fl"), "fl", ("FILELOC", "m.emb", ("LOC", "first-a"))))
            else:
                c.oblige("abbreviation-is-PRIVATE-and-names-the-field", z3.And(z3.Not(p_abbr), z3.BoolVal(_is_new(scope.entries["fl"], sr, "PRIVATE", "m.emb", want, ("LOC", "fl")))), detail=repr(scope.entries["fl"]))
        else:
            c.oblige("no-abbreviation:nothing-stored-under-it", scope.entries["fl"] is first_a and scope.present["fl"].t is p_abbr if isinstance(scope.present["fl"], SBool) else False)
        c.oblige("exactly-the-duplicate-errors-in-source-order", errors == exp_errors, detail=repr(errors))
        # `this`, inside the field's own scope (the scope object the function created, stored or not)
        inner = [v for v in ([fscope] if fscope is not None else [])]
        if fscope is not None:
            t = fscope.entries.get("this")
            c.oblige("this-is-PRIVATE-inside-the-field-and-names-the-field", fscope.present.get("this") is True and _is_new(t, sr, "PRIVATE", "m.emb", want, t.attrs["source_location"] if isinstance(t, GDict) else None)
                     and set(fscope.entries) == {"this"}, detail=repr(t))
    paths = eng.explore(harness)
    return pyvc.collect(paths, "_add_struct_field_to_scope"), sum(1 for p in paths if p.covered)


def target_add_simple_names():
    """_add_type_name_to_scope (SEARCHABLE, returns {"scope": new}), _add_enum_value_to_scope, _add_parameter_name_to_scope (LOCAL)."""
    sr, eng = _engine()
    table = {"_add_type_name_to_scope": ("SEARCHABLE", True), "_add_enum_value_to_scope": ("LOCAL", False), "_add_parameter_name_to_scope": ("LOCAL", False)}

    def harness(c):
        fn = c.choice("f", sorted(table))
        vis, returns_scope = table[fn]
        depth = int(c.choice("enclosing-depth", ["0", "1", "2"]))
        encl = ["Outer", "Inner"][:depth]
        present = z3.Bool("name_already_in_scope")
        first = GDict({}, {}, truthy=False, label="first", attrs={"canonical_name": _cn("first.emb", "x"), "source_location": ("LOC", "first"), "visibility": sr._Scope.LOCAL, "alias": None})
        bystander = GDict({}, {}, truthy=False, label="bystander", attrs={})
        scope = _scope(sr, "scope", _cn("m.emb", *encl), {"x": SBool(present), "zz": True}, {"x": first, "zz": bystander})
        node = SRec("Node", {"name": _name_ir("x")})
        errors = []
        c.covered = True
        st, got = pyvc.run_body(c, SR + "." + fn, [node, scope, errors])
        c.oblige("canonical-name-nested-in-the-enclosing-scope", _cn_eq(node.f["name"].f["canonical_name"], "m.emb", encl + ["x"]), detail=repr(node.f["name"].f["canonical_name"].f))
        c.oblige("frame:no-other-name-written", scope.entries["zz"] is bystander and set(scope.entries) == {"x", "zz"})
        if scope.entries["x"] is first:
            c.oblige("duplicate:one-error-first-definition-stays", z3.And(present, z3.BoolVal(errors == [("DUPLICATE", "m.emb", ("LOC", "x"), "x", ("FILELOC", "first.emb", ("LOC", "first")))])), detail=repr(errors))
            new = got["scope"] if returns_scope and isinstance(got, dict) else None
        else:
            new = scope.entries["x"]
            c.oblige("stored-with-the-documented-visibility", z3.And(z3.Not(present), z3.BoolVal(_is_new(new, sr, vis, "m.emb", encl + ["x"], ("LOC", "x")) and errors == [])), detail=repr(new))
        if returns_scope:
            c.oblige("returns-the-new-scope-as-the-scope-of-the-nested-definitions", isinstance(got, dict) and set(got) == {"scope"} and _is_new(got["scope"], sr, vis, "m.emb", encl + ["x"], ("LOC", "x"))
                     and (scope.entries["x"] is first or got["scope"] is scope.entries["x"]), detail=repr(got))
        else:
            c.oblige("no-scope-change-for-the-traversal", got is None, detail=repr(got))
    paths = eng.explore(harness)
    return pyvc.collect(paths, "_add_simple_names"), sum(1 for p in paths if p.covered)


def _alias_table(sr, depth, present):
    """table[m.emb][T0]..[T(depth-1)]: nested ghost scopes; the innermost holds name `imp` (presence symbolic)."""
    first = GDict({}, {}, truthy=False, label="first", attrs={"canonical_name": _cn("first.emb", "imp"), "source_location": ("LOC", "first"), "visibility": sr._Scope.SEARCHABLE, "alias": None})
    bystander = GDict({}, {}, truthy=False, label="bystander", attrs={})
    path = ["T%d" % i for i in range(depth)]
    scopes = []
    for i in range(depth + 1):
        scopes.append(_scope(sr, "scope%d" % i, _cn("m.emb", *path[:i]), {"imp": False, "zz": True}, {"zz": GDict({}, {}, truthy=False, label="zz%d" % i, attrs={})}))
    for i in range(depth):
        scopes[i].present[path[i]] = True
        scopes[i].entries[path[i]] = scopes[i + 1]
    inner = scopes[depth]
    inner.present["imp"] = SBool(present)
    inner.entries["imp"] = first
    inner.entries["zz"] = bystander
    table = {"m.emb": scopes[0], "other.emb": _scope(sr, "other-module", _cn("other.emb"), {"imp": False}, {})}
    return table, scopes, inner, first, bystander, path


def target_add_alias():
    sr, eng = _engine()

    def harness(c):
        depth = int(c.choice("scope-depth", ["0", "1", "2"]))
        vis = c.choice("visibility", ["SEARCHABLE", "LOCAL"])
        present = z3.Bool("name_already_in_scope")
        table, scopes, inner, first, bystander, path = _alias_table(sr, depth, present)
        name_ir = SRec("Word", {"text": "imp", "source_location": ("LOC", "imp")})
        alias = ["target.emb"]
        errors = []
        c.covered = True
        st, got = pyvc.run_body(c, SR + "._add_alias_to_scope", [name_ir, table, _cn("m.emb", *path), alias, getattr(sr._Scope, vis), errors])
        c.oblige("returns-an-alias-scope-named-inside-the-given-scope", _is_new(got, sr, vis, "m.emb", path + ["imp"], ("LOC", "imp"), alias=alias), detail=repr(got))
        outer_untouched = all(set(s.entries) == ({"zz"} | ({path[i]} if i < depth else set())) for i, s in enumerate(scopes[:depth])) and set(table) == {"m.emb", "other.emb"} and not table["other.emb"].entries
        c.oblige("frame:only-the-designated-scope-is-written", outer_untouched and inner.entries["zz"] is bystander and set(inner.entries) == {"imp", "zz"})
        if inner.entries["imp"] is first:
            c.oblige("duplicate:one-error-first-definition-stays", z3.And(present, z3.BoolVal(errors == [("DUPLICATE", "m.emb", ("LOC", "imp"), "imp", ("FILELOC", "first.emb", ("LOC", "first")))])), detail=repr(errors))
        else:
            c.oblige("fresh-name:alias-stored-in-the-designated-scope", z3.And(z3.Not(present), z3.BoolVal(inner.entries["imp"] is got and inner.present["imp"] is True and errors == [])), detail=repr(errors))
    paths = eng.explore(harness)
    return pyvc.collect(paths, "_add_alias_to_scope"), sum(1 for p in paths if p.covered)


def target_add_import():
    sr, eng = _engine()

    def harness(c):
        kind = c.choice("import", ["prelude(anonymous)", "named"])
        present = z3.Bool("name_already_in_scope")
        table, scopes, inner, first, bystander, path = _alias_table(sr, 0, present)
        imp = SRec("Import", {"local_name": SRec("Word", {"text": "" if kind != "named" else "imp", "source_location": ("LOC", "imp")}), "file_name": SRec("String", {"text": "target.emb"})})
        module = scopes[0]
        errors = []
        c.covered = True
        st, got = pyvc.run_body(c, SR + "._add_import_to_scope", [imp, table, module, errors])
        if kind != "named":
            c.oblige("anonymous-import-adds-no-name", inner.entries["imp"] is first and isinstance(inner.present["imp"], SBool) and errors == [] and set(inner.entries) == {"imp", "zz"})
            return
        if inner.entries["imp"] is first:
            c.oblige("duplicate-import-name:one-error-first-definition-stays", z3.And(present, z3.BoolVal(len(errors) == 1 and errors[0][0] == "DUPLICATE" and errors[0][3] == "imp")), detail=repr(errors))
        else:
            e = inner.entries["imp"]
            c.oblige("named-import:SEARCHABLE-alias-of-the-imported-module-in-the-importing-module", z3.And(z3.Not(present), z3.BoolVal(
                _is_new(e, sr, "SEARCHABLE", "m.emb", ["imp"], ("LOC", "imp"), alias=["target.emb"]) and errors == [])), detail=repr(e))
        c.oblige("frame:other-modules-untouched", not table["other.emb"].entries and inner.entries["zz"] is bystander)
    paths = eng.explore(harness)
    return pyvc.collect(paths, "_add_import_to_scope"), sum(1 for p in paths if p.covered)


def target_visible_scopes():
    """The three functions that say which scopes a reference may be searched in (innermost first)."""
    sr, eng = _engine()

    def harness(c):
        fn = c.choice("f", ["type_definition", "module", "attribute"])
        c.covered = True
        if fn == "type_definition":
            k = int(c.choice("enclosing-scopes", ["1", "2", "3"]))
            outer = tuple(_cn("m.emb", *["T%d" % j for j in range(k - 1 - i)]) for i in range(k))        # innermost first
            own = _cn("m.emb", *(["T%d" % j for j in range(k - 1)] + ["Me"]))
            td = SRec("TypeDefinition", {"name": SRec("NameDefinition", {"canonical_name": own})})
            st, got = pyvc.run_body(c, SR + "._set_visible_scopes_for_type_definition", [td, outer])
            ok = isinstance(got, dict) and set(got) == {"current_scope", "visible_scopes"}
            c.oblige("current-scope-is-the-type-itself", ok and got["current_scope"] is own, detail=repr(got))
            vs = got["visible_scopes"] if ok else ()
            c.oblige("own-scope-first-then-the-enclosing-scopes-in-order", ok and isinstance(vs, tuple) and len(vs) == k + 1 and vs[0] is own and all(vs[i + 1] is outer[i] for i in range(k)), detail=repr(vs))
            return
        if fn == "module":
            n = int(c.choice("imports", ["0", "1", "2", "3"]))
            kinds = [c.choice("import%d" % i, ["anonymous", "named"]) for i in range(n)]
            imports = [SRec("Import", {"local_name": SRec("Word", {"text": "" if kinds[i] == "anonymous" else "n%d" % i}), "file_name": SRec("String", {"text": "f%d.emb" % i})}) for i in range(n)]
            module = SRec("Module", {"source_file_name": "m.emb", "foreign_import": imports})
            st, got = pyvc.run_body(c, SR + "._set_visible_scopes_for_module", [module])
            ok = isinstance(got, dict) and set(got) == {"current_scope", "visible_scopes"}
            c.oblige("current-scope-is-the-module", ok and _cn_eq(got["current_scope"], "m.emb", []), detail=repr(got))
            vs = got["visible_scopes"] if ok else ()
            want = ["m.emb"] + ["f%d.emb" % i for i in range(n) if kinds[i] == "anonymous"]
            c.oblige("module-first-then-only-the-anonymous-imports-in-order", ok and isinstance(vs, tuple) and len(vs) == len(want) and all(_cn_eq(v, w, []) for v, w in zip(vs, want)),
                     detail=repr([v.f for v in vs if isinstance(v, SRec)]))
            return
        k = int(c.choice("enclosing-scopes", ["1", "2"]))
        outer = tuple(_cn("m.emb", *["T%d" % j for j in range(k - 1 - i)]) for i in range(k))
        where = c.choice("attribute-on", ["field", "something-else"])
        attr = SRec("Attribute", {})
        if where == "field":
            own = _cn("m.emb", "T0", "fld")
            field = SRec("Field", {"name": SRec("NameDefinition", {"canonical_name": own})})
            st, got = pyvc.run_body(c, SR + "._set_visible_scopes_for_attribute", [attr, field, outer])
            ok = isinstance(got, dict) and set(got) == {"current_scope", "visible_scopes"}
            vs = got["visible_scopes"] if ok else ()
            c.oblige("field-attribute:field-scope-first-then-the-enclosing-scopes", ok and got["current_scope"] is own and isinstance(vs, tuple) and len(vs) == k + 1 and vs[0] is own
                     and all(vs[i + 1] is outer[i] for i in range(k)), detail=repr(got))
        else:
            st, got = pyvc.run_body(c, SR + "._set_visible_scopes_for_attribute", [attr, None, outer])
            c.oblige("other-attribute:scopes-left-as-they-are", got is None, detail=repr(got))
    paths = eng.explore(harness)
    return pyvc.collect(paths, "_set_visible_scopes"), sum(1 for p in paths if p.covered)


def target_resolve_reference():
    sr, eng = _engine()
    calls = []

    def harness(c):
        del calls[:]
        state = c.choice("reference", ["already-resolved", "unresolved"])
        found = c.choice("search", ["finds-a-definition", "finds-nothing"])
        tcn = _cn("other.emb", "Target", "x")
        target = GDict({}, {}, truthy=False, label="target", attrs={"canonical_name": tcn, "source_location": ("LOC", "t"), "visibility": sr._Scope.LOCAL, "alias": None})

        def find(interp, reference, table, current_scope, visible_scopes, source_file_name, errors):
            calls.append((reference, table, current_scope, visible_scopes, source_file_name, errors))
            if found == "finds-nothing":
                errors.append("MISSING")
                return None
            return target
        eng.contract(sr._find_target_of_reference, find, "_find_target_of_reference")
        old = _cn("m.emb", "Already", "bound")
        ref = SRec("Reference", {"source_name": [SRec("Word", {"text": "x"})], "canonical_name": old if state == "already-resolved" else SRec("CanonicalName", {}),
                                 "has:canonical_name": state == "already-resolved"})
        blank = ref.f["canonical_name"]
        table, cur, vis, errors = {"m.emb": {}}, _cn("m.emb", "T0"), (_cn("m.emb", "T0"), _cn("m.emb")), []
        c.covered = True
        st, got = pyvc.run_body(c, SR + "._resolve_reference", [ref, table, cur, vis, "m.emb", errors])
        if state == "already-resolved":
            c.oblige("resolved-reference-is-never-rebound", ref.f["canonical_name"] is old and _cn_eq(old, "m.emb", ["Already", "bound"]) and not calls and errors == [], detail=repr(ref.f["canonical_name"].f))
            return
        c.oblige("searched-once-from-the-given-place", len(calls) == 1 and calls[0][0] is ref and calls[0][1] is table and calls[0][2] is cur and calls[0][3] is vis and calls[0][4] == "m.emb" and calls[0][5] is errors,
                 detail=repr(len(calls)))
        if found == "finds-nothing":
            c.oblige("nothing-found:reference-stays-unbound-error-from-the-search-only", ref.f["canonical_name"] is blank and not blank.f and errors == ["MISSING"], detail=repr(errors))
        else:
            c.oblige("bound-to-exactly-the-definition-found", _cn_eq(ref.f["canonical_name"], "other.emb", ["Target", "x"]) and errors == [], detail=repr(ref.f["canonical_name"].f))
            c.oblige("frame:a-copy-not-a-shared-name", ref.f["canonical_name"] is not tcn and _cn_eq(tcn, "other.emb", ["Target", "x"]))
    paths = eng.explore(harness)
    return pyvc.collect(paths, "_resolve_reference"), sum(1 for p in paths if p.covered)


def target_plumbing():
    sr, eng = _engine()

    def harness(c):
        fn = c.choice("f", ["_set_scope_for_type_definition", "_set_scope_for_module", "_add_module_to_scope", "_module_source_from_table_action", "_resolve_head_of_field_reference"])
        c.covered = True
        a, b = GDict({}, {}, truthy=False, label="A", attrs={}), GDict({}, {}, truthy=False, label="B", attrs={})
        if fn == "_set_scope_for_type_definition":
            scope = GDict({"A": True, "B": True}, {"A": a, "B": b}, label="scope")
            td = SRec("TypeDefinition", {"name": SRec("NameDefinition", {"name": SRec("Word", {"text": c.choice("type", ["A", "B"])})})})
            st, got = pyvc.run_body(c, SR + "." + fn, [td, scope])
            c.oblige("scope-of-the-type-with-that-name", isinstance(got, dict) and set(got) == {"scope"} and got["scope"] is scope.entries[td.f["name"].f["name"].f["text"]])
        elif fn in ("_set_scope_for_module", "_module_source_from_table_action"):
            which = c.choice("module", ["a.emb", "b.emb"])
            table = {"a.emb": a, "b.emb": b}
            m = SRec("Module", {"source_file_name": which})
            st, got = pyvc.run_body(c, SR + "." + fn, [m, table])
            key = "scope" if fn == "_set_scope_for_module" else "module"
            c.oblige("table-entry-of-that-module", isinstance(got, dict) and set(got) == {key} and got[key] is table[which] and table == {"a.emb": a, "b.emb": b})
        elif fn == "_add_module_to_scope":
            table = {"a.emb": a}
            m = SRec("Module", {"source_file_name": "m.emb"})
            st, got = pyvc.run_body(c, SR + "." + fn, [m, table])
            new = table.get("m.emb")
            c.oblige("module-scope-created-SEARCHABLE-with-empty-path", set(table) == {"a.emb", "m.emb"} and table["a.emb"] is a and isinstance(new, GDict) and new.label == "new-scope"
                     and _cn_eq(new.attrs["canonical_name"], "m.emb", []) and new.attrs["visibility"] is sr._Scope.SEARCHABLE and isinstance(got, dict) and got.get("scope") is new, detail=repr(new))
        else:
            calls = []

            def rr(interp, *args):
                calls.append(args)
                return None
            eng.contract(sr._resolve_reference, rr, "_resolve_reference")
            head, tail = SRec("Reference", {}), SRec("Reference", {})
            fr = SRec("FieldReference", {"path": [head, tail]})
            args = [fr, {"t": 1}, _cn("m.emb", "T0"), (_cn("m.emb"),), "m.emb", []]
            st, got = pyvc.run_body(c, SR + "." + fn, args)
            c.oblige("only-the-head-is-searched-lexically", len(calls) == 1 and calls[0][0] is head and all(x is y for x, y in zip(calls[0][1:], args[1:])), detail=repr(len(calls)))
    paths = eng.explore(harness)
    return pyvc.collect(paths, "scope_plumbing"), sum(1 for p in paths if p.covered)


TARGETS = {"_nested_name": target_nested_name, "_add_struct_field_to_scope": target_add_struct_field, "_add_simple_names": target_add_simple_names,
           "_add_alias_to_scope": target_add_alias, "_add_import_to_scope": target_add_import, "_set_visible_scopes": target_visible_scopes,
           "_resolve_reference": target_resolve_reference, "scope_plumbing": target_plumbing}

if __name__ == "__main__":
    import sys
    for n in (sys.argv[1:] or sorted(TARGETS)):
        obs, cov = TARGETS[n]()
        print("==", n, "covered paths", cov, "obligations", len(obs))
        for o in obs:
            print("  ", o.verdict, o.name, (o.detail or "")[:200] if o.verdict != core.PROVED else "")


def target_wiring():
    """Which IR nodes the scope functions are applied to: _construct_symbol_tables, _resolve_symbols_from_table,
    resolve_field_references and resolve_symbols, over the callee contract of traverse_ir.fast_traverse_ir_top_down (assumed:
    applies the action to every node of the pattern classes, top-down, threading the dicts returned by the incidental
    actions into the parameters of everything below, not descending below the skip classes).  Each traversal is recorded as
    (pattern classes, action, incidental actions, skip classes, parameter names); a traversal may report errors (choice)."""
    sr = importlib.import_module(SR)
    ir_data = importlib.import_module("compiler.util.ir_data")
    traverse_ir = importlib.import_module("compiler.util.traverse_ir")
    eng = pyvc.Engine()
    log = []
    inject = {}

    def traverse(interp, ir, pattern, action, incidental_actions=None, skip_descendants_of=(), parameters=None):
        log.append((tuple(pattern), action, dict(incidental_actions or {}), set(skip_descendants_of), dict(parameters or {})))
        if inject.get(len(log)):
            parameters["errors"].append("ERR%d" % len(log))
    eng.contract(traverse_ir.fast_traverse_ir_top_down, traverse, "traverse_ir.fast_traverse_ir_top_down")
    SCOPES = {ir_data.Module: sr._set_scope_for_module, ir_data.TypeDefinition: sr._set_scope_for_type_definition}
    VIS = {ir_data.TypeDefinition: sr._set_visible_scopes_for_type_definition, ir_data.Module: sr._set_visible_scopes_for_module, ir_data.Attribute: sr._set_visible_scopes_for_attribute}

    def harness(c):
        fn = c.choice("f", ["_construct_symbol_tables", "_resolve_symbols_from_table", "resolve_field_references", "resolve_symbols"])
        del log[:]
        inject.clear()
        c.covered = True
        if fn == "_construct_symbol_tables":
            err_at = int(c.choice("duplicate-name-error-in-pass", ["0", "2", "3", "4", "5"]))
            if err_at:
                inject[err_at] = True
            st, got = pyvc.run_body(c, SR + "." + fn, ["IR"])
            ok_shape = isinstance(got, tuple) and len(got) == 2 and isinstance(got[0], dict)
            c.oblige("returns-(tables,errors)", ok_shape and got[1] == (["ERR%d" % err_at] if err_at else []), detail=repr(got)[:200])
            want = [((ir_data.Module,), sr._add_module_to_scope, {}), ((ir_data.TypeDefinition,), sr._add_type_name_to_scope, {ir_data.Module: sr._set_scope_for_module}),
                    ((ir_data.EnumValue,), sr._add_enum_value_to_scope, SCOPES), ((ir_data.Field,), sr._add_struct_field_to_scope, SCOPES), ((ir_data.RuntimeParameter,), sr._add_parameter_name_to_scope, SCOPES)]
            if err_at == 2:
                want = want[:2]          # colliding type names: the names inside them would collide spuriously
            c.oblige("every-kind-of-definition-is-entered-in-the-scope-of-its-enclosing-definition", [(x[0], x[1], x[2]) for x in log] == want and all(not x[3] for x in log),
                     detail=repr([(tuple(k.__name__ for k in x[0]), x[1].__name__) for x in log]))
            c.oblige("one-table-and-one-error-list-shared-by-all-passes", all(x[4].get("scope") is log[0][4].get("scope") and x[4].get("errors") is log[0][4].get("errors") for x in log) and ok_shape and got[0] is log[0][4].get("scope"))
            return
        if fn == "_resolve_symbols_from_table":
            err_at = int(c.choice("error-in-pass", ["0", "1", "2", "3"]))
            if err_at:
                inject[err_at] = True
            table = {"t": 1}
            st, got = pyvc.run_body(c, SR + "." + fn, ["IR", table])
            want = [((ir_data.Import,), sr._add_import_to_scope, {ir_data.Module: sr._module_source_from_table_action}, set()),
                    ((ir_data.Reference,), sr._resolve_reference, VIS, {ir_data.FieldReference}), ((ir_data.FieldReference,), sr._resolve_head_of_field_reference, VIS, set())]
            if err_at == 1:
                want = want[:1]
            c.oblige("imports-then-every-plain-reference-then-every-field-reference-head-each-with-the-visible-scopes-of-its-place", [(x[0], x[1], x[2], x[3]) for x in log] == want,
                     detail=repr([(tuple(k.__name__ for k in x[0]), x[1].__name__, sorted(k.__name__ for k in x[3])) for x in log]))
            c.oblige("searched-in-the-given-table-errors-collected", all(x[4].get("table") is table for x in log) and got == (["ERR%d" % err_at] if err_at else []) and all(x[4].get("field", 0) is None for x in log[1:]), detail=repr(got))
            return
        if fn == "resolve_field_references":
            st, got = pyvc.run_body(c, SR + "." + fn, ["IR"])
            c.oblige("every-field-reference-gets-its-members-resolved", len(log) == 1 and log[0][0] == (ir_data.FieldReference,) and log[0][1] is sr._resolve_field_reference and log[0][2] == VIS and not log[0][3]
                     and log[0][4].get("field", 0) is None and got == [], detail=repr([(tuple(k.__name__ for k in x[0]), x[1].__name__) for x in log]))
            return
        bad = c.choice("table-construction", ["clean", "errors"])
        calls = []
        eng.contract(sr._construct_symbol_tables, lambda interp, ir: (calls.append("construct") or {"T": 1}, ["E"] if bad == "errors" else []), "_construct_symbol_tables")
        eng.contract(sr._resolve_symbols_from_table, lambda interp, ir, table: (calls.append(("resolve", table)) or ["R"]), "_resolve_symbols_from_table")
        st, got = pyvc.run_body(c, SR + ".resolve_symbols", ["IR"])
        if bad == "errors":
            c.oblige("duplicate-definitions-stop-resolution-and-are-reported", got == ["E"] and calls == ["construct"], detail=repr((got, calls)))
        else:
            c.oblige("references-are-resolved-against-the-constructed-tables", got == ["R"] and calls == ["construct", ("resolve", {"T": 1})], detail=repr((got, calls)))
    paths = eng.explore(harness)
    return pyvc.collect(paths, "resolver_wiring"), sum(1 for p in paths if p.covered)


TARGETS["resolver_wiring"] = target_wiring
