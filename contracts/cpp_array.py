"""E2a contracts for runtime/cpp/emboss_array_view.h GenericArrayView (C20 element-wise Equals, C01 element count / Ok).

The element view is a minimal harness type over kElementSize bytes whose only field is the low nibble of each byte
(the high nibbles are padding no field covers), so "logical equality ignores uncovered bytes" is observable:

  ElementCount()  == buffer size / kElementSize
  Ok()            <=> buffer Ok, size a multiple of kElementSize, every element Ok
  a.Equals(b)     <=> same element count and, element by element, equal field values        (Ok views)
  UncheckedEquals likewise (complete views)

Arrays of at most MAXN elements (requires); the element loops are unrolled with their unwinding obligations proved."""
import z3

from vlib.llvc import enc

bv = enc.bv
INCLUDES = ["runtime/cpp/emboss_array_view.h", "runtime/cpp/emboss_memory_util.h"]
MAXN = 6
PREAMBLE = '''
using namespace emboss::support;
typedef ContiguousBuffer<unsigned char, 1, 0> CB;
// element view: kSize bytes, one field = the low nibble of every byte
template <class Storage, int kSize> struct NibblesView {
  Storage s_;
  NibblesView() : s_() {}
  explicit NibblesView(Storage s) : s_(s) {}
  bool Ok() const { return s_.Ok() && s_.SizeInBytes() == kSize; }
  bool IsComplete() const { return Ok(); }
  ::std::uint64_t Field() const { ::std::uint64_t v = 0; for (int i = 0; i < kSize; ++i) v = (v << 4) | (s_.data()[i] & 0xF); return v; }
  template <class O> bool Equals(const NibblesView<O, kSize> &o) const { return Field() == o.Field(); }
  template <class O> bool UncheckedEquals(const NibblesView<O, kSize> &o) const { return Field() == o.Field(); }
  static constexpr bool IsAggregate() { return false; }
};
'''


def wrapper(esize):
    t = "GenericArrayView<NibblesView<CB, %d>, CB, %d, 8>" % (esize, esize)
    return ("  %s a{CB{p, n}};\n  %s b{CB{q, m}};\n" % (t, t) +
            "  O(0, a.Ok()); O(1, b.Ok()); O(2, a.ElementCount()); O(3, a.IsComplete());\n"
            "  if (a.Ok() && b.Ok()) { O(4, a.Equals(b)); O(5, b.Equals(a)); O(6, a.UncheckedEquals(b)); }\n  return 0;")


def contract(k, esize):
    k.region("p", nonnull=False)
    k.region("q", nonnull=False)
    k.requires(z3.ULE(k.n, bv(MAXN * esize, 64)))
    k.requires(z3.ULE(k.m, bv(MAXN * esize, 64)))
    E = bv(esize, 64)
    okA = z3.And(k.p != 0, z3.URem(k.n, E) == 0)
    okB = z3.And(k.q != 0, z3.URem(k.m, E) == 0)
    k.ensures("Ok", k.obs_flag(0, okA))
    k.ensures("Ok(other)", k.obs_flag(1, okB))
    # a ContiguousBuffer over a null pointer has size 0
    k.ensures("ElementCount", z3.And(k.outc(2), k.outv(2) == z3.If(k.p == 0, bv(0, 64), z3.UDiv(k.n, E))))
    k.ensures("IsComplete", k.obs_flag(3, k.p != 0))
    same = [k.n == k.m]
    for i in range(MAXN * esize):
        same.append(z3.Implies(z3.ULT(bv(i, 64), k.n),
                               z3.Extract(3, 0, z3.Select(k.P0, bv(i, 64))) == z3.Extract(3, 0, z3.Select(k.Q0, bv(i, 64)))))
    eq = z3.And(same)
    both = z3.And(okA, okB)
    k.ensures("Equals<=>element-wise-equal-fields", k.obs_flag(4, eq, when=both))
    k.ensures("Equals-symmetric", k.obs_flag(5, eq, when=both))
    k.ensures("UncheckedEquals", k.obs_flag(6, eq, when=both))
    a = k.forall_off()
    k.ensures("read-only", z3.And(z3.Implies(z3.ULT(a, k.n), z3.Select(k.P1, a) == z3.Select(k.P0, a)),
                                  z3.Implies(z3.ULT(a, k.m), z3.Select(k.Q1, a) == z3.Select(k.Q0, a))))


def jobs(tier, prefix=""):
    return [{"tag": "array_view_%d" % e, "includes": INCLUDES, "preamble": PREAMBLE, "prefix": prefix, "unroll": 16,
             "wrappers": [("array_equals_elem%d" % e, wrapper(e), "contracts.cpp_array:contract", {"esize": e})]} for e in (1, 2, 3)]
