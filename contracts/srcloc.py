"""E1 contract on compiler/util/parser_types (C18: "source locations with their flags" survive the text form used in JSON):

   SourceLocation.from_str(str(loc)) == loc      for every location: any start / end positions (non-negative line and
                                                  column: the class invariant asserted by the constructors), both flags
   SourcePosition.from_str(str(pos)) == pos

`__str__` (f-strings) and `from_str` (last-character tests, s[:-1], split, strip, int) are executed from their real source
on piecewise strings: concrete text plus decimal renderings of symbolic integers (pyvc.PStr).  Assumed of Python: the
decimal rendering of a non-negative int consists of digits only and int() inverts it; str.split / strip / indexing as
implemented in pyvc.PStr for single-character separators."""
import importlib

import z3

from vlib import core, pyvc
from vlib.pyvc import SBool, SInt, SRec

PT = "compiler.util.parser_types"


def target_location_text_round_trip():
    pt = importlib.import_module(PT)
    loc_str = pyvc.load_function(PT + ".SourceLocation.__str__")
    loc_from = pyvc.load_function(PT + ".SourceLocation.from_str")
    pos_str = pyvc.load_function(PT + ".SourcePosition.__str__")
    eng = pyvc.Engine()
    eng.contract(pt.SourcePosition, lambda interp, line=0, column=0: ("POS", line, column), "SourcePosition(line, column)")
    eng.contract(pt.SourceLocation, lambda interp, start=None, end=None, is_disjoint_from_parent=False, is_synthetic=False: ("LOC", start, end, is_disjoint_from_parent, is_synthetic), "SourceLocation(...)")

    def harness(c):
        l1, c1, l2, c2 = z3.Ints("start_line start_column end_line end_column")
        # class invariants, asserted by SourcePosition.__new__ and SourceLocation.__new__
        c.assume(z3.And(l1 >= 0, c1 >= 0, l2 >= 0, c2 >= 0))
        c.assume(z3.And(z3.Or(z3.And(l1 == 0, c1 == 0), z3.And(l1 != 0, c1 != 0)), z3.Or(z3.And(l2 == 0, c2 == 0), z3.And(l2 != 0, c2 != 0))))
        c.assume(z3.And(z3.Or(l1 < l2, z3.And(l1 == l2, c1 <= c2)), (l1 == 0) == (l2 == 0)))
        dis, syn = z3.Bool("is_disjoint_from_parent"), z3.Bool("is_synthetic")
        eng.str_of = {"SourcePosition": lambda interp, x: pyvc.Interp(c, pos_str, interp.depth + 1).call([x])}
        loc = SRec("SourceLocation", {"start": SRec("SourcePosition", {"line": SInt(l1), "column": SInt(c1)}), "end": SRec("SourcePosition", {"line": SInt(l2), "column": SInt(c2)}),
                                      "is_disjoint_from_parent": SBool(dis), "is_synthetic": SBool(syn)})
        c.covered = True
        text = pyvc.Interp(c, loc_str).call([loc])
        c.oblige("str:is-text", isinstance(text, (str, pyvc.PStr, pyvc.SNumStr)), detail=repr(text))
        try:
            back = pyvc.Interp(c, loc_from).call([text])
        except pyvc.PyRaise as r:
            c.oblige("from_str:accepts-what-str-wrote", False, detail="%s at %s on %r" % (r.exc_type, r.where, text))
            return
        ok = isinstance(back, tuple) and back[0] == "LOC" and all(isinstance(x, tuple) and x[0] == "POS" for x in back[1:3])
        c.oblige("from_str:builds-a-location-from-two-positions", ok, detail=repr(back)[:200])
        if not ok:
            return

        def b(v):
            return v.t if isinstance(v, SBool) else z3.BoolVal(bool(v))
        c.oblige("round-trip:start", z3.And(pyvc.zint(back[1][1]) == l1, pyvc.zint(back[1][2]) == c1), detail=repr(back[1]))
        c.oblige("round-trip:end", z3.And(pyvc.zint(back[2][1]) == l2, pyvc.zint(back[2][2]) == c2), detail=repr(back[2]))
        c.oblige("round-trip:is_disjoint_from_parent", b(back[3]) == dis, detail=repr(back[3]))
        c.oblige("round-trip:is_synthetic", b(back[4]) == syn, detail=repr(back[4]))
    paths = eng.explore(harness)
    return pyvc.collect(paths, "SourceLocation.text-round-trip"), sum(1 for p in paths if p.covered)


def replay_location(name, model):
    pt = importlib.import_module(PT)
    m = model or {}
    cands = [(int(m.get("start_line", 1)), int(m.get("start_column", 1)), int(m.get("end_line", 1)), int(m.get("end_column", 2)))] + [(0, 0, 0, 0), (1, 1, 1, 1), (7, 6, 7, 15), (12, 1, 345, 80)]
    for (a, b_, c_, d) in cands:
        for dis in (False, True):
            for syn in (False, True):
                try:
                    loc = pt.SourceLocation((a, b_), (c_, d), is_disjoint_from_parent=dis, is_synthetic=syn)
                except AssertionError:
                    continue
                try:
                    back = pt.SourceLocation.from_str(str(loc))
                    good = tuple(back) == tuple(loc)
                except Exception as e:      # noqa
                    back, good = "exception %r" % (e,), False
                if not good:
                    return {"reproduced": True, "inputs": {"location": repr(loc), "text": str(loc)}, "got": repr(back)}
    return {"reproduced": False}


TARGETS = {"location_text_round_trip": target_location_text_round_trip}
