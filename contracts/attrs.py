"""E1 contracts on compiler/front_end/attribute_checker.py (C14 fixed-size rule, C19/C14 enum width and sign).

  _fixed_size_of_struct_or_bits(struct, unit)   None iff some physical field has a non-constant start or size; otherwise
                                                unit * (largest end of any physical field), 0 for none; virtual fields ignored
  _verify_size_attributes_on_structure          one error iff [fixed_size_in_bits] is present and the structure is not fixed
                                                size or the declared value differs from the computed size
  _add_missing_size_attributes_on_structure     adds the attribute, with the computed size, iff fixed size and not already present
  _add_missing_width_and_sign_attributes_on_enum  maximum_bits defaults to 64; is_signed defaults to "some value is negative";
                                                explicit attributes are left alone
  _verify_width_attribute_on_enum               one error iff maximum_bits is outside 1..64

ir_util attribute lookups and the _construct_*_attribute helpers are opaque (contracts over a ghost name/value)."""
import importlib

import z3

from vlib import core, pyvc
from vlib.pyvc import GObj, SBool, SInt, SRec

AC = "compiler.front_end.attribute_checker"


def _engine():
    ac = importlib.import_module(AC)
    ir_util = importlib.import_module("compiler.util.ir_util")
    error = importlib.import_module("compiler.util.error")
    eng = pyvc.Engine()
    eng.contract(ir_util.constant_value, lambda interp, e, bindings=None: e.f["ghost_cv"], "constant_value")

    def find(attrs, name):
        for a in attrs:
            if a.f["ghost_name"] == name:
                return a
        return None
    eng.contract(ir_util.get_attribute, lambda interp, attrs, name: find(attrs, name), "get_attribute")
    eng.contract(ir_util.get_integer_attribute, lambda interp, attrs, name, default_value=None: (find(attrs, name).f["ghost_value"] if find(attrs, name) else default_value), "get_integer_attribute")
    eng.contract(ir_util.get_boolean_attribute, lambda interp, attrs, name, default_value=None: (find(attrs, name).f["ghost_value"] if find(attrs, name) else default_value), "get_boolean_attribute")
    eng.contract(ac._construct_integer_attribute, lambda interp, name, value, loc: SRec("Attribute", {"ghost_name": name, "ghost_value": value, "ghost_constructed": "integer"}), "_construct_integer_attribute")
    eng.contract(ac._construct_boolean_attribute, lambda interp, name, value, loc: SRec("Attribute", {"ghost_name": name, "ghost_value": value, "ghost_constructed": "boolean"}), "_construct_boolean_attribute")
    for f in (error.error, error.note, error.warn):
        eng.contract(f, lambda interp, *a, **k: SRec("ErrorMessage", {}), f.__name__)
    return eng, ac


def _fields(c, nmax=3):
    """A structure with 0..nmax fields, each virtual, physical-constant or physical with an unknown start/size."""
    n = int(c.choice("fields", [str(i) for i in range(nmax + 1)]))
    fields, ends, unknown = [], [], False
    for i in range(n):
        kind = c.choice("f%d" % i, ["physical", "virtual", "unknown-start", "unknown-size"])
        if kind == "virtual":
            fields.append(SRec("Field", {}, defaults={"has:location": False}))
            continue
        st, sz = z3.Int("start%d" % i), z3.Int("size%d" % i)
        c.assume(z3.And(st >= 0, sz >= 0))
        loc = SRec("FieldLocation", {"start": SRec("Expression", {"ghost_cv": None if kind == "unknown-start" else SInt(st)}),
                                     "size": SRec("Expression", {"ghost_cv": None if kind == "unknown-size" else SInt(sz)})})
        fields.append(SRec("Field", {"location": loc}, defaults={"has:location": True}))
        if kind == "physical":
            ends.append(st + sz)
        else:
            unknown = True
    return fields, ends, unknown


def _spec_size(ends, unit):
    m = z3.IntVal(0)
    for e in ends:
        m = z3.If(e > m, e, m)
    return m * unit


def target_fixed_size():
    eng, ac = _engine()

    def harness(c):
        fields, ends, unknown = _fields(c)
        unit = int(c.choice("unit", ["1", "8"]))
        c.covered = True
        st, got = pyvc.run_body(c, AC + "._fixed_size_of_struct_or_bits", [SRec("Structure", {"field": fields}), unit])
        if unknown:
            c.oblige("None-when-a-physical-field-is-not-constant", got is None, detail=repr(got))
            return
        c.oblige("a-size-when-every-physical-field-is-constant", got is not None and not isinstance(got, SRec), detail=repr(got))
        if got is not None:
            c.oblige("size-is-unit-times-the-largest-end", pyvc.zint(got) == _spec_size(ends, unit), detail=repr(got))
    paths = eng.explore(harness)
    return pyvc.collect(paths, "_fixed_size_of_struct_or_bits"), sum(1 for p in paths if p.covered)


def target_size_attributes():
    eng, ac = _engine()
    attributes = importlib.import_module("compiler.front_end.attributes")
    eng.inline_fn(ac._fixed_size_of_struct_or_bits, AC + "._fixed_size_of_struct_or_bits")

    def harness(c):
        which = c.choice("f", ["_verify_size_attributes_on_structure", "_add_missing_size_attributes_on_structure"])
        fields, ends, unknown = _fields(c, nmax=2)
        unit = int(c.choice("unit", ["1", "8"]))
        has_attr = c.choice("fixed_size-attribute", ["absent", "present"]) == "present"
        declared = z3.Int("declared")
        attrs = []
        if has_attr:
            attrs.append(SRec("Attribute", {"ghost_name": attributes.FIXED_SIZE, "ghost_value": SInt(declared), "source_location": SRec("SourceLocation", {}),
                                            "expression": SRec("Expression", {"ghost_cv": SInt(declared)})}))
        td = SRec("TypeDefinition", {"addressable_unit": unit, "attribute": attrs, "source_location": SRec("SourceLocation", {})})
        struct = SRec("Structure", {"field": fields})
        errors = []
        c.covered = True
        if which.startswith("_verify"):
            pyvc.run_body(c, AC + "." + which, [struct, td, "f.emb", errors])
            if not has_attr:
                c.oblige("no-attribute-no-error", len(errors) == 0)
            elif unknown:
                c.oblige("error-when-marked-fixed-but-not-fixed-size", len(errors) == 1)
            else:
                c.oblige("error-iff-declared-size-differs", z3.BoolVal(len(errors) == 1) == (declared != _spec_size(ends, unit)) if len(errors) <= 1 else False,
                         detail="%d errors" % len(errors))
        else:
            pyvc.run_body(c, AC + "." + which, [struct, td])
            added = [a for a in attrs if a.f.get("ghost_constructed")]
            if unknown or has_attr:
                c.oblige("nothing-added", not added and len(attrs) == (1 if has_attr else 0))
            else:
                ok = len(added) == 1 and added[0].f["ghost_name"] == attributes.FIXED_SIZE and added[0].f["ghost_constructed"] == "integer"
                c.oblige("fixed_size-attribute-added-once", ok, detail=str(attrs))
                if ok:
                    c.oblige("with-the-computed-size", pyvc.zint(added[0].f["ghost_value"]) == _spec_size(ends, unit))
    paths = eng.explore(harness)
    return pyvc.collect(paths, "size_attributes"), sum(1 for p in paths if p.covered)


def target_enum_attributes():
    eng, ac = _engine()
    attributes = importlib.import_module("compiler.front_end.attributes")

    def harness(c):
        nvals = int(c.choice("values", ["0", "1", "2", "3"]))
        vals = [z3.Int("v%d" % i) for i in range(nvals)]
        enum = SRec("Enum", {"value": [SRec("EnumValue", {"value": SRec("Expression", {"ghost_cv": SInt(v)})}) for v in vals]})
        has_bits = c.choice("maximum_bits", ["absent", "present"]) == "present"
        has_sign = c.choice("is_signed", ["absent", "present"]) == "present"
        bits, sign = z3.Int("bits"), z3.Bool("sign")
        attrs = []
        if has_bits:
            attrs.append(SRec("Attribute", {"ghost_name": attributes.ENUM_MAXIMUM_BITS, "ghost_value": SInt(bits)}))
        if has_sign:
            attrs.append(SRec("Attribute", {"ghost_name": attributes.IS_SIGNED, "ghost_value": SBool(sign)}))
        before = list(attrs)
        td = SRec("TypeDefinition", {"attribute": attrs, "source_location": SRec("SourceLocation", {})})
        c.covered = True
        pyvc.run_body(c, AC + "._add_missing_width_and_sign_attributes_on_enum", [enum, td])
        c.oblige("explicit-attributes-kept", attrs[:len(before)] == before)
        added = attrs[len(before):]
        names = [a.f["ghost_name"] for a in added]
        c.oblige("adds-exactly-the-missing-attributes", sorted(names) == sorted(([] if has_bits else [attributes.ENUM_MAXIMUM_BITS]) + ([] if has_sign else [attributes.IS_SIGNED])),
                 detail=str(names))
        for a in added:
            if a.f["ghost_name"] == attributes.ENUM_MAXIMUM_BITS:
                c.oblige("maximum_bits-defaults-to-64", a.f["ghost_constructed"] == "integer" and pyvc.zint(a.f["ghost_value"]) == 64, detail=repr(a.f["ghost_value"]))
            if a.f["ghost_name"] == attributes.IS_SIGNED:
                want = z3.Or([v < 0 for v in vals]) if vals else z3.BoolVal(False)
                got = a.f["ghost_value"]
                c.oblige("is_signed-defaults-to-some-value-negative", a.f["ghost_constructed"] == "boolean" and isinstance(got, (bool, SBool)) and (pyvc.zbool(got) == want),
                         detail=repr(got))
    paths = eng.explore(harness)
    return pyvc.collect(paths, "_add_missing_width_and_sign_attributes_on_enum"), sum(1 for p in paths if p.covered)


def target_enum_width():
    eng, ac = _engine()
    attributes = importlib.import_module("compiler.front_end.attributes")

    def harness(c):
        bits = z3.Int("bits")
        attrs = [SRec("Attribute", {"ghost_name": attributes.ENUM_MAXIMUM_BITS, "ghost_value": SInt(bits), "source_location": SRec("SourceLocation", {})})]
        td = SRec("TypeDefinition", {"attribute": attrs})
        errors = []
        c.covered = True
        pyvc.run_body(c, AC + "._verify_width_attribute_on_enum", [SRec("Enum", {}), td, "f.emb", errors])
        c.oblige("error-iff-outside-1..64", z3.BoolVal(len(errors) == 1) == z3.Or(bits < 1, bits > 64) if len(errors) <= 1 else False, detail="%d errors" % len(errors))
    paths = eng.explore(harness)
    return pyvc.collect(paths, "_verify_width_attribute_on_enum"), sum(1 for p in paths if p.covered)


def target_gather_defaults():
    """attribute_util.gather_default_attributes: the defaults visible below a node are the inherited ones, overridden (by
    name) by the node's own `$default` attributes; nothing inherited is lost, non-default attributes do not become
    defaults, the stored copies are not themselves marked `$default`, and the inherited dict is not modified."""
    au = importlib.import_module("compiler.util.attribute_util")
    idu = importlib.import_module("compiler.util.ir_data_utils")
    eng = pyvc.Engine()
    eng.contract(idu.copy, lambda interp, a: SRec("Attribute", dict(a.f, ghost_copy_of=a)), "ir_data_utils.copy")
    NAMES = ["byte_order", "enum_case", "namespace"]

    def harness(c):
        inherited = {}
        for nm in NAMES[:2]:
            if c.choice("inherited:" + nm, ["no", "yes"]) == "yes":
                inherited[nm] = SRec("Attribute", {"name": SRec("Word", {"text": nm}), "is_default": False, "ghost_origin": "outer"})
        n = int(c.choice("own-attributes", ["0", "1", "2"]))
        own = []
        for i in range(n):
            nm = c.choice("a%d" % i, NAMES)
            dflt = c.choice("a%d:$default" % i, ["yes", "no"]) == "yes"
            own.append(SRec("Attribute", {"name": SRec("Word", {"text": nm}), "is_default": dflt, "ghost_origin": "own%d" % i}))
        before = dict(inherited)
        obj = SRec("TypeDefinition", {"attribute": own})
        c.covered = True
        st, got = pyvc.run_body(c, "compiler.util.attribute_util.gather_default_attributes", [obj, inherited])
        # the result updates the traversal's parameters: a missing "defaults" key leaves the inherited dict in force
        ok = isinstance(got, dict) and set(got) <= {"defaults"} and isinstance(got.get("defaults", {}), dict)
        c.oblige("returns-a-parameter-update-for-`defaults`", ok, detail=repr(got)[:200])
        if not ok:
            return
        res = got.get("defaults", inherited)
        want = dict((k_, ("outer", None)) for k_ in before)
        for i, a in enumerate(own):
            if a.f["is_default"]:
                want[a.f["name"].f["text"]] = ("own", a)
        c.oblige("defaults-are-the-inherited-ones-overridden-by-the-node's-own", set(res) == set(want), detail="got %s want %s" % (sorted(res), sorted(want)))
        for k_, (src, a) in want.items():
            if k_ not in res:
                continue
            if src == "outer":
                c.oblige("inherited-default-kept[%s]" % k_, res[k_] is before[k_])
            else:
                c.oblige("own-default-is-a-copy-not-marked-$default[%s]" % k_, res[k_].f.get("ghost_copy_of") is a and res[k_].f["is_default"] is False and a.f["is_default"] is True)
        c.oblige("inherited-dict-not-modified", inherited == before)
    paths = eng.explore(harness)
    return pyvc.collect(paths, "gather_default_attributes"), sum(1 for p in paths if p.covered)


TARGETS = {"gather_defaults": target_gather_defaults, "fixed_size": target_fixed_size, "size_attributes": target_size_attributes, "enum_attributes": target_enum_attributes, "enum_width": target_enum_width}
FUNCTIONS = ["(attribute_util) gather_default_attributes", "_fixed_size_of_struct_or_bits", "_verify_size_attributes_on_structure", "_add_missing_size_attributes_on_structure",
             "_add_missing_width_and_sign_attributes_on_enum", "_verify_width_attribute_on_enum"]


def target_check_attributes():
    """attribute_util._check_attributes (C14: "attributes only where, how often and with the values allowed"): for every list
    of up to three attributes drawn from {a, $default a, b, (cpp) a}, both back ends being checked (None / "cpp") and
    specs that allow `a` only or `a` and `$default a`:

        attributes of another back end are ignored (and do not count as a first occurrence)
        a second (name, is_default) pair  ->  exactly one Duplicate error with a note at the first; the value is not checked again
        a pair the context does not allow ->  exactly one "Unknown attribute" / "may not be defaulted" error at the name
        an allowed first occurrence       ->  exactly the errors of the attribute's value checker, nothing else
    in list order."""
    import itertools
    au = importlib.import_module("compiler.util.attribute_util")
    ir_data_utils = importlib.import_module("compiler.util.ir_data_utils")
    error = importlib.import_module("compiler.util.error")
    eng = pyvc.Engine()
    eng.identity(ir_data_utils.reader)
    eng.contract(error.error, lambda interp, f, loc, msg: ("ERROR", loc, msg), "error.error")
    eng.contract(error.note, lambda interp, f, loc, msg: ("NOTE", loc, msg), "error.note")
    KINDS = {"a": ("a", False, ""), "da": ("a", True, ""), "b": ("b", False, ""), "cpp-a": ("a", False, "cpp")}

    def mk(kind, idx):
        name, dflt, be = KINDS[kind]
        return SRec("Attribute", {"name": SRec("Word", {"text": name, "source_location": ("LOC", "name", idx)}), "is_default": dflt, "back_end": SRec("Word", {"text": be}),
                                  "source_location": ("LOC", "attr", idx), "ghost_idx": idx})
    obs_all, n = [], 0
    lists = [t for k in (0, 1, 2, 3) for t in itertools.product(sorted(KINDS), repeat=k)]
    for lst in lists:
        for back_end in (None, "cpp"):
            for allow_default in (False, True):
                def harness(c, lst=lst, back_end=back_end, allow_default=allow_default):
                    attrs = [mk(k, i) for i, k in enumerate(lst)]
                    specs = {("a", False): "SPEC"}
                    if allow_default:
                        specs[("a", True)] = "SPEC"
                    checked = []
                    types = {"a": lambda interp_attr, src=None: None}
                    vals = GObj("types")
                    # the value checker of `a`: reports one error for attributes at odd positions (so that its output is observable)
                    def checker(interp, obj, attr, src):
                        checked.append(attr.f["ghost_idx"])
                        return [[("VALUE-ERROR", attr.f["ghost_idx"])]] if attr.f["ghost_idx"] % 2 else []
                    types = {"a": pyvc._BoundGhost(vals, "check_a", checker), "b": pyvc._BoundGhost(vals, "check_b", checker)}
                    c.covered = True
                    st, got = pyvc.run_body(c, "compiler.util.attribute_util._check_attributes", [attrs, types, back_end, specs, "struct 'Foo'", "m.emb"])
                    want, seen, want_checked = [], {}, []
                    for i, k in enumerate(lst):
                        name, dflt, be = KINDS[k]
                        if (be or None) != back_end:
                            continue
                        shown = ("(%s) %s" % (be, name)) if be else name
                        if (name, dflt) in seen:
                            want.append([("ERROR", ("LOC", "attr", i), "Duplicate attribute '%s'." % shown), ("NOTE", ("LOC", "attr", seen[(name, dflt)]), "Original attribute")])
                            continue
                        seen[(name, dflt)] = i
                        if (name, dflt) not in specs:
                            msg = ("Attribute '%s' may not be defaulted on struct 'Foo'." if dflt else "Unknown attribute '%s' on struct 'Foo'.") % shown
                            want.append([("ERROR", ("LOC", "name", i), msg)])
                        else:
                            want_checked.append(i)
                            if i % 2:
                                want.append([("VALUE-ERROR", i)])
                    c.oblige("errors-are-exactly-the-documented-ones-in-order", got == want, detail="%r / back_end=%r: %r, expected %r" % (lst, back_end, got, want))
                    c.oblige("value-checker-runs-exactly-on-allowed-first-occurrences", checked == want_checked, detail="%r vs %r" % (checked, want_checked))
                obs_all.extend(pyvc.collect(eng.explore(harness), "_check_attributes"))
                n += 1
    bad = [o for o in obs_all if o.verdict != core.PROVED]
    if bad:
        return bad[:6], n
    return [core.Obligation("_check_attributes." + nm, core.PROVED, "syntactic", 0.0, detail="%d (attribute list, back end, allowed set) cases" % n)
            for nm in ("errors-are-exactly-the-documented-ones-in-order", "value-checker-runs-exactly-on-allowed-first-occurrences")], n


TARGETS["check_attributes"] = target_check_attributes


def target_byte_order():
    """attribute_checker: _field_needs_byte_order, _field_may_have_null_byte_order, _add_missing_byte_order_attribute_on_field,
    _verify_byte_order_attribute_on_field (C14: "byte order present wherever it matters"), over a ghost field:
    virtual or physical, (base) type bit- or byte-oriented inside a bit- or byte-oriented definition, size constant
    (symbolic value) or not, base type of symbolic / unknown fixed size, attribute absent / LittleEndian / Null,
    $default byte_order present or not:

        needs     := physical and the unit of its base type differs from the unit of the enclosing definition
        may_null  := the size is the constant 1, or the base type's fixed size equals the enclosing unit
        add       : needs and no attribute -> the default's attribute if there is one, else a "Null" attribute iff may_null, else nothing
        verify    : attribute and not needs -> "not allowed";  no attribute and needs -> "required";
                    attribute "Null" and not may_null -> "may only be 'Null' for one-byte fields";  nothing else"""
    ac = importlib.import_module("compiler.front_end.attribute_checker")
    ir_util = importlib.import_module("compiler.util.ir_util")
    ir_data = importlib.import_module("compiler.util.ir_data")
    error = importlib.import_module("compiler.util.error")
    attributes = importlib.import_module("compiler.front_end.attributes")
    AU = ir_data.AddressableUnit
    eng = pyvc.Engine()
    eng.contract(error.error, lambda interp, f, loc, msg: ("ERROR", loc, msg), "error.error")
    eng.contract(ir_util.field_is_virtual, lambda interp, f: f.f["ghost_virtual"], "field_is_virtual")
    eng.contract(ir_util.get_base_type, lambda interp, t: t.f["ghost_base"], "get_base_type")
    eng.contract(ir_util.find_object, lambda interp, cn, ir: cn.f["ghost_object"], "find_object")
    eng.contract(ir_util.is_constant, lambda interp, e: e.f["ghost_constant"], "is_constant")
    eng.contract(ir_util.constant_value, lambda interp, e, bindings=None: e.f["ghost_cv"], "constant_value")
    eng.contract(ac._construct_string_attribute, lambda interp, name, value, loc: ("CONSTRUCTED", name, value, loc), "_construct_string_attribute")

    def harness(c):
        fn = c.choice("function", ["add", "verify"])
        virtual = c.choice("field", ["physical", "virtual"]) == "virtual"
        outer, inner = c.choice("enclosing-unit", ["BYTE", "BIT"]), c.choice("type-unit", ["BYTE", "BIT"])
        size_const = c.choice("size", ["constant", "run-time"]) == "constant"
        fixed_known = c.choice("type-fixed-size", ["known", "unknown"]) == "known"
        attr_kind = c.choice("attribute", ["none", "LittleEndian", "Null"])
        size, fixed = z3.Int("field_size"), z3.Int("type_fixed_size")
        c.assume(z3.And(size >= 0, fixed >= 0))
        eng.contract(ir_util.fixed_size_of_type_in_bits, lambda interp, t, ir: SInt(fixed) if fixed_known else None, "fixed_size_of_type_in_bits")
        attr = None if attr_kind == "none" else SRec("Attribute", {"source_location": ("LOC", "attr"), "string_constant": SRec("String", {"text": attr_kind})})
        eng.contract(ir_util.get_attribute, lambda interp, attrs, name: attr if name == attributes.BYTE_ORDER else None, "get_attribute")
        tdef = SRec("TypeDefinition", {"addressable_unit": getattr(AU, inner)})
        base = SRec("Type", {"atomic_type": SRec("AtomicType", {"reference": SRec("Reference", {"canonical_name": SRec("CanonicalName", {"ghost_object": tdef})})})})
        alist = []
        field = SRec("Field", {"ghost_virtual": virtual, "type": SRec("Type", {"ghost_base": base}), "attribute": alist, "source_location": ("LOC", "field"),
                               "location": SRec("FieldLocation", {"size": SRec("Expression", {"ghost_constant": size_const, "ghost_cv": SInt(size)})})})
        enclosing = SRec("TypeDefinition", {"addressable_unit": getattr(AU, outer)})
        needs = (not virtual) and outer != inner
        unit = 8 if outer == "BYTE" else 1
        may_null = z3.Or(z3.And(z3.BoolVal(size_const), size == 1), z3.And(z3.BoolVal(fixed_known), fixed == unit))
        c.covered = True
        if fn == "add":
            has_default = c.choice("default-byte_order", ["no", "yes"]) == "yes"
            defaults = {attributes.BYTE_ORDER: "DEFAULT-ATTR"} if has_default else {}
            pyvc.run_body(c, "compiler.front_end.attribute_checker._add_missing_byte_order_attribute_on_field", [field, enclosing, "IR", defaults])
            if not needs or attr is not None:
                c.oblige("add:nothing-added-when-not-needed-or-already-present", alist == [], detail=repr(alist))
            elif has_default:
                c.oblige("add:the-default-is-used", alist == ["DEFAULT-ATTR"], detail=repr(alist))
            elif alist:
                c.oblige("add:Null-only-when-byte-order-cannot-matter", z3.And(may_null, z3.BoolVal(alist == [("CONSTRUCTED", attributes.BYTE_ORDER, "Null", ("LOC", "field"))])), detail=repr(alist))
            else:
                c.oblige("add:nothing-added-only-when-byte-order-matters", z3.Not(may_null))
            return
        errors = []
        pyvc.run_body(c, "compiler.front_end.attribute_checker._verify_byte_order_attribute_on_field", [field, enclosing, "m.emb", "IR", errors])
        msgs = [e[0][2] for e in errors if len(e) == 1 and e[0][0] == "ERROR"]
        c.oblige("verify:only-single-message-errors", len(msgs) == len(errors))
        want_not_allowed = attr is not None and not needs
        want_required = attr is None and needs
        c.oblige("verify:not-allowed-iff-present-on-an-independent-field", any("not allowed" in m for m in msgs) == want_not_allowed, detail=repr(msgs))
        c.oblige("verify:required-iff-missing-on-a-dependent-field", any("required" in m for m in msgs) == want_required, detail=repr(msgs))
        null_err = any("may only be 'Null'" in m for m in msgs)
        if attr_kind == "Null":
            c.oblige("verify:Null-rejected-iff-byte-order-matters", (z3.Not(may_null) if null_err else may_null))
        else:
            c.oblige("verify:no-Null-error-without-a-Null-attribute", not null_err)
        c.oblige("verify:no-other-errors", len(msgs) == int(want_not_allowed) + int(want_required) + int(null_err), detail=repr(msgs))
    paths = eng.explore(harness)
    return pyvc.collect(paths, "byte_order"), sum(1 for p in paths if p.covered)


TARGETS["byte_order"] = target_byte_order


def target_external_and_requires():
    """attribute_checker: addressable_unit_size on externals and [requires] on fields (C14).
       _add_addressable_unit_to_external + _verify_addressable_unit_attribute_on_external, for a symbolic attribute value
       (or none): unit BIT iff 1, BYTE iff 8, untouched otherwise; exactly one error iff the attribute is missing or not in {1, 8}.
       _verify_requires_attribute_on_field: no attribute -> nothing; array-typed physical field -> one error with a note;
       otherwise one error iff the field's expression type is not integer / enumeration / boolean (virtual: type of its
       definition; physical: the expression type of its physical type)."""
    ac = importlib.import_module("compiler.front_end.attribute_checker")
    tc = importlib.import_module("compiler.front_end.type_check")
    ir_util = importlib.import_module("compiler.util.ir_util")
    ir_data = importlib.import_module("compiler.util.ir_data")
    error = importlib.import_module("compiler.util.error")
    attributes = importlib.import_module("compiler.front_end.attributes")
    AU = ir_data.AddressableUnit
    eng = pyvc.Engine()
    eng.contract(error.error, lambda interp, f, loc, msg: ("ERROR", loc, msg), "error.error")
    eng.contract(error.note, lambda interp, f, loc, msg: ("NOTE", loc, msg), "error.note")
    eng.contract(ir_util.field_is_virtual, lambda interp, f: f.f["ghost_virtual"], "field_is_virtual")
    eng.contract(ir_util.find_object, lambda interp, ref, ir: ref.f["ghost_object"], "find_object")

    def harness(c):
        what = c.choice("function", ["external", "requires"])
        c.covered = True
        errors = []
        if what == "external":
            present = c.choice("addressable_unit_size", ["present", "absent"]) == "present"
            v = z3.Int("addressable_unit_size")
            eng.contract(ir_util.get_integer_attribute, lambda interp, attrs, name, default_value=None: SInt(v) if present else None, "get_integer_attribute")
            td = SRec("TypeDefinition", {"attribute": [], "addressable_unit": "UNSET", "source_location": ("LOC", "ext")})
            pyvc.run_body(c, "compiler.front_end.attribute_checker._add_addressable_unit_to_external", ["EXTERNAL", td])
            unit = td.f["addressable_unit"]
            if present:
                c.oblige("external:unit-is-BIT-for-1-BYTE-for-8-untouched-otherwise",
                         z3.And(z3.BoolVal(unit is AU.BIT) == (v == 1), z3.BoolVal(unit is AU.BYTE) == (v == 8), z3.BoolVal(unit == "UNSET") == z3.And(v != 1, v != 8)), detail=repr(unit))
            else:
                c.oblige("external:no-attribute-leaves-the-unit-unset", unit == "UNSET", detail=repr(unit))
            pyvc.run_body(c, "compiler.front_end.attribute_checker._verify_addressable_unit_attribute_on_external", ["EXTERNAL", td, "m.emb", errors])
            ok_shape = all(len(e) == 1 and e[0][0] == "ERROR" and e[0][1] == ("LOC", "ext") for e in errors) and len(errors) <= 1
            c.oblige("external:at-most-one-error-at-the-definition", ok_shape, detail=repr(errors)[:200])
            if present:
                c.oblige("external:error-iff-the-value-is-neither-1-nor-8", z3.BoolVal(len(errors) == 1) == z3.And(v != 1, v != 8))
            else:
                c.oblige("external:missing-attribute-is-an-error", len(errors) == 1 and "Expected" in errors[0][0][2], detail=repr(errors)[:200])
            return
        has = c.choice("requires-attribute", ["present", "absent"]) == "present"
        shape = c.choice("field", ["virtual", "physical-array", "physical-atomic"])
        ty = c.choice("expression-type", ["integer", "enumeration", "boolean", "opaque"])
        attr = SRec("Attribute", {"source_location": ("LOC", "requires")}) if has else None
        eng.contract(ir_util.get_attribute, lambda interp, attrs, name: attr if name == attributes.REQUIRES else None, "get_attribute")
        eng.contract(tc.unbounded_expression_type_for_physical_type, lambda interp, td: SRec("ExpressionType", {"which_type": ty}), "unbounded_expression_type_for_physical_type")
        f = {"ghost_virtual": shape == "virtual", "attribute": [], "read_transform": SRec("Expression", {"type": SRec("ExpressionType", {"which_type": ty})})}
        tf = {"source_location": ("LOC", "type")}
        if shape == "physical-atomic":
            tf["atomic_type"] = SRec("AtomicType", {"reference": SRec("Reference", {"ghost_object": SRec("TypeDefinition", {})})})
        f["type"] = SRec("Type", tf, defaults={"has:atomic_type": shape == "physical-atomic"})
        pyvc.run_body(c, "compiler.front_end.attribute_checker._verify_requires_attribute_on_field", [SRec("Field", f), "m.emb", "IR", errors])
        if not has:
            c.oblige("requires:nothing-without-the-attribute", errors == [])
        elif shape == "physical-array":
            c.oblige("requires:array-field-gives-one-error-with-a-note", len(errors) == 1 and len(errors[0]) == 2 and errors[0][0][1] == ("LOC", "requires") and "not arrays" in errors[0][0][2]
                     and errors[0][1] == ("NOTE", ("LOC", "type"), "Field type."), detail=repr(errors)[:300])
        else:
            bad = ty == "opaque"
            c.oblige("requires:error-iff-the-field-is-not-integer-enumeration-or-boolean",
                     (len(errors) == 1 and len(errors[0]) == 1 and errors[0][0][1] == ("LOC", "requires")) if bad else errors == [], detail=repr(errors)[:300])
    paths = eng.explore(harness)
    return pyvc.collect(paths, "external+requires"), sum(1 for p in paths if p.covered)


TARGETS["external_and_requires"] = target_external_and_requires


def target_value_checkers():
    """attribute_util._is_constant_boolean / _is_boolean / _is_constant_integer / _is_string (C14: attributes "with the
    values allowed"): each returns exactly one error, at the value, naming the attribute and the expected kind, iff the
    attribute's value is not of that kind (a non-constant integer gets the "must have a constant value" message), and [] otherwise;
    in particular no exception for a value of another kind (D19: `[requires: "x"]`, `[is_signed: 8]` used to raise AttributeError)."""
    au = importlib.import_module("compiler.util.attribute_util")
    ir_util = importlib.import_module("compiler.util.ir_util")
    ir_data_utils = importlib.import_module("compiler.util.ir_data_utils")
    error = importlib.import_module("compiler.util.error")
    eng = pyvc.Engine()
    eng.identity(ir_data_utils.reader)
    eng.contract(error.error, lambda interp, f, loc, msg: ("ERROR", loc, msg), "error.error")
    eng.contract(ir_util.is_constant, lambda interp, e: e.f["ghost_constant"], "is_constant")

    def harness(c):
        fn = c.choice("checker", ["_is_constant_boolean", "_is_boolean", "_is_constant_integer", "_is_string"])
        val = c.choice("value", ["true", "boolean-expression", "7", "integer-expression", "string", "enum-value"])
        be = c.choice("qualifier", ["", "cpp"])
        which = {"true": "boolean", "boolean-expression": "boolean", "7": "integer", "integer-expression": "integer", "enum-value": "enumeration"}.get(val)
        # faithful to the IR: an unset message field reads as None (these functions do not go through the `reader` wrapper)
        vf = {"source_location": ("LOC", "value")}
        if val == "string":
            vf["string_constant"] = SRec("String", {"text": "s"})
            vf["expression"] = None
        else:
            tf = {"which_type": which, "boolean": None, "integer": None, "enumeration": None}
            if which == "boolean":
                tf["boolean"] = SRec("BooleanType", {"value": True} if val == "true" else {}, defaults={"has:value": val == "true"})
            vf["expression"] = SRec("Expression", {"ghost_constant": val in ("true", "7", "enum-value"), "type": SRec("ExpressionType", tf)})
            vf["string_constant"] = None
        value = SRec("AttributeValue", vf, defaults={"has:expression": val != "string", "has:string_constant": val == "string"})
        attr = SRec("Attribute", {"name": SRec("Word", {"text": "attr"}), "back_end": SRec("Word", {"text": be}), "value": value})
        c.covered = True
        st, got = pyvc.run_body(c, "compiler.util.attribute_util." + fn, [attr, "m.emb"])
        good = {"_is_constant_boolean": val == "true", "_is_boolean": val in ("true", "boolean-expression"), "_is_constant_integer": val == "7", "_is_string": val == "string"}[fn]
        shown = "(cpp) attr" if be else "attr"
        if good:
            c.oblige("accepted-value-gives-no-error", got == [], detail=repr(got)[:200])
        else:
            ok = isinstance(got, list) and len(got) == 1 and len(got[0]) == 1 and got[0][0][0] == "ERROR" and got[0][0][1] == ("LOC", "value") and shown in got[0][0][2]
            c.oblige("wrong-kind-of-value-gives-one-error-at-the-value-naming-the-attribute", ok, detail=repr(got)[:300])
            if ok and fn == "_is_constant_integer" and val == "integer-expression":
                c.oblige("non-constant-integer-gets-the-constant-message", "constant" in got[0][0][2], detail=got[0][0][2])
    paths = eng.explore(harness)
    return pyvc.collect(paths, "attribute-value-checkers"), sum(1 for p in paths if p.covered)


TARGETS["value_checkers"] = target_value_checkers


def target_valid_back_ends():
    """attribute_checker._valid_back_ends: a string that is a comma-delimited list of back-end specifiers (lower-case words,
    optional spaces, optional trailing comma, possibly empty) -> []; any other string -> one error at the value quoting it;
    a value that is not a string -> the "must have a string value" error, no exception (D20)."""
    import re
    ac = importlib.import_module("compiler.front_end.attribute_checker")
    ir_data_utils = importlib.import_module("compiler.util.ir_data_utils")
    error = importlib.import_module("compiler.util.error")
    eng = pyvc.Engine()
    eng.identity(ir_data_utils.reader)
    eng.contract(error.error, lambda interp, f, loc, msg: ("ERROR", loc, msg), "error.error")
    eng.contract(re.fullmatch, lambda interp, pat, text, flags=0: re.fullmatch(pat, text), "re.fullmatch (CPython, on concrete text)")
    au = importlib.import_module("compiler.util.attribute_util")
    eng.inline_fn(au._is_string, "compiler.util.attribute_util._is_string")
    GOOD = ["", "cpp", "cpp, proto", " cpp ,proto_2 , x,", "a,b"]
    BAD = ["Cpp", "cpp proto", ",", "cpp,,proto", "1cpp", "cpp;"]

    def harness(c):
        kind = c.choice("value", ["good:%d" % i for i in range(len(GOOD))] + ["bad:%d" % i for i in range(len(BAD))] + ["integer", "boolean"])
        vf = {"source_location": ("LOC", "value")}
        if ":" in kind:
            text = (GOOD if kind.startswith("good") else BAD)[int(kind.split(":")[1])]
            vf["string_constant"] = SRec("String", {"text": text})
            vf["expression"] = None
        else:
            vf["string_constant"] = None
            vf["expression"] = SRec("Expression", {"type": SRec("ExpressionType", {"which_type": kind, "boolean": None})})
        value = SRec("AttributeValue", vf, defaults={"has:expression": ":" not in kind, "has:string_constant": ":" in kind})
        attr = SRec("Attribute", {"name": SRec("Word", {"text": "expected_back_ends"}), "back_end": SRec("Word", {"text": ""}), "value": value})
        c.covered = True
        st, got = pyvc.run_body(c, "compiler.front_end.attribute_checker._valid_back_ends", [attr, "m.emb"])
        if kind.startswith("good"):
            c.oblige("well-formed-list-gives-no-error", got == [], detail=repr(got)[:200])
        else:
            ok = isinstance(got, list) and len(got) == 1 and len(got[0]) == 1 and got[0][0][0] == "ERROR" and got[0][0][1] == ("LOC", "value") and "expected_back_ends" in got[0][0][2]
            c.oblige("anything-else-gives-one-error-at-the-value", ok, detail=repr(got)[:300])
    paths = eng.explore(harness)
    return pyvc.collect(paths, "_valid_back_ends"), sum(1 for p in paths if p.covered)


TARGETS["valid_back_ends"] = target_valid_back_ends
