"""E1 contracts on compiler/front_end/attribute_checker.py (C14 fixed-size rule, C19/C14 enum width and sign).

  _fixed_size_of_struct_or_bits(struct, unit)   None iff some physical field has a non-constant start or size; otherwise
                                                unit * (largest end of any physical field), 0 for none; virtual fields ignored
  _verify_size_attributes_on_structure          one error iff [fixed_size_in_bits] is present and the structure is not fixed
                                                size or the declared value differs from the computed size
  _add_missing_size_attributes_on_structure     adds the attribute, with the computed size, iff fixed size and not already present
  _add_missing_width_and_sign_attributes_on_enum  maximum_bits defaults to 64; is_signed defaults to "some value is negative";
                                                explicit attributes are left alone
  _verify_width_attribute_on_enum               one error iff maximum_bits is outside 1..64

ir_util attribute lookups and the _construct_*_attribute helpers are opaque (contracts over a ghost name/value)."""
import importlib

import z3

from vlib import core, pyvc
from vlib.pyvc import SBool, SInt, SRec

AC = "compiler.front_end.attribute_checker"


def _engine():
    ac = importlib.import_module(AC)
    ir_util = importlib.import_module("compiler.util.ir_util")
    error = importlib.import_module("compiler.util.error")
    eng = pyvc.Engine()
    eng.contract(ir_util.constant_value, lambda interp, e, bindings=None: e.f["ghost_cv"], "constant_value")

    def find(attrs, name):
        for a in attrs:
            if a.f["ghost_name"] == name:
                return a
        return None
    eng.contract(ir_util.get_attribute, lambda interp, attrs, name: find(attrs, name), "get_attribute")
    eng.contract(ir_util.get_integer_attribute, lambda interp, attrs, name, default_value=None: (find(attrs, name).f["ghost_value"] if find(attrs, name) else default_value), "get_integer_attribute")
    eng.contract(ir_util.get_boolean_attribute, lambda interp, attrs, name, default_value=None: (find(attrs, name).f["ghost_value"] if find(attrs, name) else default_value), "get_boolean_attribute")
    eng.contract(ac._construct_integer_attribute, lambda interp, name, value, loc: SRec("Attribute", {"ghost_name": name, "ghost_value": value, "ghost_constructed": "integer"}), "_construct_integer_attribute")
    eng.contract(ac._construct_boolean_attribute, lambda interp, name, value, loc: SRec("Attribute", {"ghost_name": name, "ghost_value": value, "ghost_constructed": "boolean"}), "_construct_boolean_attribute")
    for f in (error.error, error.note, error.warn):
        eng.contract(f, lambda interp, *a, **k: SRec("ErrorMessage", {}), f.__name__)
    return eng, ac


def _fields(c, nmax=3):
    """A structure with 0..nmax fields, each virtual, physical-constant or physical with an unknown start/size."""
    n = int(c.choice("fields", [str(i) for i in range(nmax + 1)]))
    fields, ends, unknown = [], [], False
    for i in range(n):
        kind = c.choice("f%d" % i, ["physical", "virtual", "unknown-start", "unknown-size"])
        if kind == "virtual":
            fields.append(SRec("Field", {}, defaults={"has:location": False}))
            continue
        st, sz = z3.Int("start%d" % i), z3.Int("size%d" % i)
        c.assume(z3.And(st >= 0, sz >= 0))
        loc = SRec("FieldLocation", {"start": SRec("Expression", {"ghost_cv": None if kind == "unknown-start" else SInt(st)}),
                                     "size": SRec("Expression", {"ghost_cv": None if kind == "unknown-size" else SInt(sz)})})
        fields.append(SRec("Field", {"location": loc}, defaults={"has:location": True}))
        if kind == "physical":
            ends.append(st + sz)
        else:
            unknown = True
    return fields, ends, unknown


def _spec_size(ends, unit):
    m = z3.IntVal(0)
    for e in ends:
        m = z3.If(e > m, e, m)
    return m * unit


def target_fixed_size():
    eng, ac = _engine()

    def harness(c):
        fields, ends, unknown = _fields(c)
        unit = int(c.choice("unit", ["1", "8"]))
        c.covered = True
        st, got = pyvc.run_body(c, AC + "._fixed_size_of_struct_or_bits", [SRec("Structure", {"field": fields}), unit])
        if unknown:
            c.oblige("None-when-a-physical-field-is-not-constant", got is None, detail=repr(got))
            return
        c.oblige("a-size-when-every-physical-field-is-constant", got is not None and not isinstance(got, SRec), detail=repr(got))
        if got is not None:
            c.oblige("size-is-unit-times-the-largest-end", pyvc.zint(got) == _spec_size(ends, unit), detail=repr(got))
    paths = eng.explore(harness)
    return pyvc.collect(paths, "_fixed_size_of_struct_or_bits"), sum(1 for p in paths if p.covered)


def target_size_attributes():
    eng, ac = _engine()
    attributes = importlib.import_module("compiler.front_end.attributes")
    eng.inline_fn(ac._fixed_size_of_struct_or_bits, AC + "._fixed_size_of_struct_or_bits")

    def harness(c):
        which = c.choice("f", ["_verify_size_attributes_on_structure", "_add_missing_size_attributes_on_structure"])
        fields, ends, unknown = _fields(c, nmax=2)
        unit = int(c.choice("unit", ["1", "8"]))
        has_attr = c.choice("fixed_size-attribute", ["absent", "present"]) == "present"
        declared = z3.Int("declared")
        attrs = []
        if has_attr:
            attrs.append(SRec("Attribute", {"ghost_name": attributes.FIXED_SIZE, "ghost_value": SInt(declared), "source_location": SRec("SourceLocation", {}),
                                            "expression": SRec("Expression", {"ghost_cv": SInt(declared)})}))
        td = SRec("TypeDefinition", {"addressable_unit": unit, "attribute": attrs, "source_location": SRec("SourceLocation", {})})
        struct = SRec("Structure", {"field": fields})
        errors = []
        c.covered = True
        if which.startswith("_verify"):
            pyvc.run_body(c, AC + "." + which, [struct, td, "f.emb", errors])
            if not has_attr:
                c.oblige("no-attribute-no-error", len(errors) == 0)
            elif unknown:
                c.oblige("error-when-marked-fixed-but-not-fixed-size", len(errors) == 1)
            else:
                c.oblige("error-iff-declared-size-differs", z3.BoolVal(len(errors) == 1) == (declared != _spec_size(ends, unit)) if len(errors) <= 1 else False,
                         detail="%d errors" % len(errors))
        else:
            pyvc.run_body(c, AC + "." + which, [struct, td])
            added = [a for a in attrs if a.f.get("ghost_constructed")]
            if unknown or has_attr:
                c.oblige("nothing-added", not added and len(attrs) == (1 if has_attr else 0))
            else:
                ok = len(added) == 1 and added[0].f["ghost_name"] == attributes.FIXED_SIZE and added[0].f["ghost_constructed"] == "integer"
                c.oblige("fixed_size-attribute-added-once", ok, detail=str(attrs))
                if ok:
                    c.oblige("with-the-computed-size", pyvc.zint(added[0].f["ghost_value"]) == _spec_size(ends, unit))
    paths = eng.explore(harness)
    return pyvc.collect(paths, "size_attributes"), sum(1 for p in paths if p.covered)


def target_enum_attributes():
    eng, ac = _engine()
    attributes = importlib.import_module("compiler.front_end.attributes")

    def harness(c):
        nvals = int(c.choice("values", ["0", "1", "2", "3"]))
        vals = [z3.Int("v%d" % i) for i in range(nvals)]
        enum = SRec("Enum", {"value": [SRec("EnumValue", {"value": SRec("Expression", {"ghost_cv": SInt(v)})}) for v in vals]})
        has_bits = c.choice("maximum_bits", ["absent", "present"]) == "present"
        has_sign = c.choice("is_signed", ["absent", "present"]) == "present"
        bits, sign = z3.Int("bits"), z3.Bool("sign")
        attrs = []
        if has_bits:
            attrs.append(SRec("Attribute", {"ghost_name": attributes.ENUM_MAXIMUM_BITS, "ghost_value": SInt(bits)}))
        if has_sign:
            attrs.append(SRec("Attribute", {"ghost_name": attributes.IS_SIGNED, "ghost_value": SBool(sign)}))
        before = list(attrs)
        td = SRec("TypeDefinition", {"attribute": attrs, "source_location": SRec("SourceLocation", {})})
        c.covered = True
        pyvc.run_body(c, AC + "._add_missing_width_and_sign_attributes_on_enum", [enum, td])
        c.oblige("explicit-attributes-kept", attrs[:len(before)] == before)
        added = attrs[len(before):]
        names = [a.f["ghost_name"] for a in added]
        c.oblige("adds-exactly-the-missing-attributes", sorted(names) == sorted(([] if has_bits else [attributes.ENUM_MAXIMUM_BITS]) + ([] if has_sign else [attributes.IS_SIGNED])),
                 detail=str(names))
        for a in added:
            if a.f["ghost_name"] == attributes.ENUM_MAXIMUM_BITS:
                c.oblige("maximum_bits-defaults-to-64", a.f["ghost_constructed"] == "integer" and pyvc.zint(a.f["ghost_value"]) == 64, detail=repr(a.f["ghost_value"]))
            if a.f["ghost_name"] == attributes.IS_SIGNED:
                want = z3.Or([v < 0 for v in vals]) if vals else z3.BoolVal(False)
                got = a.f["ghost_value"]
                c.oblige("is_signed-defaults-to-some-value-negative", a.f["ghost_constructed"] == "boolean" and isinstance(got, (bool, SBool)) and (pyvc.zbool(got) == want),
                         detail=repr(got))
    paths = eng.explore(harness)
    return pyvc.collect(paths, "_add_missing_width_and_sign_attributes_on_enum"), sum(1 for p in paths if p.covered)


def target_enum_width():
    eng, ac = _engine()
    attributes = importlib.import_module("compiler.front_end.attributes")

    def harness(c):
        bits = z3.Int("bits")
        attrs = [SRec("Attribute", {"ghost_name": attributes.ENUM_MAXIMUM_BITS, "ghost_value": SInt(bits), "source_location": SRec("SourceLocation", {})})]
        td = SRec("TypeDefinition", {"attribute": attrs})
        errors = []
        c.covered = True
        pyvc.run_body(c, AC + "._verify_width_attribute_on_enum", [SRec("Enum", {}), td, "f.emb", errors])
        c.oblige("error-iff-outside-1..64", z3.BoolVal(len(errors) == 1) == z3.Or(bits < 1, bits > 64) if len(errors) <= 1 else False, detail="%d errors" % len(errors))
    paths = eng.explore(harness)
    return pyvc.collect(paths, "_verify_width_attribute_on_enum"), sum(1 for p in paths if p.covered)


def target_gather_defaults():
    """attribute_util.gather_default_attributes: the defaults visible below a node are the inherited ones, overridden (by
    name) by the node's own `$default` attributes; nothing inherited is lost, non-default attributes do not become
    defaults, the stored copies are not themselves marked `$default`, and the inherited dict is not modified."""
    au = importlib.import_module("compiler.util.attribute_util")
    idu = importlib.import_module("compiler.util.ir_data_utils")
    eng = pyvc.Engine()
    eng.contract(idu.copy, lambda interp, a: SRec("Attribute", dict(a.f, ghost_copy_of=a)), "ir_data_utils.copy")
    NAMES = ["byte_order", "enum_case", "namespace"]

    def harness(c):
        inherited = {}
        for nm in NAMES[:2]:
            if c.choice("inherited:" + nm, ["no", "yes"]) == "yes":
                inherited[nm] = SRec("Attribute", {"name": SRec("Word", {"text": nm}), "is_default": False, "ghost_origin": "outer"})
        n = int(c.choice("own-attributes", ["0", "1", "2"]))
        own = []
        for i in range(n):
            nm = c.choice("a%d" % i, NAMES)
            dflt = c.choice("a%d:$default" % i, ["yes", "no"]) == "yes"
            own.append(SRec("Attribute", {"name": SRec("Word", {"text": nm}), "is_default": dflt, "ghost_origin": "own%d" % i}))
        before = dict(inherited)
        obj = SRec("TypeDefinition", {"attribute": own})
        c.covered = True
        st, got = pyvc.run_body(c, "compiler.util.attribute_util.gather_default_attributes", [obj, inherited])
        # the result updates the traversal's parameters: a missing "defaults" key leaves the inherited dict in force
        ok = isinstance(got, dict) and set(got) <= {"defaults"} and isinstance(got.get("defaults", {}), dict)
        c.oblige("returns-a-parameter-update-for-`defaults`", ok, detail=repr(got)[:200])
        if not ok:
            return
        res = got.get("defaults", inherited)
        want = dict((k_, ("outer", None)) for k_ in before)
        for i, a in enumerate(own):
            if a.f["is_default"]:
                want[a.f["name"].f["text"]] = ("own", a)
        c.oblige("defaults-are-the-inherited-ones-overridden-by-the-node's-own", set(res) == set(want), detail="got %s want %s" % (sorted(res), sorted(want)))
        for k_, (src, a) in want.items():
            if k_ not in res:
                continue
            if src == "outer":
                c.oblige("inherited-default-kept[%s]" % k_, res[k_] is before[k_])
            else:
                c.oblige("own-default-is-a-copy-not-marked-$default[%s]" % k_, res[k_].f.get("ghost_copy_of") is a and res[k_].f["is_default"] is False and a.f["is_default"] is True)
        c.oblige("inherited-dict-not-modified", inherited == before)
    paths = eng.explore(harness)
    return pyvc.collect(paths, "gather_default_attributes"), sum(1 for p in paths if p.covered)


TARGETS = {"gather_defaults": target_gather_defaults, "fixed_size": target_fixed_size, "size_attributes": target_size_attributes, "enum_attributes": target_enum_attributes, "enum_width": target_enum_width}
FUNCTIONS = ["(attribute_util) gather_default_attributes", "_fixed_size_of_struct_or_bits", "_verify_size_attributes_on_structure", "_add_missing_size_attributes_on_structure",
             "_add_missing_width_and_sign_attributes_on_enum", "_verify_width_attribute_on_enum"]
