"""E1 contracts on how compiler/front_end/dependency_checker BUILDS the graphs whose cycles are rejected and REPORTS the cycles
found (C15) - the cycle finder itself (_find_cycles, Tarjan) stays a bounded comparison with an independent SCC computation.

   _find_module_import_dependencies     node per module, edge per import - INCLUDING a module's import of itself; only the
                                        prelude's automatic self-import (empty file name in a module with an empty name) is left out
   _add_name_to_dependencies            every field / enum value / parameter becomes a node; edges already recorded are kept
   _add_reference_to_dependencies       edge name -> referenced object; $is_statically_sized / $static_size_in_bits / $next
                                        in this position: one error, no edge; edges of other nodes untouched
   _add_field_reference_to_dependencies edge name -> HEAD of the field path (a.b.c depends on a)
   _find_object_dependency_cycles       errors of graph construction are returned as they are; otherwise exactly one error group
   _find_module_dependency_cycles       per cycle reported by _find_cycles (first member: error, the others: notes), none dropped
   find_dependency_cycles               module cycles first, then object cycles; empty iff neither finds one"""
import importlib
import itertools

from vlib import core, pyvc
from vlib.pyvc import GObj, SRec

DC = "compiler.front_end.dependency_checker"


def _engine():
    dc = importlib.import_module(DC)
    ir_util = importlib.import_module("compiler.util.ir_util")
    error = importlib.import_module("compiler.util.error")
    eng = pyvc.Engine()
    eng.contract(set, lambda interp, xs=(): set(xs), "set()")
    eng.contract(dict, lambda interp, d=(): dict(d), "dict()")
    eng.contract(ir_util.hashable_form_of_reference, lambda interp, r: (r.f["canonical_name"].f["module_file"],) + tuple(r.f["canonical_name"].f["object_path"]), "hashable_form_of_reference")
    eng.contract(error.error, lambda interp, f, loc, msg: ("ERROR", f, loc, msg), "error.error")
    eng.contract(error.note, lambda interp, f, loc, msg: ("NOTE", f, loc, msg), "error.note")
    return dc, ir_util, eng


def _ref(mod, *path):
    return SRec("Reference", {"canonical_name": SRec("CanonicalName", {"module_file": mod, "object_path": list(path)}), "source_location": ("LOC",) + tuple(path)})


def target_module_import_dependencies():
    dc, ir_util, eng = _engine()
    names = ["", "a.emb", "b.emb"]          # "" is the prelude (its module has an empty source_file_name, and is imported with an empty file name)
    choices = ["", "a.emb", "b.emb", "c.emb"]
    obs_all, n = [], 0
    for k in (1, 2, 3):
        mods = names[:k] if k < 3 else names
        for imports in itertools.product([()] + [(x,) for x in choices] + [(x, y) for x in choices for y in choices if x < y], repeat=len(mods)):
            def harness(c, mods=mods, imports=imports):
                ir = SRec("EmbossIr", {"module": [SRec("Module", {"source_file_name": m, "foreign_import": [SRec("Import", {"file_name": SRec("String", {"text": f})}) for f in imp]})
                                                  for m, imp in zip(mods, imports)]})
                c.covered = True
                st, got = pyvc.run_body(c, DC + "._find_module_import_dependencies", [ir])
                want = {(m,): {(f,) for f in imp if f or m} for m, imp in zip(mods, imports)}
                c.oblige("node-per-module-edge-per-import-self-imports-included", isinstance(got, dict) and {k2: set(v) for k2, v in got.items()} == want,
                         detail="modules %r imports %r: got %r" % (mods, imports, got))
            paths = eng.explore(harness)
            n += 1
            obs_all.extend(pyvc.collect(paths, "_find_module_import_dependencies"))
    bad = [o for o in obs_all if o.verdict != core.PROVED]
    if bad:
        return bad[:5], n
    return [core.Obligation("_find_module_import_dependencies.node-per-module-edge-per-import-self-imports-included", core.PROVED, "syntactic", round(sum(o.seconds for o in obs_all), 3),
                            detail="%d import graphs: <= 3 modules (prelude, a.emb, b.emb), each importing any <= 2 of {prelude, a.emb, b.emb, c.emb}, self-imports included" % n)], n


def target_edges():
    dc, ir_util, eng = _engine()

    def harness(c):
        fn = c.choice("f", ["_add_name_to_dependencies", "_add_reference_to_dependencies", "_add_field_reference_to_dependencies"])
        me, other = ("m.emb", "Foo", "x"), ("m.emb", "Foo", "zz")
        pre_state = c.choice("node", ["new", "has-edges"])
        old_edge = ("m.emb", "Foo", "old")
        deps = {other: {("m.emb", "Foo", "q")}}
        if pre_state == "has-edges":
            deps[me] = {old_edge}
        elif fn != "_add_name_to_dependencies":
            deps[me] = set()
        c.covered = True
        if fn == "_add_name_to_dependencies":
            proto = SRec("Field", {"name": _ref(*me)})
            st, got = pyvc.run_body(c, DC + "." + fn, [proto, deps])
            c.oblige("node-exists-afterwards-earlier-edges-kept", deps.get(me) == ({old_edge} if pre_state == "has-edges" else set()) and deps[other] == {("m.emb", "Foo", "q")} and set(deps) == {me, other}, detail=repr(deps))
            c.oblige("passes-the-node-on-as-the-current-name", got == {"name": me}, detail=repr(got))
            return
        if fn == "_add_reference_to_dependencies":
            target = c.choice("reference", ["field", "other-module-constant", "$is_statically_sized", "$static_size_in_bits", "$next", "$size_in_bytes"])
            tgt = {"field": ("m.emb", "Foo", "y"), "other-module-constant": ("o.emb", "Bar", "k")}.get(target, ("m.emb", "Foo", target) if target == "$size_in_bytes" else ("", target))
            ref = _ref(tgt[0], *tgt[1:])
            errors = []
            st, got = pyvc.run_body(c, DC + "." + fn, [ref, deps, me, "m.emb", errors])
            base = {old_edge} if pre_state == "has-edges" else set()
            if target in ("$is_statically_sized", "$static_size_in_bits", "$next"):
                c.oblige("keyword-out-of-place:one-error-no-edge", deps[me] == base and len(errors) == 1 and len(errors[0]) == 1 and errors[0][0][0] == "ERROR" and errors[0][0][2] == ref.f["source_location"]
                         and target in errors[0][0][3], detail=repr(errors))
            else:
                c.oblige("edge-to-the-referenced-object-added-earlier-edges-kept", deps[me] == base | {tgt} and errors == [], detail=repr(deps[me]))
            c.oblige("frame:other-nodes-untouched", deps[other] == {("m.emb", "Foo", "q")} and set(deps) == {me, other})
            return
        plen = int(c.choice("path-length", ["1", "2", "3"]))
        path = [_ref("m.emb", "Foo", "head")] + [_ref("m.emb", "T%d" % i, "member%d" % i) for i in range(1, plen)]
        fr = SRec("FieldReference", {"path": path})
        st, got = pyvc.run_body(c, DC + "." + fn, [fr, deps, me])
        base = {old_edge} if pre_state == "has-edges" else set()
        c.oblige("edge-to-the-head-of-the-path-only", deps[me] == base | {("m.emb", "Foo", "head")}, detail=repr(deps[me]))
        c.oblige("frame:other-nodes-untouched", deps[other] == {("m.emb", "Foo", "q")} and set(deps) == {me, other})
    paths = eng.explore(harness)
    return pyvc.collect(paths, "dependency_edges"), sum(1 for p in paths if p.covered)


def target_cycle_reports():
    dc, ir_util, eng = _engine()
    A, B, C, D = ("m.emb", "Foo", "a"), ("m.emb", "Foo", "b"), ("m.emb", "Foo", "c"), ("n.emb", "Bar", "d")
    cycle_sets = {"none": [], "self-loop": [[A]], "two-cycle": [[A, B]], "two-components": [[B, C], [A]], "three-components-two-modules": [[C], [D], [A, B]], "big": [[A, B, C, D]]}

    def harness(c):
        which = c.choice("f", ["_find_object_dependency_cycles", "_find_module_dependency_cycles", "find_dependency_cycles"])
        c.covered = True
        if which == "find_dependency_cycles":
            me, oe = c.choice("module-cycles", ["0", "1", "2"]), c.choice("object-cycles", ["0", "1", "2"])
            m_err = [["M%d" % i] for i in range(int(me))]
            o_err = [["O%d" % i] for i in range(int(oe))]
            eng.contract(dc._find_module_dependency_cycles, lambda interp, ir: list(m_err), "_find_module_dependency_cycles")
            eng.contract(dc._find_object_dependency_cycles, lambda interp, ir: list(o_err), "_find_object_dependency_cycles")
            st, got = pyvc.run_body(c, DC + ".find_dependency_cycles", ["IR"])
            c.oblige("all-module-cycle-errors-then-all-object-cycle-errors", got == m_err + o_err, detail=repr(got))
            c.oblige("empty-iff-no-cycle-of-either-kind", (got == []) == (me == "0" and oe == "0"))
            return
        shape = c.choice("cycles", sorted(cycle_sets))
        objectish = which == "_find_object_dependency_cycles"
        comps = cycle_sets[shape] if objectish else [[(n[0],) for n in comp] for comp in cycle_sets[shape]]
        comps = [sorted(set(comp)) for comp in comps]
        comps = [comp for i, comp in enumerate(comps) if comp not in comps[:i]]
        build_errors = c.choice("graph-construction-errors", ["no", "yes"]) if objectish else "no"
        graph = {"ghost": "graph"}
        eng.contract(dc._find_dependencies, lambda interp, ir: (dict(graph), [["BUILD-ERROR"]] if build_errors == "yes" else []), "_find_dependencies")
        eng.contract(dc._find_module_import_dependencies, lambda interp, ir: dict(graph), "_find_module_import_dependencies")
        asked = []

        def find_cycles(interp, g):
            asked.append(g)
            return {frozenset(comp) for comp in comps}
        eng.contract(dc._find_cycles, find_cycles, "_find_cycles")

        def find_object(interp, name, ir):
            return SRec("Node", {"source_location": ("LOC", name), "source_file_name": name[0], "name": SRec("NameDefinition", {"name": SRec("Word", {"text": name[-1]})})})
        eng.contract(ir_util.find_object, find_object, "ir_util.find_object")
        st, got = pyvc.run_body(c, DC + "." + which, ["IR"])
        if build_errors == "yes":
            c.oblige("graph-construction-errors-returned-as-they-are", got == [["BUILD-ERROR"]], detail=repr(got))
            return
        c.oblige("cycles-are-searched-in-the-graph-that-was-built", asked == [graph], detail=repr(asked))
        ok = isinstance(got, list) and len(got) == len(comps)
        c.oblige("one-error-group-per-cycle-none-dropped", ok, detail="%d groups for %d cycles" % (len(got) if isinstance(got, list) else -1, len(comps)))
        if not ok:
            return
        want_order = sorted(comps)
        for grp, comp in zip(got, want_order):
            good = len(grp) == len(comp) and grp[0][0] == "ERROR" and all(g[0] == "NOTE" for g in grp[1:]) and [g[2] for g in grp] == [("LOC", n) for n in comp] and [g[1] for g in grp] == [n[0] for n in comp] \
                and "ependency cycle" in grp[0][3]
            c.oblige("group-names-every-member-of-its-cycle-error-first-then-notes-in-sorted-order", good, detail=repr(grp)[:300])
    paths = eng.explore(harness)
    return pyvc.collect(paths, "cycle_reports"), sum(1 for p in paths if p.covered)


TARGETS = {"_find_module_import_dependencies": target_module_import_dependencies, "dependency_edges": target_edges, "cycle_reports": target_cycle_reports}


def target_wiring():
    """Which IR nodes the edge functions are applied to: _find_dependencies, _find_dependency_ordering_for_fields and
    set_dependency_order over the callee contract of traverse_ir.fast_traverse_ir_top_down (assumed, as in
    contracts/resolver2.py).  Every Field / EnumValue / RuntimeParameter becomes a node (and the current `name`) in both
    traversals; plain references are edges except below an atomic type's own reference, an attribute, or a field reference
    (whose HEAD is the edge, added by the second traversal - this time also inside atomic types, i.e. in type arguments)."""
    dc = importlib.import_module(DC)
    ir_data = importlib.import_module("compiler.util.ir_data")
    traverse_ir = importlib.import_module("compiler.util.traverse_ir")
    eng = pyvc.Engine()
    log = []
    inject = {}

    def traverse(interp, ir, pattern, action, incidental_actions=None, skip_descendants_of=(), parameters=None):
        log.append((tuple(pattern), action, dict(incidental_actions or {}), set(skip_descendants_of), dict(parameters or {})))
        if inject.get(len(log)):
            parameters["errors"].append("ERR%d" % len(log))
    eng.contract(traverse_ir.fast_traverse_ir_top_down, traverse, "traverse_ir.fast_traverse_ir_top_down")
    NODES = {ir_data.Field: dc._add_name_to_dependencies, ir_data.EnumValue: dc._add_name_to_dependencies, ir_data.RuntimeParameter: dc._add_name_to_dependencies}

    def names(lg):
        return [(tuple(k.__name__ for k in x[0]), x[1].__name__, sorted(k.__name__ for k in x[3])) for x in lg]

    def harness(c):
        fn = c.choice("f", ["_find_dependencies", "_find_dependency_ordering_for_fields", "set_dependency_order"])
        del log[:]
        inject.clear()
        c.covered = True
        if fn == "_find_dependencies":
            if c.choice("keyword-error", ["no", "yes"]) == "yes":
                inject[1] = True
            st, got = pyvc.run_body(c, DC + "." + fn, ["IR"])
            want = [((ir_data.Reference,), dc._add_reference_to_dependencies, NODES, {ir_data.AtomicType, ir_data.Attribute, ir_data.FieldReference}),
                    ((ir_data.FieldReference,), dc._add_field_reference_to_dependencies, NODES, {ir_data.Attribute})]
            c.oblige("plain-references-then-field-reference-heads-each-below-its-node", [(x[0], x[1], x[2], x[3]) for x in log] == want, detail=repr(names(log)))
            ok = isinstance(got, tuple) and len(got) == 2 and len(log) == 2 and got[0] is log[0][4].get("dependencies") and got[0] is log[1][4].get("dependencies")
            c.oblige("one-graph-shared-by-both-traversals-and-returned-with-the-errors", ok and got[1] == (["ERR1"] if inject.get(1) else []), detail=repr(got)[:200])
            return
        if fn == "_find_dependency_ordering_for_fields":
            st, got = pyvc.run_body(c, DC + "." + fn, ["IR"])
            want = [((ir_data.FieldReference,), dc._add_field_reference_to_dependencies, NODES, {ir_data.Attribute}), ((ir_data.Structure,), dc._find_dependency_ordering_for_fields_in_structure, {}, set())]
            c.oblige("field-reference-edges-collected-then-every-structure-ordered-with-them", [(x[0], x[1], x[2], x[3]) for x in log] == want and len(log) == 2
                     and log[0][4].get("dependencies") is log[1][4].get("dependencies"), detail=repr(names(log)))
            return
        calls = []
        eng.contract(dc._find_dependency_ordering_for_fields, lambda interp, ir: calls.append(ir), "_find_dependency_ordering_for_fields")
        st, got = pyvc.run_body(c, DC + ".set_dependency_order", ["IR"])
        c.oblige("orders-the-fields-of-the-given-ir-and-reports-no-error", calls == ["IR"] and got == [], detail=repr((calls, got)))
    paths = eng.explore(harness)
    return pyvc.collect(paths, "dependency_wiring"), sum(1 for p in paths if p.covered)


TARGETS["dependency_wiring"] = target_wiring
