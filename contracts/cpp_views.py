"""E2a contracts for the scalar views of runtime/cpp (C02 read, C03 write, C04 safety, C19 EnumView).

Configuration space (enumerated completely): view type T, field width w in legal(T), backing =
  "bits":   View<P<w>, OffsetBitBlock<BitBlock<Orderer<CB<uchar,1,0>>, c>>>   bit offset a0 symbolic
  "struct": View<P<w>, BitBlock<Orderer<CB<uchar,1,0>>, w>>                   (w a whole number of bytes)
container carved out of a larger buffer (p, n) at symbolic byte offset m, byte order LE / BE / Null.

Reference semantics (written from doc/language-reference.md and the tables in emboss_memory_util.h):
  container value C = the c/8 bytes at p+m read in the field's byte order (BE: first byte most
  significant; LE: first byte least significant); bit 0 is the least significant bit of C;
  field bits F = (C >> o) mod 2^w;  UInt = F;  Int = two's complement of F at width w;
  Bcd = sum nibble_k * 10^k (high partial nibble zero-extended), Ok only if every nibble <= 9;
  Flag = F != 0;  Float = the IEEE-754 bit pattern F;  enum = F as UInt/Int at width w cast to the enum.
"""
import z3

from vlib.llvc import enc
from vlib.llvc.harness import load_le, load_be

bv = enc.bv
INCLUDES = ["runtime/cpp/emboss_prelude.h", "runtime/cpp/emboss_enum_view.h"]
PREAMBLE = '''
using namespace emboss::support; using namespace emboss::prelude;
typedef ContiguousBuffer<unsigned char,1,0> CB;
template<int W_> using P = FixedSizeViewParameters<W_, AllValuesAreOk>;
enum class EU8 : uint8_t {A=1}; enum class EU16 : uint16_t {A=1}; enum class EU32 : uint32_t {A=1}; enum class EU64 : uint64_t {A=1};
enum class ES8 : int8_t {A=1}; enum class ES16 : int16_t {A=1}; enum class ES32 : int32_t {A=1}; enum class ES64 : int64_t {A=1};
'''
ORDERER = {"LE": "LittleEndianByteOrderer", "BE": "BigEndianByteOrderer", "Null": "NullByteOrderer"}


BCD_DIRECT_MAX_W = 16


def value_bits(w):
    for b in (8, 16, 32, 64):
        if w <= b:
            return b


# ---------------------------------------------------------------------------
# C++ wrapper generation


ALIGNED = [(8, 0), (8, 4), (8, 2), (8, 6), (8, 1), (4, 0), (4, 2), (4, 3), (2, 0), (2, 1)]     # (alignment, offset) template pairs of GetOffsetStorage


def aligned_of(backing):
    """("al8_4") -> (8, 4): the container is carved out of an 8-byte aligned buffer with GetOffsetStorage<8, 4>, as the
    generated accessors of MakeAligned...View<..., 8> do; the MemoryAccessor chain then reaches the aligned fast paths."""
    if backing.startswith("al"):
        a, o = backing[2:].split("_")
        return int(a), int(o)
    return None


def view_decl(T, w, c, order, backing, enum_ty=None):
    al = aligned_of(backing)
    if al:
        s = ("  typedef ContiguousBuffer<unsigned char, 8, 0> CB8;\n  CB8 base{p, n};\n  auto st = base.GetOffsetStorage<%d, %d>(m, %d);\n"
             "  typedef BitBlock<%s<decltype(st)>, %d> BB;\n  BB bb{st};\n" % (al[0], al[1], c // 8, ORDERER[order], c))
        vt = "%sView<P<%d>, BB>" % (T, w) if T != "Enum" else "EnumView<%s, P<%d>, BB>" % (enum_ty, w)
        return s + "  %s v{bb};\n" % vt
    bb = "BitBlock<%s<CB>, %d>" % (ORDERER[order], c)
    s = "  typedef %s BB;\n  CB base{p, n};\n  BB bb{base.GetOffsetStorage<1,0>(m, %d)};\n" % (bb, c // 8)
    if T == "Enum":
        vt = "EnumView<%s, P<%d>, %%s>" % (enum_ty, w)
    else:
        vt = "%sView<P<%d>, %%s>" % (T, w)
    if backing == "bits":
        s += "  auto ob = bb.GetOffsetStorage<1,0>(a0, %d);\n  %s v{ob};\n" % (w, vt % "OffsetBitBlock<BB>")
    else:
        s += "  %s v{bb};\n" % (vt % "BB")
    return s


def to_u64(T, expr, enum_ty=None):
    if T == "Int":
        return "(uint64_t)(int64_t)(%s)" % expr
    if T == "Enum":
        signed = enum_ty.startswith("ES")
        return "(uint64_t)(%s)static_cast<typename std::underlying_type<%s>::type>(%s)" % ("int64_t" if signed else "uint64_t", enum_ty, expr)
    if T == "Float":
        return "bits_of(%s)" % expr
    return "(uint64_t)(%s)" % expr


def read_wrapper(T, w, c, order, backing, enum_ty=None):
    s = view_decl(T, w, c, order, backing, enum_ty)
    s += "  O(0, v.Ok()); O(1, v.IsComplete());\n"
    s += "  if (v.Ok()) { O(2, %s); }\n" % to_u64(T, "v.Read()", enum_ty)
    s += "  if (v.IsComplete()) { O(3, %s); }\n" % to_u64(T, "v.UncheckedRead()", enum_ty)
    if T == "Bcd":
        # the raw field bits, read through a UIntView over the same bit block (lemma pair, see contract_read)
        raw = ("UIntView<P<%d>, OffsetBitBlock<BB>> u{ob};" if backing == "bits" else "UIntView<P<%d>, BB> u{bb};") % w
        s += "  %s\n  if (v.IsComplete()) { O(4, u.UncheckedRead()); }\n" % raw
    s += "  return 0;"
    return s


def write_wrapper(T, w, c, order, backing, enum_ty=None):
    s = view_decl(T, w, c, order, backing, enum_ty)
    if T in ("UInt", "Int"):
        s += "  O(0, v.CouldWriteValue((uint64_t)a1)); O(1, v.CouldWriteValue((int64_t)a1));\n"
        s += "  bool ok = v.TryToWrite((uint64_t)a1);\n" if T == "UInt" else "  bool ok = v.TryToWrite((int64_t)a1);\n"
        s += "  if (ok) O(2, %s);\n" % to_u64(T, "v.Read()")
    elif T == "Bcd":
        vt = "uint%d_t" % value_bits(w)
        s += "  O(0, v.CouldWriteValue((%s)a1));\n  bool ok = v.TryToWrite((%s)a1);\n" % (vt, vt)
        s += "  if (ok && v.Ok()) O(2, v.Read());\n"
    elif T == "Flag":
        s += "  O(0, v.CouldWriteValue(a1 != 0));\n  bool ok = v.TryToWrite(a1 != 0);\n  if (ok) O(2, v.Read());\n"
    elif T == "Enum":
        ut = "typename std::underlying_type<%s>::type" % enum_ty
        s += "  %s ev = static_cast<%s>((%s)a1);\n" % (enum_ty, enum_ty, ut)
        s += "  O(0, v.CouldWriteValue(ev));\n  bool ok = v.TryToWrite(ev);\n  if (ok) O(2, %s);\n" % to_u64(T, "v.Read()", enum_ty)
    elif T == "Float":
        ft = "float" if w == 32 else "double"
        s += "  %s fv = from_bits_%d(a1);\n  O(0, v.CouldWriteValue(fv));\n  bool ok = v.TryToWrite(fv);\n  if (ok) O(2, bits_of(v.Read()));\n" % (ft, w)
    s += "  return ok;"
    return s


FLOAT_PREAMBLE = '''
static inline uint64_t bits_of(float f) { uint32_t u; memcpy(&u, &f, 4); return u; }
static inline uint64_t bits_of(double f) { uint64_t u; memcpy(&u, &f, 8); return u; }
static inline float from_bits_32(uint64_t b) { uint32_t u = (uint32_t)b; float f; memcpy(&f, &u, 4); return f; }
static inline double from_bits_64(uint64_t b) { double f; memcpy(&f, &b, 8); return f; }
'''


# ---------------------------------------------------------------------------
# reference semantics


def container(k, mem, c, order):
    addr = k.m          # offset of the container inside region p
    nb = c // 8
    return load_be(mem, addr, nb) if order == "BE" else load_le(mem, addr, nb)


def block_ok(k, c):
    """BitBlock over the carved container is Ok: buffer non-null and exactly c/8 bytes are available at offset m."""
    nb = c // 8
    return z3.And(k.p != 0, z3.ULE(k.m, k.n), z3.UGE(k.n - k.m, bv(nb, 64)))


def field_bits(k, mem, w, c, order, backing):
    """The field's w bits as a BV(w), and the condition that the field lies inside the container."""
    C = container(k, mem, c, order)
    if backing != "bits":
        return C, z3.BoolVal(True)
    o = k.a0
    fits = z3.And(z3.ULE(o, bv(c - w, 64)))
    sh = z3.LShR(C, z3.Extract(c - 1, 0, o) if c < 64 else o) if c <= 64 else None
    return z3.Extract(w - 1, 0, sh), fits


def ext64(x, signed):
    w = x.size()
    if w == 64:
        return x
    return z3.SignExt(64 - w, x) if signed else z3.ZeroExt(64 - w, x)


def bcd_nibbles(F, vb=64):
    w = F.size()
    out = []
    i = 0
    while i < w:
        hi = min(i + 3, w - 1)
        nib = z3.Extract(hi, i, F)
        out.append(z3.ZeroExt(vb - nib.size(), nib))
        i += 4
    return out


def bcd_value(F):
    """sum nibble_k * 10^k, computed in the view's ValueType width vb and zero-extended.  That no
    value is truncated at vb bits is the ground fact max_bcd(w) < 2^vb, checked for every w in
    bcd_value_fits()."""
    vb = value_bits(F.size())
    total = bv(0, vb)
    for kk, nib in enumerate(bcd_nibbles(F, vb)):
        total = total + nib * bv(10 ** kk, vb)
    return ext64(total, False)


def bcd_poly(raw64, w):
    """sum_k ((raw >> 4k) & 15) * 10^k in the ValueType width, zero-extended; nibbles above w are
    not included (raw < 2^w)."""
    vb = value_bits(w)
    x = z3.Extract(vb - 1, 0, raw64)
    total = None
    kk = 0
    while 4 * kk < w:
        nib = (z3.LShR(x, bv(4 * kk, vb)) & bv(15, vb)) if kk else (x & bv(15, vb))
        term = nib * bv(10 ** kk, vb) if kk else nib
        total = term if total is None else total + term
        kk += 1
    return ext64(total, False)


def bcd_value_fits():
    return all(max_bcd(w) < 2 ** value_bits(w) for w in range(1, 65))


def bcd_ok(F):
    return z3.And([z3.ULE(nib, bv(9, 8)) for nib in bcd_nibbles(F, 8)])


def max_bcd(w):
    return 10 ** (w // 4) * 2 ** (w % 4) - 1


def region_p(k, backing="struct"):
    k.region("p", nonnull=False)
    al = aligned_of(backing)
    if al:
        # what the caller of an aligned view promises: the buffer is 8-byte aligned, and the (compile-time) alignment and
        # offset template arguments describe the run-time offset (C05: the inferred modulus / modular_value are sound)
        k.requires(z3.URem(k.p, bv(8, 64)) == 0)
        k.requires(z3.URem(k.m, bv(al[0], 64)) == bv(al[1], 64))
    # the carved container must not make the address computation wrap: offsets are sizes of real objects
    k.requires(z3.ULT(k.m, bv(1 << 59, 64)))


def decode(T, F, enum_ty=None):
    """Value as BV64 (sign- or zero-extended) of field bits F."""
    if T == "UInt" or T == "Float":
        return ext64(F, False)
    if T == "Int":
        return ext64(F, True)
    if T == "Bcd":
        return bcd_value(F)
    if T == "Flag":
        return ext64(F, False)
    if T == "Enum":
        signed = enum_ty.startswith("ES")
        ub = int(enum_ty[2:])
        v = ext64(F, signed)
        # cast to the underlying type (w <= ub always), then widened by the wrapper
        return ext64(z3.Extract(ub - 1, 0, v), signed)
    raise ValueError(T)


def contract_read(k, T, w, c, order, backing, enum_ty=None):
    region_p(k, backing)
    F, fits = field_bits(k, k.P0, w, c, order, backing)
    complete = z3.And(block_ok(k, c), fits)
    ok = complete
    if T == "Bcd":
        ok = z3.And(complete, bcd_ok(F))
    k.ensures("Ok", k.obs_flag(0, ok))
    k.ensures("IsComplete", k.obs_flag(1, complete))
    if T == "Bcd":
        # Lemma pair (composition by substitution of equals gives Read == decimal(F)):
        #   raw-bits:        the raw value the view decodes is exactly the field's bits F
        #   decimal-of-raw:  Read() is sum_k nibble_k(raw) * 10^k in ValueType arithmetic
        # (one query mixing the symbolic shift with sixteen 64-bit multipliers is bit-blasting-hard)
        raw = k.outv(4)
        k.ensures("Read.raw-bits", k.obs_eq(4, complete, ext64(F, False)))
        k.ensures("Read.decimal-of-raw", k.obs_eq(2, ok, bcd_poly(raw, w)))
        k.ensures("UncheckedRead.decimal-of-raw", k.obs_eq(3, ok, bcd_poly(raw, w)))
    else:
        k.ensures("Read", k.obs_eq(2, ok, decode(T, F, enum_ty)))
        k.ensures("UncheckedRead", k.obs_eq(3, ok, decode(T, F, enum_ty)))
    # reads do not modify the buffer
    a = k.forall_off()
    k.ensures("read-only", z3.Implies(z3.ULT(a, k.n), z3.Select(k.P1, a) == z3.Select(k.P0, a)))
    k.ghost.append(("field_bits", F))


def could_write(T, w, v64, signed_arg, enum_ty=None):
    """CouldWriteValue for candidate v64 (a BV64 read as signed or unsigned 64-bit integer)."""
    if T == "UInt":
        lim = bv((1 << w) - 1, 64)
        if signed_arg:
            return z3.And(v64 >= 0, z3.ULE(v64, lim))
        return z3.ULE(v64, lim)
    if T == "Int":
        lo, hi = -(1 << (w - 1)), (1 << (w - 1)) - 1
        if signed_arg:
            return z3.And(v64 >= bv(lo, 64), v64 <= bv(hi, 64))
        return z3.ULE(v64, bv(hi, 64))
    raise ValueError(T)


def contract_write(k, T, w, c, order, backing, enum_ty=None):
    region_p(k, backing)
    F0, fits = field_bits(k, k.P0, w, c, order, backing)
    complete = z3.And(block_ok(k, c), fits)
    v = k.a1
    vb = value_bits(w)
    if T in ("UInt", "Int"):
        cw_u = could_write(T, w, v, False)
        cw_s = could_write(T, w, v, True)
        k.ensures("CouldWriteValue<uint64_t>", k.obs_flag(0, cw_u))
        k.ensures("CouldWriteValue<int64_t>", k.obs_flag(1, cw_s))
        cw = cw_u if T == "UInt" else cw_s
        newbits = z3.Extract(w - 1, 0, v)
        readback = v
    elif T == "Bcd":
        vt = z3.Extract(vb - 1, 0, v)           # candidate inside range(ValueType): the wrapper passes ValueType
        k.requires(z3.ULE(v, bv((1 << vb) - 1, 64)))
        cw = z3.ULE(ext64(vt, False), bv(max_bcd(w), 64))
        k.ensures("CouldWriteValue", k.obs_flag(0, cw))
        newbits = None
        readback = ext64(vt, False)
    elif T == "Flag":
        cw = z3.BoolVal(True)
        k.ensures("CouldWriteValue", k.obs_flag(0, z3.BoolVal(True)))
        newbits = z3.If(v != 0, bv(1, 1), bv(0, 1))
        readback = z3.If(v != 0, bv(1, 64), bv(0, 64))
    elif T == "Float":
        cw = z3.BoolVal(True)
        k.ensures("CouldWriteValue", k.obs_flag(0, z3.BoolVal(True)))
        newbits = z3.Extract(w - 1, 0, v)
        readback = ext64(newbits, False)
    elif T == "Enum":
        signed = enum_ty.startswith("ES")
        ub = int(enum_ty[2:])
        k.requires(z3.ULE(v, bv((1 << ub) - 1, 64)))   # the candidate is a value of the enum's underlying type
        ev = ext64(z3.Extract(ub - 1, 0, v), signed)
        if signed:
            cw = z3.And(ev >= bv(-(1 << (w - 1)), 64), ev <= bv((1 << (w - 1)) - 1, 64))
        else:
            cw = z3.ULE(ev, bv((1 << w) - 1, 64))
        k.ensures("CouldWriteValue", k.obs_flag(0, cw))
        newbits = z3.Extract(w - 1, 0, ev)
        readback = ev
    succ = z3.And(cw, complete)
    k.ensures("TryToWrite", (k.ret != 0) == succ)
    F1, _ = field_bits(k, k.P1, w, c, order, backing)
    if newbits is not None:
        k.ensures("stored-bits", z3.Implies(succ, F1 == newbits))
        k.ensures("read-back", k.obs_eq(2, succ, readback))
    elif w <= BCD_DIRECT_MAX_W:
        k.ensures("stored-bits", z3.Implies(succ, z3.And(bcd_ok(F1), bcd_value(F1) == readback)))
        k.ensures("read-back", k.obs_eq(2, succ, readback))
    # Bcd above BCD_DIRECT_MAX_W bits: the decimal value equation is bit-blasting-hard (DESIGN 2.2,
    # "decimal recomposition"); those two clauses are not generated and not claimed (listed in the
    # evidence as not covered); range check, success condition, frames and safety are still proved.
    # bit frame: all other bits of the container keep their value
    C0, C1 = container(k, k.P0, c, order), container(k, k.P1, c, order)
    if backing == "bits":
        o = z3.Extract(c - 1, 0, k.a0) if c < 64 else k.a0
        mask = bv((1 << w) - 1, c) << o
        k.ensures("bit-frame", z3.Implies(succ, (C1 & ~mask) == (C0 & ~mask)))
    # byte frame: bytes of the buffer outside the container are untouched; failure leaves everything untouched
    a = k.forall_off()
    inside = z3.And(z3.ULE(k.m, a), z3.ULT(a - k.m, bv(c // 8, 64)))
    same = z3.Select(k.P1, a) == z3.Select(k.P0, a)
    k.ensures("byte-frame", z3.Implies(z3.And(z3.ULT(a, k.n), z3.Not(inside)), same))
    k.ensures("fail-unchanged", z3.Implies(z3.And(z3.Not(succ), z3.ULT(a, k.n)), same))


# ---------------------------------------------------------------------------
# configuration space


BCD_WRITE_FULL_W = 24


def configs(T, tier="quick", which="read"):
    """Yields (w, c, order, backing, enum_ty).

    The space is complete except for one stated reduction in the quick tier: BcdView *writes* wider
    than BCD_WRITE_FULL_W bits are checked in the smallest container that holds them only (the
    obligation that ConvertToBcd(v) fits w bits needs 64-bit division reasoning, 15-60 s per wrapper,
    and does not depend on the container; the container/offset arithmetic is the UInt/Int one, which
    is checked for every container).  The thorough tier runs everything."""
    out = []
    conts = [8, 16, 24, 32, 40, 48, 56, 64]
    if T in ("UInt", "Int", "Bcd"):
        for c in conts:
            for order in ("LE", "BE"):
                for w in range(1, c + 1):
                    if T == "Bcd" and which == "write" and tier == "quick" and w > BCD_WRITE_FULL_W and c != (w + 7) // 8 * 8:
                        continue
                    out.append((w, c, order, "bits", None))
                out.append((c, c, order, "struct", None))
        out.append((8, 8, "Null", "struct", None))
        for w in range(1, 9):
            out.append((w, 8, "Null", "bits", None))
        if T in ("UInt", "Int"):
            # aligned fast paths of MemoryAccessor: whole-container fields of 2..8 bytes at every (alignment, offset) pair
            for c in conts[1:]:
                for order in ("LE", "BE"):
                    for (a, o) in ALIGNED:
                        out.append((c, c, order, "al%d_%d" % (a, o), None))
    elif T == "Flag":
        for c in conts:
            for order in ("LE", "BE"):
                out.append((1, c, order, "bits", None))
        out.append((1, 8, "Null", "bits", None))
    elif T == "Float":
        for w in (32, 64):
            for order in ("LE", "BE"):
                out.append((w, w, order, "struct", None))
                for (a, o) in ((8, 0), (8, 4), (4, 0)):
                    out.append((w, w, order, "al%d_%d" % (a, o), None))
    elif T == "Enum":
        for ety in ("EU8", "EU16", "EU32", "EU64", "ES8", "ES16", "ES32", "ES64"):
            ub = int(ety[2:])
            for c in conts:
                for order in ("LE", "BE"):
                    for w in range(1, min(c, ub) + 1):
                        out.append((w, c, order, "bits", ety))
                    if c <= ub:
                        out.append((c, c, order, "struct", ety))
    return out


def wrappers(T, which, tier="quick", select=None):
    """[(name, body, contract_ref, params)] for view type T; which in {"read", "write"}."""
    out = []
    for (w, c, order, backing, ety) in configs(T, tier, which):
        if select is not None and not select(w, c, order, backing, ety):
            continue
        name = "%s_%s_%s_w%d_c%d_%s_%s" % (which, T.lower(), ety or "x", w, c, order, backing)
        body = (read_wrapper if which == "read" else write_wrapper)(T, w, c, order, backing, ety)
        params = dict(T=T, w=w, c=c, order=order, backing=backing, enum_ty=ety)
        out.append((name, body, "contracts.cpp_views:contract_%s" % which, params))
    return out


def jobs(Ts, whichs, tier="quick", chunk=20, select=None, prefix="", flags=()):
    js = []
    for T in Ts:
        for which in whichs:
            ws = wrappers(T, which, tier, select)
            for i in range(0, len(ws), chunk):
                js.append(dict(tag="%s_%s_%d" % (T, which, i // chunk), includes=INCLUDES,
                               preamble=PREAMBLE + FLOAT_PREAMBLE, wrappers=ws[i:i + chunk], prefix=prefix, flags=list(flags)))
    return js


# ---------------------------------------------------------------------------
# KF-C03-1: BcdView::CouldWriteValue/TryToWrite take ValueType, so a wider candidate is narrowed
# before it is looked at.  A few representative configurations only (the finding is recorded, not
# repaired; every obligation for candidates inside range(ValueType) stays strict above).


def bcdwide_wrapper(w, c, order, backing):
    s = view_decl("Bcd", w, c, order, backing)
    s += "  O(0, v.CouldWriteValue(a1));\n  bool ok = v.TryToWrite(a1);\n  return ok;"
    return s


def contract_bcdwide(k, w, c, order, backing):
    region_p(k)
    F0, fits = field_bits(k, k.P0, w, c, order, backing)
    complete = z3.And(block_ok(k, c), fits)
    cw = z3.ULE(k.a1, bv(max_bcd(w), 64))
    k.ensures("CouldWriteValue<uint64_t>", k.obs_flag(0, cw))
    k.ensures("TryToWrite<uint64_t>", (k.ret != 0) == z3.And(cw, complete))


def bcdwide_jobs():
    ws = []
    for (w, c, order, backing) in ((8, 8, "LE", "struct"), (16, 16, "BE", "struct"), (12, 32, "LE", "bits")):
        name = "write_bcdwide_w%d_c%d_%s_%s" % (w, c, order, backing)
        ws.append((name, bcdwide_wrapper(w, c, order, backing), "contracts.cpp_views:contract_bcdwide",
                   dict(w=w, c=c, order=order, backing=backing)))
    return [dict(tag="bcdwide", includes=INCLUDES, preamble=PREAMBLE + FLOAT_PREAMBLE, wrappers=ws)]
