"""E1 contract on constraints._check_type_requirements_for_field (C14: "explicit sizes matching their field").

For every combination of: atomic / array type, atomic / array field, the field's inferred size range [min, max] (symbolic,
in addressable units of 1 or 8 bits), an explicit size (`UInt:32`) present or not, a fixed size of the referenced type
present or not, anonymous (inline `bits`) type or not:

  non-atomic type                               nothing is checked here (arrays are checked element-wise elsewhere)
  explicit size and fixed size both known       one error iff they differ, and then nothing else
  es := explicit size, else the fixed size
  atomic field, es known, min == max            one error iff es > max, or es < min for a named (non-anonymous) type
  atomic field, es known, min <  max            one error iff es > max
  otherwise / no error                          the prelude requirements are checked once, with es, or with the field's size
                                                when the type has no size of its own and the field's size is constant
                                                (contracts/layout.py has the contract of that check)"""
import importlib

import z3

from vlib import core, pyvc
from vlib.pyvc import SInt, SNumStr, SRec

CN = "compiler.front_end.constraints"


def target_type_requirements_for_field():
    cons = importlib.import_module(CN)
    ir_util = importlib.import_module("compiler.util.ir_util")
    error = importlib.import_module("compiler.util.error")
    attributes = importlib.import_module("compiler.front_end.attributes")
    eng = pyvc.Engine()
    for f in (error.error, error.note, error.warn):
        eng.contract(f, lambda interp, *a, **k: SRec("ErrorMessage", {}), f.__name__)
    eng.contract(ir_util.constant_value, lambda interp, e, bindings=None: e.f["ghost_cv"], "constant_value")
    eng.contract(ir_util.find_object, lambda interp, ref, ir: ref.f["ghost_object"], "find_object")
    eng.contract(ir_util.get_attribute, lambda interp, attrs, name: next((a for a in attrs if a.f["ghost_name"] == name), None), "get_attribute")
    eng.contract(cons._render_atomic_type_name, lambda interp, *a, **k: "<type>", "_render_atomic_type_name")
    eng.contract(cons._render_type, lambda interp, *a, **k: "<type>", "_render_type")
    log = []
    eng.contract(cons._check_physical_type_requirements, lambda interp, type_ir, loc, size, ir, src: (log.append((type_ir, size)) or []), "_check_physical_type_requirements")

    def harness(c):
        del log[:]
        type_atomic = c.choice("type", ["atomic", "array"]) == "atomic"
        field_atomic = c.choice("field", ["atomic", "array"]) == "atomic"
        unit = int(c.choice("unit", ["1", "8"]))
        has_explicit = c.choice("explicit-size", ["no", "yes"]) == "yes"
        has_fixed = c.choice("fixed-size-of-type", ["no", "yes"]) == "yes"
        anonymous = c.choice("anonymous-type", ["no", "yes"]) == "yes"
        fmin, fmax, es, ts = z3.Int("field_min"), z3.Int("field_max"), z3.Int("explicit"), z3.Int("fixed")
        c.assume(z3.And(fmin >= 0, fmin <= fmax, es >= 0, ts >= 0))
        ref_type = SRec("TypeDefinition", {"name": SRec("NameDefinition", {"is_anonymous": anonymous}),
                                           "attribute": ([SRec("Attribute", {"ghost_name": attributes.FIXED_SIZE, "expression": SRec("Expression", {"ghost_cv": SInt(ts)}),
                                                                             "source_location": SRec("SourceLocation", {})})] if has_fixed else [])})
        tf = {"source_location": SRec("SourceLocation", {})}
        if type_atomic:
            tf["atomic_type"] = SRec("AtomicType", {"reference": SRec("Reference", {"ghost_object": ref_type, "canonical_name": SRec("CanonicalName", {"module_file": "f.emb"})})})
        if has_explicit:
            tf["size_in_bits"] = SRec("Expression", {"ghost_cv": SInt(es), "source_location": SRec("SourceLocation", {})})
        type_ir = SRec("Type", tf, defaults={"has:atomic_type": type_atomic, "has:size_in_bits": has_explicit})
        size_expr = SRec("Expression", {"type": SRec("ExpressionType", {"integer": SRec("IntegerType", {"minimum_value": SNumStr(fmin), "maximum_value": SNumStr(fmax)})})})
        field = SRec("Field", {"type": SRec("Type", {}, defaults={"has:atomic_type": field_atomic}), "location": SRec("FieldLocation", {"size": size_expr}),
                               "source_location": SRec("SourceLocation", {})})
        td = SRec("TypeDefinition", {"addressable_unit": unit})
        errors = []
        c.covered = True
        try:
            pyvc.run_body(c, CN + "._check_type_requirements_for_field", [type_ir, td, field, SRec("EmbossIr", {}), "f.emb", errors])
        except pyvc.PathEnd:
            return
        FMIN, FMAX = fmin * unit, fmax * unit
        if not type_atomic:
            c.oblige("non-atomic-type:nothing-checked", not errors and not log)
            return
        nerr = len(errors)
        c.oblige("at-most-one-error", nerr <= 1)
        if has_explicit and has_fixed:
            mismatch = es != ts
        else:
            mismatch = z3.BoolVal(False)
        known = has_explicit or has_fixed
        ES = es if has_explicit else ts
        if field_atomic and known:
            too = z3.If(FMIN == FMAX, z3.Or(ES > FMAX, z3.And(ES < FMIN, z3.BoolVal(not anonymous))), ES > FMAX)
        else:
            too = z3.BoolVal(False)
        want_err = z3.Or(mismatch, z3.And(z3.Not(mismatch), too))
        c.oblige("error-iff-sizes-inconsistent", z3.BoolVal(nerr == 1) == want_err, detail="%d errors" % nerr)
        c.oblige("requirements-checked-iff-sizes-consistent", z3.BoolVal(len(log) == 1) == z3.Not(want_err) if len(log) <= 1 else False, detail="%d calls" % len(log))
        if len(log) == 1:
            c.oblige("requirements-checked-on-this-type", log[0][0] is type_ir)
            got = log[0][1]
            if known:
                c.oblige("requirements-checked-with-the-element-size", got is not None and (pyvc.zint(got) == ES), detail=repr(got))
            elif field_atomic:
                c.oblige("requirements-checked-with-the-field's-constant-size-or-None",
                         z3.If(FMIN == FMAX, z3.BoolVal(got is not None) if got is None else (pyvc.zint(got) == FMIN), z3.BoolVal(got is None)), detail=repr(got))
            else:
                c.oblige("requirements-checked-with-no-size", got is None, detail=repr(got))
    paths = eng.explore(harness)
    return pyvc.collect(paths, "_check_type_requirements_for_field"), sum(1 for p in paths if p.covered)


def _engine():
    cons = importlib.import_module(CN)
    ir_util = importlib.import_module("compiler.util.ir_util")
    error = importlib.import_module("compiler.util.error")
    ir_data_utils = importlib.import_module("compiler.util.ir_data_utils")
    eng = pyvc.Engine()
    eng.contract(error.error, lambda interp, f, loc, msg: ("ERROR", loc, msg), "error.error")
    eng.contract(ir_util.find_object, lambda interp, ref, ir: ref.f["ghost_object"], "find_object")
    eng.contract(cons._render_type, lambda interp, *a, **k: "<type>", "_render_type")
    eng.identity(ir_data_utils.reader)
    return cons, ir_util, eng


def target_allowed_in_bits():
    """constraints._check_allowed_in_bits: an atomic type whose definition is byte-oriented, used inside a bit-oriented
    (bits) definition -> exactly one "Byte-oriented ... cannot be used in a bits field" error at the type; bit-oriented
    members, and any member of a byte-oriented structure -> nothing; a non-atomic (array) type -> nothing here (its element
    type is visited on its own: catalogue rows *-array-member-in-bits of the bounded part)."""
    cons, ir_util, eng = _engine()
    ir_data = importlib.import_module("compiler.util.ir_data")
    AU = ir_data.AddressableUnit

    def harness(c):
        outer = c.choice("enclosing", ["BIT", "BYTE"])
        kind = c.choice("member-type", ["atomic-BIT", "atomic-BYTE", "array"])
        type_def = SRec("TypeDefinition", {"addressable_unit": getattr(AU, outer)})
        if kind == "array":
            type_ir = SRec("Type", {"source_location": ("LOC", "t")}, defaults={"has:atomic_type": False})
        else:
            ref_def = SRec("TypeDefinition", {"addressable_unit": getattr(AU, kind.split("-")[1])})
            type_ir = SRec("Type", {"source_location": ("LOC", "t"), "atomic_type": SRec("AtomicType", {"reference": SRec("Reference", {"ghost_object": ref_def})})}, defaults={"has:atomic_type": True})
        errors = []
        c.covered = True
        pyvc.run_body(c, CN + "._check_allowed_in_bits", [type_ir, type_def, "m.emb", "IR", errors])
        want = outer == "BIT" and kind == "atomic-BYTE"
        ok = (len(errors) == 1 and len(errors[0]) == 1 and errors[0][0][0] == "ERROR" and errors[0][0][1] == ("LOC", "t") and "cannot be used in a bits field" in errors[0][0][2]) if want else errors == []
        c.oblige("one-error-iff-byte-oriented-atomic-member-of-bits", ok, detail=repr(errors)[:200])
    paths = eng.explore(harness)
    return pyvc.collect(paths, "_check_allowed_in_bits"), sum(1 for p in paths if p.covered)


def target_array_rules():
    """constraints._check_that_inner_array_dimensions_are_constant and _check_that_array_base_types_are_fixed_size:
       inner dimension omitted -> one "can only be omitted for the outermost dimension" error; given but not constant -> one
       "must be constant" error; constant -> nothing;
       element type an array -> nothing here (checked on the inner array); atomic with an explicit size -> nothing; atomic
       without one -> one "Array elements must be fixed size" error iff the element type has no fixed size."""
    cons, ir_util, eng = _engine()
    attributes = importlib.import_module("compiler.front_end.attributes")
    const = {}
    eng.contract(ir_util.is_constant, lambda interp, e: e.f["ghost_constant"], "is_constant")
    eng.contract(ir_util.get_integer_attribute, lambda interp, attrs, name, default_value=None: attrs["fixed"] if name == attributes.FIXED_SIZE else None, "get_integer_attribute")

    def harness(c):
        which = c.choice("function", ["inner-dimensions", "base-type"])
        errors = []
        c.covered = True
        if which == "inner-dimensions":
            size = c.choice("inner-size", ["automatic", "constant", "run-time"])
            tf = {"which_size": "automatic" if size == "automatic" else "element_count"}
            tf["element_count"] = SRec("Expression", {"source_location": ("LOC", "count"), "ghost_constant": size == "constant"})
            pyvc.run_body(c, CN + "._check_that_inner_array_dimensions_are_constant", [SRec("ArrayType", tf), "m.emb", errors])
            msg = {"automatic": "can only be omitted for the outermost dimension", "run-time": "Inner array dimensions must be constant"}.get(size)
            ok = (errors == []) if msg is None else (len(errors) == 1 and len(errors[0]) == 1 and errors[0][0][1] == ("LOC", "count") and msg in errors[0][0][2])
            c.oblige("inner-dimension:one-error-iff-omitted-or-not-constant", ok, detail=repr(errors)[:200])
            return
        base = c.choice("element-type", ["array", "atomic-with-explicit-size", "atomic-of-fixed-size-type", "atomic-of-variable-size-type"])
        if base == "array":
            bt = SRec("Type", {}, defaults={"has:array_type": True, "has:atomic_type": False, "has:size_in_bits": False})
        else:
            fixed = SInt(z3.Int("fixed_size")) if base == "atomic-of-fixed-size-type" else None
            obj = SRec("TypeDefinition", {"attribute": {"fixed": fixed}})
            bt = SRec("Type", {"atomic_type": SRec("AtomicType", {"reference": SRec("Reference", {"ghost_object": obj}), "source_location": ("LOC", "elem")})},
                      defaults={"has:array_type": False, "has:atomic_type": True, "has:size_in_bits": base == "atomic-with-explicit-size"})
        pyvc.run_body(c, CN + "._check_that_array_base_types_are_fixed_size", [SRec("ArrayType", {"base_type": bt}), "m.emb", errors, "IR"])
        want = base == "atomic-of-variable-size-type"
        ok = (len(errors) == 1 and len(errors[0]) == 1 and errors[0][0][1] == ("LOC", "elem") and "Array elements must be fixed size" in errors[0][0][2]) if want else errors == []
        c.oblige("element-type:one-error-iff-atomic-without-any-fixed-size", ok, detail=repr(errors)[:200])
    paths = eng.explore(harness)
    return pyvc.collect(paths, "array-rules"), sum(1 for p in paths if p.covered)


def target_reserved_words():
    """constraints._check_name_for_reserved_words and its four wrappers (field / enum / parameter / type name): exactly one
    error, at the name, naming the language the word is reserved in and the kind of name, iff the name is in the reserved
    word table (membership symbolic); nothing otherwise.  (That the table holds every word of
    compiler/front_end/reserved_words is a ground obligation of C14.)"""
    cons, ir_util, eng = _engine()
    from vlib.pyvc import GDict, SBool

    def harness(c):
        fn, ctx = c.choice("entry-point", ["_check_field_name_for_reserved_words|a field name", "_check_enum_name_for_reserved_words|an enum name",
                                           "_check_parameter_name_for_reserved_words|a parameter name", "_check_type_name_for_reserved_words|a type name"]).split("|")
        reserved = z3.Bool("name_is_a_reserved_word")
        table = GDict({"x": SBool(reserved)}, {"x": "C++"}, truthy=True, label="reserved-words")
        eng.contract(cons.get_reserved_word_list, lambda interp: table, "get_reserved_word_list")
        obj = SRec("Definition", {"name": SRec("NameDefinition", {"name": SRec("Word", {"text": "x", "source_location": ("LOC", "name")})})})
        errors = []
        c.covered = True
        pyvc.run_body(c, CN + "." + fn, [obj, "m.emb", errors])
        if errors:
            ok = len(errors) == 1 and len(errors[0]) == 1 and errors[0][0][1] == ("LOC", "name") and errors[0][0][2] == "C++ reserved word may not be used as %s." % ctx
            c.oblige("reserved-name:one-error-at-the-name-with-language-and-kind", z3.And(reserved, z3.BoolVal(ok)), detail=repr(errors)[:200])
        else:
            c.oblige("no-error-only-for-names-outside-the-table", z3.Not(reserved))
    paths = eng.explore(harness)
    return pyvc.collect(paths, "_check_name_for_reserved_words"), sum(1 for p in paths if p.covered)


def target_fixed_size_of_type():
    """ir_util.fixed_size_of_type_in_bits (the size every layout rule of C14 and the generated SizeInBits rely on): for a
    type of 0, 1 or 2 array dimensions over an atomic base - each dimension omitted / constant (symbolic count) / not
    constant; the base with an explicit size (symbolic), or a definition with or without a [fixed_size_in_bits] attribute:

        any dimension omitted or not constant, or a base of unknown size   ->  None
        otherwise                                                           ->  base size * product of the dimensions"""
    ir_util = importlib.import_module("compiler.util.ir_util")
    eng = pyvc.Engine()
    eng.contract(ir_util.is_constant, lambda interp, e: e.f["ghost_constant"], "is_constant")
    eng.contract(ir_util.constant_value, lambda interp, e, bindings=None: e.f["ghost_cv"], "constant_value")
    eng.contract(ir_util.find_object, lambda interp, ref, ir: ref.f["ghost_object"], "find_object")

    def harness(c):
        dims = [c.choice("dimension%d" % i, ["constant", "automatic", "run-time"]) for i in range(int(c.choice("dimensions", ["0", "1", "2"])))]
        base = c.choice("base", ["explicit-size", "fixed-size-type", "variable-size-type"])
        size = z3.Int("base_size")
        counts = [z3.Int("count%d" % i) for i in range(len(dims))]
        c.assume(z3.And([size >= 0] + [n >= 0 for n in counts]))
        attr = SRec("Attribute", {"expression": SRec("Expression", {"ghost_cv": SInt(size)})})
        eng.contract(ir_util.get_attribute, lambda interp, attrs, name: attr if base == "fixed-size-type" else None, "get_attribute")
        tf = {"atomic_type": SRec("AtomicType", {"reference": SRec("Reference", {"ghost_object": SRec("TypeDefinition", {"attribute": []})})})}
        if base == "explicit-size":
            tf["size_in_bits"] = SRec("Expression", {"ghost_cv": SInt(size)})
        t = SRec("Type", tf, defaults={"has:array_type": False, "has:atomic_type": True, "has:size_in_bits": base == "explicit-size"})
        for d, n in reversed(list(zip(dims, counts))):
            at = SRec("ArrayType", {"which_size": "automatic" if d == "automatic" else "element_count", "base_type": t,
                                    "element_count": SRec("Expression", {"ghost_constant": d == "constant", "ghost_cv": SInt(n)})})
            t = SRec("Type", {"array_type": at}, defaults={"has:array_type": True, "has:atomic_type": False, "has:size_in_bits": False})
        c.covered = True
        st, got = pyvc.run_body(c, "compiler.util.ir_util.fixed_size_of_type_in_bits", [t, "IR"])
        known = all(d == "constant" for d in dims) and base != "variable-size-type"
        if not known:
            c.oblige("unknown-size-gives-None", got is None, detail=repr(got))
        else:
            want = size
            for n in counts:
                want = want * n
            c.oblige("size-is-base-size-times-the-dimensions", got is not None and pyvc.zint(got) == want, detail=repr(got))
    paths = eng.explore(harness)
    return pyvc.collect(paths, "fixed_size_of_type_in_bits"), sum(1 for p in paths if p.covered)


def target_array_element_multiple_of_bytes():
    """constraints._check_that_array_base_types_in_structs_are_multiples_of_bytes: for the innermost array only, with the
    element size taken from its explicit size, else from the fixed size of its type (symbolic, any non-negative integer):
    one error at the element type iff the size is known and not a multiple of the enclosing definition's addressable unit
    (8 bits in a struct; in a bits definition every size is a multiple of 1); element types of unknown size and outer
    dimensions of multi-dimensional arrays -> nothing here."""
    cons, ir_util, eng = _engine()
    ir_data = importlib.import_module("compiler.util.ir_data")
    eng.contract(ir_util.is_constant, lambda interp, e: True, "is_constant")
    eng.contract(ir_util.constant_value, lambda interp, e, bindings=None: e.f["ghost_cv"], "constant_value")

    def harness(c):
        unit = c.choice("enclosing", ["BYTE", "BIT"])
        elem = c.choice("element", ["array", "explicit-size", "fixed-size-type", "variable-size-type"])
        size = z3.Int("element_size_in_bits")
        c.assume(size >= 0)
        eng.contract(ir_util.fixed_size_of_type_in_bits, lambda interp, t, ir: SInt(size) if elem == "fixed-size-type" else None, "fixed_size_of_type_in_bits")
        btf = {"source_location": ("LOC", "elem")}
        if elem == "explicit-size":
            btf["size_in_bits"] = SRec("Expression", {"ghost_cv": SInt(size)})
        bt = SRec("Type", btf,
                  defaults={"has:array_type": elem == "array", "has:atomic_type": elem != "array", "has:size_in_bits": elem == "explicit-size"})
        td = SRec("TypeDefinition", {"addressable_unit": getattr(ir_data.AddressableUnit, unit)})
        errors = []
        c.covered = True
        pyvc.run_body(c, CN + "._check_that_array_base_types_in_structs_are_multiples_of_bytes", [SRec("ArrayType", {"base_type": bt}), td, "m.emb", errors, "IR"])
        known = elem in ("explicit-size", "fixed-size-type")
        want = z3.And(z3.BoolVal(known and unit == "BYTE"), size % 8 != 0)
        if errors:
            ok = len(errors) == 1 and len(errors[0]) == 1 and errors[0][0][1] == ("LOC", "elem") and "multiple of 8 bits" in errors[0][0][2]
            c.oblige("error-only-for-a-known-size-that-is-not-a-multiple-of-the-unit", z3.And(want, z3.BoolVal(ok)), detail=repr(errors)[:200])
        else:
            c.oblige("no-error-only-when-the-size-is-unknown-or-a-multiple-of-the-unit", z3.Not(want))
    paths = eng.explore(harness)
    return pyvc.collect(paths, "_check_that_array_base_types_in_structs_are_multiples_of_bytes"), sum(1 for p in paths if p.covered)


TARGETS = {"_check_type_requirements_for_field": target_type_requirements_for_field, "_check_name_for_reserved_words": target_reserved_words, "array_element_multiple_of_bytes": target_array_element_multiple_of_bytes, "fixed_size_of_type_in_bits": target_fixed_size_of_type, "_check_allowed_in_bits": target_allowed_in_bits, "array_rules": target_array_rules}
