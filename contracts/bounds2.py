"""C05, second batch of E1 contracts on compiler/front_end/expression_bounds.py: the functions that
the first batch (contracts/bounds.py: transfer functions and helpers) left without a contract.

  _compute_constant_value_of_comparison_operator   a value written to type.boolean.value is the value of the
                                                   comparison / connective for the operands' actual values; constants fold
  _compute_constant_value_of_boolean_constant      the literal's value
  _compute_constraints_of_function                 computes every argument first, then calls exactly the transfer function
                                                   of the operator (the table below is the specification), once
  compute_constraints_of_expression                dispatch on the expression variety; constant types are left alone;
                                                   integer results pass through _assert_integer_constraints
  _compute_constraints_of_builtin_value            $static_size_in_bits: [0, infinity), every integer
  _compute_constraints_of_parameter                the leaf range of the parameter's physical type at its declared size
  _compute_constraints_of_field_reference          physical integer field: every integer (modulus 1) within the leaf range of
                                                   its type at the field's size in bits; virtual field: the type of its value

Callees that have their own contract are replaced by recorders / their contract; ir_util lookups are opaque."""
import importlib

import z3

from vlib import core, pyvc
from vlib.pyvc import SBool, SInt, SNumStr, SRec
from contracts import bounds
from contracts.bounds import INF, NINF, MOD, make_operand, expr_with_type

EB = "compiler.front_end.expression_bounds"


def _mods():
    return (importlib.import_module(EB), importlib.import_module("compiler.util.ir_data"), importlib.import_module("compiler.util.ir_util"),
            importlib.import_module("compiler.util.ir_data_utils"))


def _base_engine():
    eb, ir_data, ir_util, idu = _mods()
    eng = pyvc.Engine()
    eng.identity(idu.reader)
    eng.identity(idu.builder)
    return eng, eb, ir_data, ir_util


# ---------------------------------------------------------------------------
# comparison / connective folding

CMP_SIGS = {"EQUALITY": ["int,int", "bool,bool", "enum,enum"], "INEQUALITY": ["int,int", "bool,bool", "enum,enum"],
            "LESS": ["int,int"], "LESS_OR_EQUAL": ["int,int"], "GREATER": ["int,int"], "GREATER_OR_EQUAL": ["int,int"],
            "AND": ["bool,bool"], "OR": ["bool,bool"]}


def _cmp_sem(op, a, b):
    return {"EQUALITY": lambda: a == b, "INEQUALITY": lambda: a != b, "LESS": lambda: a < b, "LESS_OR_EQUAL": lambda: a <= b,
            "GREATER": lambda: a > b, "GREATER_OR_EQUAL": lambda: a >= b, "AND": lambda: z3.And(a, b), "OR": lambda: z3.Or(a, b)}[op]()


def target_comparison():
    eng, eb, ir_data, ir_util = _base_engine()
    eng.contract(ir_util.is_constant, lambda interp, e, bindings=None: e.f["ghost_is_constant"], "is_constant")
    eng.contract(ir_util.constant_value, lambda interp, e, bindings=None: e.f["ghost_constant_value"], "constant_value")
    FM = ir_data.FunctionMapping

    def harness(c):
        op = c.choice("f", sorted(CMP_SIGS))
        sig = c.choice("sig", CMP_SIGS[op]).split(",")
        args, actual, consts = [], [], []
        for i, ty in enumerate(sig):
            const = c.choice("a%d" % i, ["constant", "run-time"]) == "constant"
            consts.append(const)
            if ty == "int":
                if const:
                    v = z3.Int("v%d" % i)
                    t = SRec("ExpressionType", {"which_type": "integer", "integer": SRec("IntegerType", dict(
                        modulus=INF, modular_value=SNumStr(v), minimum_value=SNumStr(v), maximum_value=SNumStr(v)))})
                    args.append(SRec("Expression", {"type": t, "ghost_is_constant": True, "ghost_constant_value": SInt(v)}))
                    actual.append(v)
                else:
                    A = make_operand(c, "A%d" % i, shapes=[s for s in bounds.SHAPES if s != "const"])
                    t = SRec("ExpressionType", {"which_type": "integer", "integer": A.rec})
                    args.append(SRec("Expression", {"type": t, "ghost_is_constant": False, "ghost_constant_value": None}))
                    actual.append(A.val)
            elif ty == "bool":
                b = z3.Bool("b%d" % i)
                bt = SRec("BooleanType", {"value": SBool(b)} if const else {}, defaults={"has:value": False})
                t = SRec("ExpressionType", {"which_type": "boolean", "boolean": bt})
                args.append(SRec("Expression", {"type": t, "ghost_is_constant": const, "ghost_constant_value": SBool(b) if const else None}))
                actual.append(b)
            else:
                v = z3.Int("e%d" % i)
                et = SRec("EnumType", {"value": SNumStr(v)} if const else {}, defaults={"has:value": False})
                t = SRec("ExpressionType", {"which_type": "enumeration", "enumeration": et})
                args.append(SRec("Expression", {"type": t, "ghost_is_constant": const, "ghost_constant_value": SInt(v) if const else None}))
                actual.append(v)
        res_b = SRec("BooleanType", {}, defaults={"has:value": False})
        e = SRec("Expression", {"type": SRec("ExpressionType", {"which_type": "boolean", "boolean": res_b}),
                                "function": SRec("Function", {"function": getattr(FM, op), "args": args}), "which_expression": "function"})
        c.covered = True
        pyvc.run_body(c, EB + "._compute_constant_value_of_comparison_operator", [e])
        got = res_b.f.get("value")
        want = _cmp_sem(op, actual[0], actual[1])
        if got is None:
            c.oblige("folds-when-all-constant", not all(consts), detail="no value written although every operand is constant")
            return
        if not isinstance(got, (SBool, bool)):
            c.oblige("sound:value-is-the-comparison", False, detail="wrote a non-boolean %r" % (got,))
            return
        c.oblige("sound:value-is-the-comparison", pyvc.zbool(got) == want, detail="wrote %r" % (got,))
    paths = eng.explore(harness)
    return pyvc.collect(paths, "comparison"), sum(1 for p in paths if p.covered)


def replay_comparison(name, model):
    """The real function on real IR nodes with the model's constants."""
    import re
    eb, ir_data, ir_util, idu = _mods()
    m = re.search(r"f=([A-Z_]+),sig=([a-z,]+),a0=([a-z-]+),a1=([a-z-]+)", name)
    if not m or not model:
        return {"reproduced": False, "error": "no model / unrecognised label"}
    op, sig, c0, c1 = m.group(1), m.group(2).split(","), m.group(3), m.group(4)
    if c0 != "constant" or c1 != "constant":
        return {"reproduced": False, "error": "replay implemented for constant operands only"}

    def val(i, ty):
        key = {"int": "v%d", "bool": "b%d", "enum": "e%d"}[ty] % i
        return model.get(key, 0 if ty != "bool" else False)

    def node(i, ty):
        v = val(i, ty)
        if ty == "int":
            return ir_data.Expression(constant=ir_data.NumericConstant(value=str(v)), type=ir_data.ExpressionType(integer=ir_data.IntegerType(
                modulus="infinity", modular_value=str(v), minimum_value=str(v), maximum_value=str(v)))), int(v)
        if ty == "bool":
            b = v in (True, "True", "true", 1)
            return ir_data.Expression(boolean_constant=ir_data.BooleanConstant(value=b), type=ir_data.ExpressionType(boolean=ir_data.BooleanType(value=b))), b
        return None, None
    if "enum" in sig:
        return {"reproduced": False, "error": "enum replay not implemented"}
    import operator
    sem = {"EQUALITY": operator.eq, "INEQUALITY": operator.ne, "LESS": operator.lt, "LESS_OR_EQUAL": operator.le, "GREATER": operator.gt,
           "GREATER_OR_EQUAL": operator.ge, "AND": operator.and_, "OR": operator.or_}[op]

    def run_real(x, y):
        model.update({{"int": "v0", "bool": "b0"}[sig[0]]: x, {"int": "v1", "bool": "b1"}[sig[1]]: y})
        (a, av), (b, bv_) = node(0, sig[0]), node(1, sig[1])
        e = ir_data.Expression(function=ir_data.Function(function=getattr(ir_data.FunctionMapping, op), args=[a, b]),
                               type=ir_data.ExpressionType(boolean=ir_data.BooleanType()))
        eb._compute_constant_value_of_comparison_operator(e)
        got = e.type.boolean.value if e.type.boolean.has_field("value") else None
        return av, bv_, got, sem(av, bv_)
    model = dict(model)
    av, bv_, got, want = run_real(val(0, sig[0]), val(1, sig[1]))
    if got == want and sig == ["int", "int"]:
        # the model came through an abstraction (string ordering is an unconstrained boolean for the solver): search a small box
        box = list(range(-12, 13)) + [99, 100, 101, 999, 1000]
        for x in box:
            for y in box:
                av, bv_, got, want = run_real(x, y)
                if got != want:
                    return {"reproduced": True, "inputs": {"op": op, "operands": [av, bv_]}, "real_function_wrote": got, "value_of_the_comparison": want,
                            "how": "bounded search around the solver's model (the solver's own model does not fail on the real code)"}
    return {"reproduced": got != want, "inputs": {"op": op, "operands": [av, bv_]}, "real_function_wrote": got, "value_of_the_comparison": want}


def target_boolean_constant():
    eng, eb, ir_data, ir_util = _base_engine()

    def harness(c):
        b = z3.Bool("b")
        res_b = SRec("BooleanType", {}, defaults={"has:value": False})
        e = SRec("Expression", {"type": SRec("ExpressionType", {"which_type": "boolean", "boolean": res_b}),
                                "boolean_constant": SRec("BooleanConstant", {"value": SBool(b)}), "which_expression": "boolean_constant"})
        c.covered = True
        pyvc.run_body(c, EB + "._compute_constant_value_of_boolean_constant", [e])
        got = res_b.f.get("value")
        c.oblige("value-is-the-literal", isinstance(got, (SBool, bool)) and (pyvc.zbool(got) == b), detail="wrote %r" % (got,))
    paths = eng.explore(harness)
    return pyvc.collect(paths, "boolean_constant"), sum(1 for p in paths if p.covered)


# ---------------------------------------------------------------------------
# dispatchers

# the specification: which transfer function implements which operator of the language reference
FUNCTION_TABLE = {
    "ADDITION": "_compute_constraints_of_additive_operator", "SUBTRACTION": "_compute_constraints_of_additive_operator",
    "MULTIPLICATION": "_compute_constraints_of_multiplicative_operator",
    "EQUALITY": "_compute_constant_value_of_comparison_operator", "INEQUALITY": "_compute_constant_value_of_comparison_operator",
    "LESS": "_compute_constant_value_of_comparison_operator", "LESS_OR_EQUAL": "_compute_constant_value_of_comparison_operator",
    "GREATER": "_compute_constant_value_of_comparison_operator", "GREATER_OR_EQUAL": "_compute_constant_value_of_comparison_operator",
    "AND": "_compute_constant_value_of_comparison_operator", "OR": "_compute_constant_value_of_comparison_operator",
    "CHOICE": "_compute_constraints_of_choice_operator", "MAXIMUM": "_compute_constraints_of_maximum_function",
    "PRESENCE": "_compute_constraints_of_existence_function",
    "UPPER_BOUND": "_compute_constraints_of_bound_function", "LOWER_BOUND": "_compute_constraints_of_bound_function",
}
VARIETY_TABLE = {
    "constant": "_compute_constant_value_of_constant", "constant_reference": "_compute_constant_value_of_constant_reference",
    "function": "_compute_constraints_of_function", "field_reference": "_compute_constraints_of_field_reference",
    "builtin_reference": "_compute_constraints_of_builtin_value", "boolean_constant": "_compute_constant_value_of_boolean_constant",
}


def _recorders(eng, eb, names, log):
    for nm in names:
        fn = getattr(eb, nm)
        eng.contract(fn, (lambda nm: (lambda interp, *a, **kw: log.append((nm, a)) or None))(nm), nm)


def target_dispatch_function():
    eng, eb, ir_data, ir_util = _base_engine()
    FM = ir_data.FunctionMapping
    # precondition: the operator is one the language defines (UNKNOWN is what the parser stores for text that is not
    # an operator; such modules are rejected long before this pass)
    members = [m.name for m in FM if m.name != "UNKNOWN"]
    missing = [m for m in members if m not in FUNCTION_TABLE]
    if missing:
        raise core.CheckerError("FunctionMapping members without an entry in the contract's operator table: %s" % missing)
    log = []
    _recorders(eng, eb, sorted(set(FUNCTION_TABLE.values())) + ["compute_constraints_of_expression"], log)

    def harness(c):
        op = c.choice("f", members)
        nargs = int(c.choice("nargs", ["1", "2", "3"]))
        del log[:]
        args = [SRec("Expression", {"tag": i}) for i in range(nargs)]
        e = SRec("Expression", {"function": SRec("Function", {"function": getattr(FM, op), "args": args}), "which_expression": "function"})
        irr = SRec("EmbossIr", {})
        c.covered = True
        try:
            pyvc.run_body(c, EB + "._compute_constraints_of_function", [e, irr])
        except pyvc.PyRaise as r:
            # an operator the language does not define (UNKNOWN) may be rejected by assertion; a defined one may not
            c.oblige("defined-operators-are-dispatched", op not in FUNCTION_TABLE, detail="%s raised %s" % (op, r.exc_type))
            return
        if op not in FUNCTION_TABLE:
            c.oblige("undefined-operator-is-not-given-a-meaning", not [x for x in log if x[0] != "compute_constraints_of_expression"],
                     detail="called %s" % [x[0] for x in log])
            return
        pre = [x for x in log if x[0] == "compute_constraints_of_expression"]
        post = [x for x in log if x[0] != "compute_constraints_of_expression"]
        c.oblige("every-argument-computed-first", [x[1][0] for x in pre] == args and log[:len(pre)] == pre, detail="log %s" % [x[0] for x in log])
        c.oblige("transfer-function-of-the-operator", len(post) == 1 and post[0][0] == FUNCTION_TABLE[op] and post[0][1][0] is e,
                 detail="%s -> %s" % (op, [x[0] for x in post]))
    paths = eng.explore(harness)
    return pyvc.collect(paths, "dispatch_function"), sum(1 for p in paths if p.covered)


def target_dispatch_expression():
    eng, eb, ir_data, ir_util = _base_engine()
    log = []
    _recorders(eng, eb, sorted(set(VARIETY_TABLE.values())) + ["_assert_integer_constraints"], log)
    eng.contract(ir_util.is_constant_type, lambda interp, t: t.f["ghost_constant_type"], "is_constant_type")

    def harness(c):
        variety = c.choice("variety", sorted(VARIETY_TABLE))      # precondition: one of the six varieties ir_data.Expression has
        which = c.choice("type", ["integer", "boolean", "enumeration", "opaque"])
        already = c.choice("already-constant", ["no", "yes"]) == "yes"
        del log[:]
        e = SRec("Expression", {"which_expression": variety, "type": SRec("ExpressionType", {"which_type": which, "ghost_constant_type": already})})
        irr = SRec("EmbossIr", {})
        c.covered = True
        try:
            pyvc.run_body(c, EB + ".compute_constraints_of_expression", [e, irr])
        except pyvc.PyRaise as r:
            c.oblige("known-varieties-are-dispatched", variety not in VARIETY_TABLE and not already, detail="%s raised %s" % (variety, r.exc_type))
            return
        names = [x[0] for x in log]
        if already:
            c.oblige("constant-type-left-alone", names == [], detail="called %s" % names)
            return
        want = [VARIETY_TABLE.get(variety)] + (["_assert_integer_constraints"] if which == "integer" else [])
        c.oblige("function-of-the-variety-then-invariant-check", names == want and all(x[1][0] is e for x in log), detail="%s -> %s" % (variety, names))
    paths = eng.explore(harness)
    return pyvc.collect(paths, "dispatch_expression"), sum(1 for p in paths if p.covered)


# ---------------------------------------------------------------------------
# leaves that are not physical fields


def target_builtin_value():
    eng, eb, ir_data, ir_util = _base_engine()

    def harness(c):
        res = SRec("IntegerType", {})
        e = SRec("Expression", {"type": SRec("ExpressionType", {"which_type": "integer", "integer": res}), "which_expression": "builtin_reference",
                                "builtin_reference": SRec("Reference", {"canonical_name": SRec("CanonicalName", {"object_path": ["$static_size_in_bits"]})})})
        v = z3.Int("size")
        c.assume(v >= 0)          # a size in bits
        c.covered = True
        pyvc.run_body(c, EB + "._compute_constraints_of_builtin_value", [e])
        bounds.check_result(c, res, v)
    paths = eng.explore(harness)
    return pyvc.collect(paths, "builtin_value[$static_size_in_bits]"), sum(1 for p in paths if p.covered)


def target_parameter():
    """_compute_constraints_of_parameter hands _set_integer_constraints_from_physical_type the parameter itself, its
    physical type and the constant value of that type's size_in_bits (the leaf contract of contracts/bounds.py does the rest)."""
    eng, eb, ir_data, ir_util = _base_engine()
    log = []
    _recorders(eng, eb, ["_set_integer_constraints_from_physical_type"], log)
    eng.contract(ir_util.constant_value, lambda interp, e, bindings=None: e.f["ghost_constant_value"], "constant_value")

    def harness(c):
        which = c.choice("type", ["integer", "enumeration", "boolean"])
        n = z3.Int("bits")
        size = SRec("Expression", {"ghost_constant_value": SInt(n)})
        alias = SRec("Type", {"size_in_bits": size})
        p = SRec("RuntimeParameter", {"type": SRec("ExpressionType", {"which_type": which}), "physical_type_alias": alias})
        del log[:]
        c.covered = True
        pyvc.run_body(c, EB + "._compute_constraints_of_parameter", [p])
        if which != "integer":
            c.oblige("non-integer-parameters-get-no-integer-range", log == [], detail=str([x[0] for x in log]))
            return
        ok = len(log) == 1 and log[0][1][0] is p and log[0][1][1] is alias and isinstance(log[0][1][2], SInt)
        c.oblige("leaf-range-of-the-declared-type-and-size", ok and (log[0][1][2].t == n), detail=str(log))
    paths = eng.explore(harness)
    return pyvc.collect(paths, "parameter"), sum(1 for p in paths if p.covered)


def target_virtual_field_reference():
    """_compute_constraints_of_field_reference, reference to a VIRTUAL field: the reference gets (a copy of) the type of the
    value of THAT field - the field that ir_util.find_object finds for the last element of the path - whatever was computed
    earlier in the same compilation.  Two virtual fields with the same Type.field path in two modules (a.emb, b.emb), with
    different value types; single references and both orders of two consecutive references (history of two calls; module-level
    state, if the code keeps any, is whatever the first call left behind).  compute_constraints_of_expression is the callee
    contract: afterwards the value expression carries its true type."""
    eng, eb, ir_data, ir_util = _base_engine()
    computed = []

    def mk_type(lo, hi, mod):
        return SRec("ExpressionType", {"which_type": "integer", "integer": SRec("IntegerType", {"minimum_value": str(lo), "maximum_value": str(hi), "modulus": str(mod), "modular_value": "0"})})
    TRUE = {"a.emb": (0, 1020, 4), "b.emb": (0, 524280, 8)}
    fields = {}

    def reset():
        del computed[:]
        for m in TRUE:
            fields[m] = SRec("Field", {"ghost_virtual": True, "ghost_module": m, "read_transform": SRec("Expression", {"type": SRec("ExpressionType", {"which_type": "integer", "integer": SRec("IntegerType", {})}), "ghost_module": m})})

    def cce(interp, expression, ir):
        computed.append(expression.f["ghost_module"])
        expression.f["type"] = mk_type(*TRUE[expression.f["ghost_module"]])
    eng.contract(eb.compute_constraints_of_expression, cce, "compute_constraints_of_expression")
    eng.contract(ir_util.find_object, lambda interp, ref, ir: fields[ref.f["canonical_name"].f["module_file"]], "ir_util.find_object")
    eng.contract(ir_util.field_is_virtual, lambda interp, f: f.f["ghost_virtual"], "field_is_virtual")

    def ref_expr(m):
        path = [SRec("Reference", {"canonical_name": SRec("CanonicalName", {"module_file": m, "object_path": ["Header", "body_size"]})})]
        return SRec("Expression", {"type": SRec("ExpressionType", {"which_type": "integer", "integer": SRec("IntegerType", {})}), "field_reference": SRec("FieldReference", {"path": path})})

    def same(t, m):
        lo, hi, mod = TRUE[m]
        i = t.f.get("integer")
        return t.f.get("which_type") == "integer" and isinstance(i, SRec) and (i.f.get("minimum_value"), i.f.get("maximum_value"), i.f.get("modulus"), i.f.get("modular_value")) == (str(lo), str(hi), str(mod), "0")

    def harness(c):
        seq = c.choice("references", ["a", "b", "a-then-b", "b-then-a", "a-then-a"])
        mods = [x + ".emb" for x in seq.split("-then-")]
        reset()
        c.covered = True
        exprs = []
        for m in mods:
            e = ref_expr(m)
            exprs.append(e)
            pyvc.run_body(c, EB + "._compute_constraints_of_field_reference", [e, "IR"])
        for k, (m, e) in enumerate(zip(mods, exprs)):
            c.oblige("reference-%d-gets-the-type-of-its-own-field's-value" % (k + 1), same(e.f["type"], m), detail="%s: %r" % (m, {kk: (vv.f if isinstance(vv, SRec) else vv) for kk, vv in e.f["type"].f.items()}))
            c.oblige("reference-%d-holds-a-copy-not-the-field's-own-type-record" % (k + 1), e.f["type"] is not fields[m].f["read_transform"].f["type"])
    paths = eng.explore(harness)
    return pyvc.collect(paths, "virtual_field_reference"), sum(1 for p in paths if p.covered)


TARGETS = {"virtual_field_reference": target_virtual_field_reference, "comparison": target_comparison, "boolean_constant": target_boolean_constant, "dispatch_function": target_dispatch_function,
           "dispatch_expression": target_dispatch_expression, "builtin_value": target_builtin_value, "parameter": target_parameter}
FUNCTIONS = ["_compute_constant_value_of_comparison_operator", "_compute_constant_value_of_boolean_constant", "_compute_constraints_of_function",
             "compute_constraints_of_expression", "_compute_constraints_of_builtin_value", "_compute_constraints_of_parameter", "_compute_constraints_of_field_reference"]
