"""E2a contracts for the expression runtime of runtime/cpp/emboss_arithmetic.h (C01, C04 layer 3).

Every operation the header generator can name, instantiated for every combination of C++ types
`_cpp_integer_type_for_range` can produce (int32_t, uint32_t, int64_t, uint64_t) for IntermediateT,
ResultT and the argument types:

  requires  every Known() integer argument, read in its own C++ type, lies in range(IntermediateT), and
            the mathematical result lies in range(IntermediateT) and in range(ResultT)
            (this is what C05 soundness + the 64-bit gate + the IntermediateT choice of
            header_generator._render_builtin_operation supply: contracts/gate.py, `intermediate-type`)
  ensures   Known(result) per the operation's rule:  arithmetic, comparison, Maximum: all arguments Known;
            And: false if either side is Known false, else unknown if either side is unknown, else true;
            Or: dually;  Choice: condition Known and the selected branch Known
            Known(result) => value(result) == the mathematical result
            no ubsantrap (signed overflow, ...) reachable           [generated safety obligations]

Maybe<T> arguments are built in the wrapper from (known bit, 64-bit payload); the result's Known() and
value are observables 0 and 1."""
import itertools

import z3

from vlib.llvc import enc

bv = enc.bv
INCLUDES = ["runtime/cpp/emboss_arithmetic.h"]
TYPES = {"i32": ("::std::int32_t", 32, True), "u32": ("::std::uint32_t", 32, False),
         "i64": ("::std::int64_t", 64, True), "u64": ("::std::uint64_t", 64, False)}
PREAMBLE = "using namespace emboss::support;\nenum class EnumU : ::std::uint64_t { A = 1 };\nenum class EnumS : ::std::int8_t { A = 1 };\n"
ARITH = {"Sum": lambda l, r: l + r, "Difference": lambda l, r: l - r, "Product": lambda l, r: l * r}
COMPARE = {"Equal": lambda l, r: l == r, "NotEqual": lambda l, r: l != r, "LessThan": lambda l, r: l < r,
           "LessThanOrEqual": lambda l, r: l <= r, "GreaterThan": lambda l, r: l > r, "GreaterThanOrEqual": lambda l, r: l >= r}
XW = 136          # width of the exact arithmetic in the specification (64 x 64 bit products fit with room to spare)


def to64(t, expr):
    return "(::std::uint64_t)(%s)(%s)" % ("::std::int64_t" if TYPES[t][2] else "::std::uint64_t", expr)


def maybe_arg(i, t):
    """Maybe<T> built from known bit i of n and payload a<i> (payload of argument 2.. comes from the q pointer value and m)."""
    src = ["a0", "a1", "(::std::uint64_t)(uintptr_t)q", "(::std::uint64_t)m", "(::std::uint64_t)(uintptr_t)p"][i]
    if t == "bool":
        return "((n >> %d) & 1) ? Maybe<bool>((%s & 1) != 0) : Maybe<bool>()" % (i, src)
    ct = TYPES[t][0]
    return "((n >> %d) & 1) ? Maybe< %s>(static_cast< %s>(%s)) : Maybe< %s>()" % (i, ct, ct, src, ct)


def wrapper(op, I, Res, args):
    s = ""
    for i, t in enumerate(args):
        s += "  auto x%d = %s;\n" % (i, maybe_arg(i, t))
    tl = ", ".join(["bool" if t == "bool" else TYPES[t][0] for t in [I, Res] + list(args)])
    s += "  auto res = %s< %s>(%s);\n" % (op, tl, ", ".join("x%d" % i for i in range(len(args))))
    s += "  O(0, res.Known());\n  if (res.Known()) O(1, %s);\n  return 0;" % ("res.ValueOrDefault()" if Res == "bool" else to64(Res, "res.ValueOrDefault()"))
    return s


def _payload(k, i):
    return [k.a0, k.a1, k.q, k.m, k.p][i]


def _val(k, i, t):
    """(known, exact value as signed BV XW) of argument i of C++ type t."""
    known = z3.Extract(i, i, k.n) == 1
    raw = _payload(k, i)
    if t == "bool":
        return known, z3.Extract(0, 0, raw) == 1
    _, w, signed = TYPES[t]
    x = z3.Extract(w - 1, 0, raw)
    return known, (z3.SignExt(XW - w, x) if signed else z3.ZeroExt(XW - w, x))


def _in_range(x, t):
    _, w, signed = TYPES[t]
    lo, hi = (-(1 << (w - 1)), (1 << (w - 1)) - 1) if signed else (0, (1 << w) - 1)
    return z3.And(x >= bv(lo, XW), x <= bv(hi, XW))


def _res64(x, t):
    """The 64-bit observable of an exact value x of C++ type t (sign- or zero-extended by the wrapper)."""
    return z3.Extract(63, 0, x)


def contract(k, op, I, Res, args):
    vals = [_val(k, i, t) for i, t in enumerate(args)]
    if op in ARITH or op in COMPARE or op == "Maximum":
        allk = z3.And([kn for kn, _ in vals])
        for kn, v in vals:
            k.requires(z3.Implies(kn, _in_range(v, I)))
        if op == "Product":
            k.abstract_mul = True
            # exactness of a product is stated with the solver's own no-overflow predicates at IntermediateT's width
            # (two multipliers of different widths are not something a SAT solver can relate)
            _, wI, sI = TYPES[I]
            li, ri = z3.Extract(wI - 1, 0, vals[0][1]), z3.Extract(wI - 1, 0, vals[1][1])
            fits = z3.BVMulNoOverflow(li, ri, sI)
            if sI:
                fits = z3.And(fits, z3.BVMulNoUnderflow(li, ri))
            k.requires(z3.Implies(allk, fits))            # the mathematical product lies in range(IntermediateT)
            pI = li * ri
            res = z3.SignExt(XW - wI, pI) if sI else z3.ZeroExt(XW - wI, pI)
        elif op in ARITH:
            res = ARITH[op](vals[0][1], vals[1][1])
        elif op == "Maximum":
            res = vals[0][1]
            for _, v in vals[1:]:
                res = z3.If(v > res, v, res)
        else:
            res = COMPARE[op](vals[0][1], vals[1][1])
        if op not in COMPARE:
            k.requires(z3.Implies(allk, z3.And(_in_range(res, I), _in_range(res, Res))))
            k.ensures("value", k.obs_eq(1, allk, _res64(res, Res)))
        else:
            k.ensures("value", k.obs_eq(1, allk, z3.If(res, bv(1, 64), bv(0, 64))))
        k.ensures("Known", k.obs_flag(0, allk))
        return
    if op in ("And", "Or"):
        (lk, lv), (rk, rv) = vals
        if op == "And":
            known_false = z3.Or(z3.And(lk, z3.Not(lv)), z3.And(rk, z3.Not(rv)))
            known = z3.Or(known_false, z3.And(lk, rk))
            val = z3.Not(known_false)
        else:
            known_true = z3.Or(z3.And(lk, lv), z3.And(rk, rv))
            known = z3.Or(known_true, z3.And(lk, rk))
            val = known_true
        k.ensures("Known", k.obs_flag(0, known))
        k.ensures("value", k.obs_eq(1, known, z3.If(val, bv(1, 64), bv(0, 64))))
        return
    if op == "Choice":
        (ck, cv), (tk, tv), (fk, fv) = vals
        selk = z3.If(cv, tk, fk)
        known = z3.And(ck, selk)
        if Res == "bool":
            k.ensures("value", k.obs_eq(1, known, z3.If(z3.If(cv, tv, fv), bv(1, 64), bv(0, 64))))
        else:
            sel = z3.If(cv, tv, fv)
            k.requires(z3.Implies(known, _in_range(sel, Res)))
            k.ensures("value", k.obs_eq(1, known, _res64(sel, Res)))
        k.ensures("Known", k.obs_flag(0, known))
        return
    raise ValueError(op)


def all_wrappers(tier):
    ts = list(TYPES)
    out = []
    for op in ARITH:
        for I, Res, L, R in itertools.product(ts, repeat=4):
            out.append((op, I, Res, (L, R)))
    for op in COMPARE:
        for I, L, R in itertools.product(ts, repeat=3):
            out.append((op, I, "bool", (L, R)))
    out.append(("And", "bool", "bool", ("bool", "bool")))
    out.append(("Or", "bool", "bool", ("bool", "bool")))
    for Res, T, F in itertools.product(ts, repeat=3):
        out.append(("Choice", Res, Res, ("bool", T, F)))
    out.append(("Choice", "bool", "bool", ("bool", "bool", "bool")))
    for I, Res, A in itertools.product(ts, repeat=3):
        out.append(("Maximum", I, Res, (A,)))
    for I, Res, A, B in itertools.product(ts, repeat=4):
        out.append(("Maximum", I, Res, (A, B)))
    for n in (3, 4, 5):
        for I, Res in itertools.product(ts, repeat=2):
            for A in ts:
                out.append(("Maximum", I, Res, (A,) * n))
            out.append(("Maximum", I, Res, tuple(ts[(j + ts.index(I)) % 4] for j in range(n))))
    return out


def jobs(tier, prefix="", chunk=40):
    ws = []
    for (op, I, Res, args) in all_wrappers(tier):
        name = "arith_%s_%s_%s_%s" % (op, I, Res, "_".join(args))
        ws.append((name, wrapper(op, I, Res, args), "contracts.cpp_arith:contract", {"op": op, "I": I, "Res": Res, "args": list(args)}))
    js = []
    for i in range(0, len(ws), chunk):
        js.append({"tag": "arith_%03d" % (i // chunk), "includes": INCLUDES, "preamble": PREAMBLE, "prefix": prefix, "wrappers": ws[i:i + chunk]})
    return js
