"""E1 contract on compiler/front_end/symbol_resolver._find_target_of_reference (C12): the search of the visible scopes.

For every list of up to three visible scopes (innermost first), every pattern of "the name is defined in this scope"
(symbolic), every visibility of the definition, every position of the current scope and both values of is_local_name:

  candidates = the scopes that define the name and are the current scope or hold a SEARCHABLE definition
  is_local_name:        the first (innermost) candidate is returned, no ambiguity error; none -> one "missing" error, None
  otherwise:            exactly one candidate -> its definition, no error
                        none                 -> one "missing name" error, None
                        two or more          -> "ambiguous name" error(s), None (never resolved by precedence)
  the errors list is only appended to.

Scope tables are ghost dicts (pyvc.GDict): presence of the name is a symbolic boolean, a definition's own table may be
empty or not (symbolic truthiness: an `external` type has no nested names)."""
import importlib

import z3

from vlib import core, pyvc
from vlib.pyvc import GDict, SBool, SRec

SR = "compiler.front_end.symbol_resolver"


def target_find_target():
    sr = importlib.import_module(SR)
    ir_data = importlib.import_module("compiler.util.ir_data")
    eng = pyvc.Engine()
    eng.contract(sr.ambiguous_name_error, lambda interp, *a, **k: "AMBIGUOUS", "ambiguous_name_error")
    eng.contract(sr.missing_name_error, lambda interp, *a, **k: "MISSING", "missing_name_error")
    eng.contract(sr.FileLocation, lambda interp, *a, **k: "LOC", "FileLocation")
    VIS = {"SEARCHABLE": sr._Scope.SEARCHABLE, "LOCAL": sr._Scope.LOCAL, "PRIVATE": sr._Scope.PRIVATE}

    def harness(c):
        n = int(c.choice("scopes", ["1", "2", "3"]))
        cur = int(c.choice("current", [str(i) for i in range(n)]))
        local = c.choice("is_local_name", ["False", "True"]) == "True"
        scopes, has, vis, entries = [], [], [], []
        table = {"m.emb": {}}
        for i in range(n):
            path = ["T%d" % j for j in range(n - 1 - i)]          # innermost first: the deepest path comes first
            scopes.append(ir_data.CanonicalName(module_file="m.emb", object_path=list(path)))
            h = z3.Bool("defined%d" % i)
            v = c.choice("visibility%d" % i, sorted(VIS))
            nonempty = z3.Bool("has_nested_names%d" % i)
            entry = GDict({"x": True}, {}, truthy=SBool(nonempty), label="definition%d" % i,
                          attrs={"visibility": VIS[v], "alias": None, "canonical_name": SRec("CanonicalName", {"module_file": "m.emb"}), "source_location": SRec("SourceLocation", {})})
            has.append(h)
            vis.append(v)
            entries.append(entry)
        # nested concrete dicts down to each scope's table; the scope's own table is a ghost dict
        leaves = {}
        for i in range(n):
            path = scopes[i].object_path
            leaves[tuple(path)] = GDict({"x": SBool(has[i])}, {"x": entries[i]}, truthy=True, label="scope%d" % i)

        class Node(dict):
            pass

        def build(prefix):
            # a dict that maps the next path element to the nested table and behaves as the ghost dict of this scope
            g = leaves[tuple(prefix)]
            nxt = "T%d" % len(prefix)
            if tuple(prefix + [nxt]) in leaves:
                g.present[nxt] = True
                g.entries[nxt] = build(prefix + [nxt])
            return g
        table["m.emb"] = build([])
        ref = SRec("Reference", {"source_name": [SRec("Word", {"text": "x", "source_location": SRec("SourceLocation", {})})], "is_local_name": local,
                                 "source_location": SRec("SourceLocation", {})})
        errors = []
        c.covered = True
        st, got = pyvc.run_body(c, SR + "._find_target_of_reference", [ref, table, scopes[cur], scopes, "m.emb", errors])
        cand = [z3.And(has[i], z3.BoolVal(i == cur or vis[i] == "SEARCHABLE")) for i in range(n)]
        ncand = z3.Sum([z3.If(x, 1, 0) for x in cand])
        c.oblige("only-known-error-kinds", all(e in ("AMBIGUOUS", "MISSING") for e in errors), detail=str(errors))
        if local:
            first = None
            for i in range(n):
                is_first = z3.And(cand[i], z3.Not(z3.Or(cand[:i])) if i else z3.BoolVal(True))
                c.oblige("local-name:innermost-candidate-returned[%d]" % i, z3.Implies(is_first, z3.BoolVal(got is entries[i] and not errors)))
            c.oblige("local-name:none->missing", z3.Implies(ncand == 0, z3.BoolVal(got is None and errors == ["MISSING"])))
            return
        for i in range(n):
            c.oblige("unique-candidate-returned[%d]" % i, z3.Implies(z3.And(ncand == 1, cand[i]), z3.BoolVal(got is entries[i] and not errors)))
        c.oblige("none->missing-name-error", z3.Implies(ncand == 0, z3.BoolVal(got is None and errors == ["MISSING"])))
        c.oblige("several->ambiguous-name-error-never-precedence", z3.Implies(ncand >= 2, z3.BoolVal(got is None and len(errors) >= 1 and all(e == "AMBIGUOUS" for e in errors))))
    paths = eng.explore(harness)
    return pyvc.collect(paths, "_find_target_of_reference"), sum(1 for p in paths if p.covered)


TARGETS = {"_find_target_of_reference": target_find_target}
