"""E1 contract on compiler/front_end/symbol_resolver._find_target_of_reference (C12): the search of the visible scopes.

For every list of up to three visible scopes (innermost first), every pattern of "the name is defined in this scope"
(symbolic), every visibility of the definition, every position of the current scope and both values of is_local_name:

  candidates = the scopes that define the name and are the current scope or hold a SEARCHABLE definition
  is_local_name:        the first (innermost) candidate is returned, no ambiguity error; none -> one "missing" error, None
  otherwise:            exactly one candidate -> its definition, no error
                        none                 -> one "missing name" error, None
                        two or more          -> "ambiguous name" error(s), None (never resolved by precedence)
  the errors list is only appended to.

Scope tables are ghost dicts (pyvc.GDict): presence of the name is a symbolic boolean, a definition's own table may be
empty or not (symbolic truthiness: an `external` type has no nested names)."""
import importlib

import z3

from vlib import core, pyvc
from vlib.pyvc import GDict, SBool, SRec

SR = "compiler.front_end.symbol_resolver"


def target_find_target():
    sr = importlib.import_module(SR)
    ir_data = importlib.import_module("compiler.util.ir_data")
    eng = pyvc.Engine()
    eng.contract(sr.ambiguous_name_error, lambda interp, *a, **k: "AMBIGUOUS", "ambiguous_name_error")
    eng.contract(sr.missing_name_error, lambda interp, *a, **k: "MISSING", "missing_name_error")
    eng.contract(sr.FileLocation, lambda interp, *a, **k: "LOC", "FileLocation")
    VIS = {"SEARCHABLE": sr._Scope.SEARCHABLE, "LOCAL": sr._Scope.LOCAL, "PRIVATE": sr._Scope.PRIVATE}

    def harness(c):
        n = int(c.choice("scopes", ["1", "2", "3"]))
        cur = int(c.choice("current", [str(i) for i in range(n)]))
        local = c.choice("is_local_name", ["False", "True"]) == "True"
        scopes, has, vis, entries = [], [], [], []
        table = {"m.emb": {}}
        for i in range(n):
            path = ["T%d" % j for j in range(n - 1 - i)]          # innermost first: the deepest path comes first
            scopes.append(ir_data.CanonicalName(module_file="m.emb", object_path=list(path)))
            h = z3.Bool("defined%d" % i)
            v = c.choice("visibility%d" % i, sorted(VIS))
            nonempty = z3.Bool("has_nested_names%d" % i)
            entry = GDict({"x": True}, {}, truthy=SBool(nonempty), label="definition%d" % i,
                          attrs={"visibility": VIS[v], "alias": None, "canonical_name": SRec("CanonicalName", {"module_file": "m.emb"}), "source_location": SRec("SourceLocation", {})})
            has.append(h)
            vis.append(v)
            entries.append(entry)
        # nested concrete dicts down to each scope's table; the scope's own table is a ghost dict
        leaves = {}
        for i in range(n):
            path = scopes[i].object_path
            leaves[tuple(path)] = GDict({"x": SBool(has[i])}, {"x": entries[i]}, truthy=True, label="scope%d" % i)

        class Node(dict):
            pass

        def build(prefix):
            # a dict that maps the next path element to the nested table and behaves as the ghost dict of this scope
            g = leaves[tuple(prefix)]
            nxt = "T%d" % len(prefix)
            if tuple(prefix + [nxt]) in leaves:
                g.present[nxt] = True
                g.entries[nxt] = build(prefix + [nxt])
            return g
        table["m.emb"] = build([])
        ref = SRec("Reference", {"source_name": [SRec("Word", {"text": "x", "source_location": SRec("SourceLocation", {})})], "is_local_name": local,
                                 "source_location": SRec("SourceLocation", {})})
        errors = []
        c.covered = True
        st, got = pyvc.run_body(c, SR + "._find_target_of_reference", [ref, table, scopes[cur], scopes, "m.emb", errors])
        cand = [z3.And(has[i], z3.BoolVal(i == cur or vis[i] == "SEARCHABLE")) for i in range(n)]
        ncand = z3.Sum([z3.If(x, 1, 0) for x in cand])
        c.oblige("only-known-error-kinds", all(e in ("AMBIGUOUS", "MISSING") for e in errors), detail=str(errors))
        if local:
            first = None
            for i in range(n):
                is_first = z3.And(cand[i], z3.Not(z3.Or(cand[:i])) if i else z3.BoolVal(True))
                c.oblige("local-name:innermost-candidate-returned[%d]" % i, z3.Implies(is_first, z3.BoolVal(got is entries[i] and not errors)))
            c.oblige("local-name:none->missing", z3.Implies(ncand == 0, z3.BoolVal(got is None and errors == ["MISSING"])))
            return
        for i in range(n):
            c.oblige("unique-candidate-returned[%d]" % i, z3.Implies(z3.And(ncand == 1, cand[i]), z3.BoolVal(got is entries[i] and not errors)))
        c.oblige("none->missing-name-error", z3.Implies(ncand == 0, z3.BoolVal(got is None and errors == ["MISSING"])))
        c.oblige("several->ambiguous-name-error-never-precedence", z3.Implies(ncand >= 2, z3.BoolVal(got is None and len(errors) >= 1 and all(e == "AMBIGUOUS" for e in errors))))
    paths = eng.explore(harness)
    return pyvc.collect(paths, "_find_target_of_reference"), sum(1 for p in paths if p.covered)


def target_resolve_field_reference():
    """symbol_resolver._resolve_field_reference (members after a dot; aliases followed to what they name), over a ghost IR:

       head of the path: a runtime parameter | a physical field of structure type T0 | an array field | a computed virtual
       field | an alias (virtual field whose definition is a field path) of one element, of two elements [via T1, then T0],
       an alias of an alias, an alias that names an array, an alias that cannot be resolved;
       one or two member references after the head; T0 has member mm (of type T2) - or not (symbolic); T2 has member nn - or
       not; T1 (the type of the HEAD of the two-element alias path) also has members mm / nn, leading elsewhere.

    Postcondition: each member is looked up in the type of the field the path so far designates - for an alias, the type of
    the LAST element of its (already resolved) path: ref.canonical_name == type's canonical name + [member]; a missing
    member -> one missing-name error at that member and nothing after it is bound; parameter / computed virtual field ->
    one noncomposite error; array -> one array error; unresolvable alias -> silence (the alias's own error surfaces where
    the alias is resolved); references are bound left to right and never rebound."""
    sr = importlib.import_module(SR)
    ir_util = importlib.import_module("compiler.util.ir_util")
    ir_data_utils = importlib.import_module("compiler.util.ir_data_utils")
    eng = pyvc.Engine()
    eng.contract(sr.noncomposite_subfield_error, lambda interp, f, loc, name: ("NONCOMPOSITE", name), "noncomposite_subfield_error")
    eng.contract(sr.array_subfield_error, lambda interp, f, loc, name: ("ARRAY", name), "array_subfield_error")
    eng.contract(sr.missing_name_error, lambda interp, f, loc, name: ("MISSING", name, loc), "missing_name_error")
    eng.identity(ir_data_utils.builder)
    eng.contract(ir_data_utils.copy, lambda interp, cn: SRec("CanonicalName", {"module_file": cn.f["module_file"], "object_path": list(cn.f["object_path"])}), "ir_data_utils.copy")
    eng.contract(ir_util.field_is_virtual, lambda interp, f: f.f["ghost_virtual"], "field_is_virtual")

    def cname(*path):
        return SRec("CanonicalName", {"module_file": "m.emb", "object_path": list(path)})

    def word(text):
        return SRec("Word", {"text": text, "source_location": ("LOC", text)})

    def atomic_field(label, tname):
        return SRec("Field", {"ghost_label": label, "ghost_virtual": False, "name": SRec("NameDefinition", {"canonical_name": cname("Foo", label)}),
                              "type": SRec("Type", {"which_type": "atomic_type", "atomic_type": SRec("AtomicType", {"reference": SRec("Reference", {"canonical_name": cname(tname)})})})})

    def array_field(label):
        return SRec("Field", {"ghost_label": label, "ghost_virtual": False, "name": SRec("NameDefinition", {"canonical_name": cname("Foo", label)}), "type": SRec("Type", {"which_type": "array_type"})})

    def ref(name, target=None, resolved=False):
        r = SRec("Reference", {"source_name": [word(name)], "source_location": ("LOC", name), "ghost_target": target},
                 defaults={"canonical_name": lambda rec: SRec("CanonicalName", {}), "has:canonical_name": False})
        if resolved:
            r.f["canonical_name"] = cname("resolved", name)
        return r

    def alias_field(label, path_refs, resolvable=True):
        fr = SRec("FieldReference", {"path": list(path_refs), "ghost_resolvable": resolvable})
        return SRec("Field", {"ghost_label": label, "ghost_virtual": True, "name": SRec("NameDefinition", {"canonical_name": cname("Foo", label)}),
                              "read_transform": SRec("Expression", {"which_expression": "field_reference", "field_reference": fr})})

    def harness(c):
        head_kind = c.choice("head", ["parameter", "field", "array", "computed", "alias", "alias-dotted", "alias-of-alias", "alias-to-array", "alias-unresolvable"])
        nmem = int(c.choice("members", ["1", "2"]))
        p0, p2 = z3.Bool("T0_has_mm"), z3.Bool("T2_has_nn")
        M0, M1, N2, N3 = atomic_field("M0", "T2"), atomic_field("M1", "T3"), atomic_field("N2", "T4"), atomic_field("N3", "T4")
        members = {("T0", "mm"): (p0, M0), ("T1", "mm"): (True, M1), ("T2", "nn"): (p2, N2), ("T3", "nn"): (True, N3), ("T1", "nn"): (True, N3), ("T0", "nn"): (True, N3)}
        F0, F1, ARR = atomic_field("f0", "T0"), atomic_field("f1", "T1"), array_field("arr")
        if head_kind == "parameter":
            head_obj = SRec("RuntimeParameter", {"ghost_label": "param", "ghost_virtual": False})
        elif head_kind == "field":
            head_obj = F0
        elif head_kind == "array":
            head_obj = ARR
        elif head_kind == "computed":
            head_obj = SRec("Field", {"ghost_label": "computed", "ghost_virtual": True, "read_transform": SRec("Expression", {"which_expression": "function"})})
        elif head_kind == "alias":
            head_obj = alias_field("al", [ref("f0", F0)])
        elif head_kind == "alias-dotted":
            head_obj = alias_field("al", [ref("f1", F1), ref("inner", F0)])          # head of the alias path has type T1, its last element type T0
        elif head_kind == "alias-of-alias":
            head_obj = alias_field("al2", [ref("al", alias_field("al", [ref("f1", F1), ref("inner", F0)]))])
        elif head_kind == "alias-to-array":
            head_obj = alias_field("al", [ref("f1", F1), ref("arr", ARR)])
        else:
            head_obj = alias_field("al", [ref("zz", None)], resolvable=False)
        head_ref = ref("head", head_obj, resolved=True)
        mrefs = [ref("mm"), ref("nn")][:nmem]
        fr = SRec("FieldReference", {"path": [head_ref] + mrefs})

        def find_object_or_none(interp, name, ir):
            if name.typename == "Reference":
                return name.f["ghost_target"]
            key = tuple(name.f["object_path"])
            if key not in members:
                c.oblige("member-lookups-stay-inside-the-ghost-types", False, detail=repr(key))
                return None
            pres, obj = members[key]
            if pres is True or interp.ctx.branch(pres):
                return obj
            return None
        eng.contract(ir_util.find_object_or_none, find_object_or_none, "find_object_or_none")

        def find_object(interp, name, ir):
            t = name.f["ghost_target"]
            c.oblige("find_object-only-on-resolved-references", t is not None and "canonical_name" in name.f, detail=repr(name.f.get("source_name")))
            return t
        eng.contract(ir_util.find_object, find_object, "find_object")
        inner_calls = []

        def ih(interp, field_reference, source_file_name, errors, ir):
            inner_calls.append(field_reference)
            if field_reference.f["ghost_resolvable"]:
                for r in field_reference.f["path"]:
                    r.f.setdefault("canonical_name", cname("resolved"))
            else:
                errors.append(("INNER-ERROR",))
            return None
        eng.contract(sr._resolve_field_reference, ih, "_resolve_field_reference (alias definitions: induction hypothesis)")
        errors = []
        c.covered = True
        pyvc.run_body(c, SR + "._resolve_field_reference", [fr, "m.emb", errors, "IR"])
        bound = [("canonical_name" in r.f) for r in mrefs]

        def path_of(r):
            return list(r.f["canonical_name"].f["object_path"]) if "canonical_name" in r.f else None
        final_type = {"field": "T0", "alias": "T0", "alias-dotted": "T0", "alias-of-alias": "T0"}.get(head_kind)
        if head_kind in ("parameter", "computed"):
            c.oblige("scalar-head:one-noncomposite-error-nothing-bound", errors == [("NONCOMPOSITE", "head")] and not any(bound), detail=repr(errors))
            return
        if head_kind in ("array", "alias-to-array"):
            c.oblige("array-head:one-array-error-nothing-bound", errors == [("ARRAY", "head")] and not any(bound), detail=repr(errors))
            return
        if head_kind == "alias-unresolvable":
            c.oblige("unresolvable-alias:silent-nothing-bound", errors == [] and not any(bound), detail=repr(errors))
            return
        # the first member is looked up in T0 (for aliases: the type of the LAST element of the alias's path)
        if bound[0]:
            c.oblige("member-bound-in-the-type-of-the-designated-field", z3.And(p0, z3.BoolVal(path_of(mrefs[0]) == [final_type, "mm"])), detail=repr(path_of(mrefs[0])))
        else:
            c.oblige("missing-member:one-error-at-that-member-nothing-bound", z3.And(z3.Not(p0), z3.BoolVal(errors == [("MISSING", "mm", ("LOC", "mm"))] and not any(bound))), detail=repr(errors))
            return
        if nmem == 1:
            c.oblige("no-error-when-every-member-exists", errors == [], detail=repr(errors))
            return
        if bound[1]:
            c.oblige("second-member-bound-in-the-type-of-the-first", z3.And(p2, z3.BoolVal(path_of(mrefs[1]) == ["T2", "nn"] and errors == [])), detail=repr(path_of(mrefs[1])))
        else:
            c.oblige("missing-second-member:one-error-first-stays-bound", z3.And(z3.Not(p2), z3.BoolVal(errors == [("MISSING", "nn", ("LOC", "nn"))])), detail=repr(errors))
    paths = eng.explore(harness)
    return pyvc.collect(paths, "_resolve_field_reference"), sum(1 for p in paths if p.covered)


def target_add_name_to_scope():
    """symbol_resolver._add_name_to_scope: a name is entered into its scope table exactly once.  For a scope table that
    does or does not already hold the name (symbolic): absent -> the new entry (canonical name, location, visibility as
    given) is stored under the name, no error; present -> exactly one duplicate-name error that points at both
    definitions, and the EXISTING entry stays (a duplicate never silently replaces the first definition).  Either way the
    new scope object is returned and no other key of the table is written."""
    sr = importlib.import_module(SR)
    eng = pyvc.Engine()
    eng.contract(sr.duplicate_name_error, lambda interp, f, loc, name, original: ("DUPLICATE", f, loc, name, original), "duplicate_name_error")
    eng.contract(sr.FileLocation, lambda interp, f, loc: ("FILELOC", f, loc), "FileLocation")
    eng.contract(sr._Scope, lambda interp, cn, loc, vis: GDict({}, {}, truthy=False, label="new-scope", attrs={"canonical_name": cn, "source_location": loc, "visibility": vis, "alias": None}), "_Scope(...)")

    def harness(c):
        vis = c.choice("visibility", ["LOCAL", "PRIVATE", "SEARCHABLE"])
        present = z3.Bool("name_already_in_scope")
        old = GDict({}, {}, truthy=False, label="first-definition", attrs={"canonical_name": SRec("CanonicalName", {"module_file": "first.emb"}), "source_location": ("LOC", "first"),
                                                                          "visibility": sr._Scope.LOCAL, "alias": None})
        other = GDict({}, {}, truthy=False, label="other-name", attrs={})
        scope = GDict({"x": SBool(present), "y": True}, {"x": old, "y": other}, truthy=True, label="scope",
                      attrs={"canonical_name": SRec("CanonicalName", {"module_file": "m.emb"}), "source_location": ("LOC", "scope"), "visibility": sr._Scope.SEARCHABLE, "alias": None})
        name_ir = SRec("Word", {"text": "x", "source_location": ("LOC", "second")})
        cn = SRec("CanonicalName", {"module_file": "m.emb", "object_path": ["x"]})
        errors = []
        c.covered = True
        st, got = pyvc.run_body(c, SR + "._add_name_to_scope", [name_ir, scope, cn, getattr(sr._Scope, vis), errors])
        ok_new = isinstance(got, GDict) and got.label == "new-scope" and got.attrs["canonical_name"] is cn and got.attrs["source_location"] == ("LOC", "second") and got.attrs["visibility"] is getattr(sr._Scope, vis)
        c.oblige("returns-the-new-scope-with-the-given-name-location-visibility", ok_new, detail=repr(got))
        c.oblige("frame:no-other-key-written", scope.entries["y"] is other and scope.present["y"] is True and set(scope.entries) == {"x", "y"})
        if scope.entries["x"] is old:
            c.oblige("duplicate:first-definition-kept-and-one-error-pointing-at-both", z3.And(present, z3.BoolVal(errors == [("DUPLICATE", "m.emb", ("LOC", "second"), "x", ("FILELOC", "first.emb", ("LOC", "first")))])),
                     detail=repr(errors))
        else:
            c.oblige("fresh-name:stored-without-error", z3.And(z3.Not(present), z3.BoolVal(scope.entries["x"] is got and scope.present["x"] is True and errors == [])), detail=repr(errors))
    paths = eng.explore(harness)
    return pyvc.collect(paths, "_add_name_to_scope"), sum(1 for p in paths if p.covered)


TARGETS = {"_find_target_of_reference": target_find_target, "_resolve_field_reference": target_resolve_field_reference, "_add_name_to_scope": target_add_name_to_scope}
