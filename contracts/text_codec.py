"""E2a contracts for the integer text codec of runtime/cpp/emboss_text_util.h (C06, last sentence:
"Integer text encoding and decoding are mutually inverse for every value of every width, and
malformed numbers are rejected rather than wrapped").

Both functions are specified against the *meaning* of a numeral, not against each other:

  NUM(text)    the mathematical value of   [-] [0x|0X|0b|0B] (digit | _)+   in its base
  VALID_T(t)   t has that shape, at least one character follows the prefix, '_' is not the first
               character of the text, every digit is below the base, '-' only for signed T, and every
               Horner partial value (hence, by monotonicity of the magnitude, the value itself) lies
               in range(T)

  DecodeInteger<T>(t, &r)                  returns VALID_T(t), and then r == NUM(t);  t is not modified
  WriteIntegerToTextStream<S,T>(v,s,B,g)   writes exactly one C string c with: c is the canonical
                                           numeral of v (sign, prefix for B, no leading zero, lower-case
                                           digits, '_' every G digits from the right iff g) and NUM(c) == v

Round trip: canonical numerals satisfy the shape part of VALID_T (by inspection of the shape
clauses), NUM(c) == v is in range(T) because v is a T, hence decode(encode(v)) == (true, v).  The
step from "Horner value" (decoder) to "positional sum" (encoder) is the lemma family
`lemma.horner-equals-positional` proved below in linear integer arithmetic; magnitude monotonicity
(`lemma.horner-magnitude-monotone`) turns "every partial value in range" into "the value in range".

Decoder loop (arbitrary text length): verified with a loop cutpoint (vlib/llvc/enc.py cut_header).
Spec functions over the text, defined by recursion on the offset i, base B and start s from the prefix:
    ACC(s) = 0                     OKP(s) = true
    ACC(i+1) = step(i, ACC(i))     OKP(i+1) = OKP(i) and stepok(i, ACC(i))
with exact (W+8)-bit arithmetic.  They are uninterpreted for the solver; the instances of the two
defining equations at the havoc offset are assumed (cut_axioms).  Invariant: s <= offset < n,
OKP(offset), ACC(offset) == accumulator.  Postconditions:
    returns true   =>  n > s and OKP(n) and result == ACC(n)
    returns false  =>  n == s  or  (for the offset o of that iteration) not OKP(o+1)
and OKP is antitone by definition, so "not OKP(o+1)" for some o < n is "not OKP(n)" (one-line induction,
paper).  VALID_T(t) is  n > s and OKP(n);  NUM(t) is ACC(n)."""
import os
import z3

from vlib.llvc import enc

bv = enc.bv
INCLUDES = ["runtime/cpp/emboss_text_util.h"]
TYPES = [("i8", "int8_t", 8, True), ("u8", "uint8_t", 8, False), ("i16", "int16_t", 16, True), ("u16", "uint16_t", 16, False),
         ("i32", "int32_t", 32, True), ("u32", "uint32_t", 32, False), ("i64", "int64_t", 64, True), ("u64", "uint64_t", 64, False)]
GROUP = {10: 3, 16: 4, 2: 8}
PREFIX = {10: "", 16: "0x", 2: "0b"}

PREAMBLE = r'''
// A view of (p, n) as a libstdc++ std::string object {char* data; size_t size; union {char local[16]; size_t cap;}}
// without allocation (the functions under contract only call size() and operator[]).
struct FakeString { const unsigned char* data; size_t size; size_t cap; size_t pad; };
static_assert(sizeof(FakeString) == sizeof(std::string), "libstdc++ std::string layout");
// Minimal output stream: reports the C string it is given as observable string #0 (harness.vcstr).
struct QStream { uint64_t calls; void Write(const char* s) { vcstr(0, s); ++calls; } };
'''


def dec_wrapper(ctype):
    return ("  FakeString f{p, n, n, 0}; const std::string& s = *reinterpret_cast<const std::string*>(&f);\n"
            "  %s r = 0; bool ok = ::emboss::support::DecodeInteger(s, &r);\n"
            "  O(0, ok); if (ok) O(1, (%s)r);\n  return ok;" % (ctype, "int64_t" if ctype.startswith("int") else "uint64_t"))


def enc_wrapper(ctype, base, grouping, case="general"):
    """The two wrappers of a signed type split the input space for the optimiser as the two contracts split it for the
    solver: `min` passes the most negative value (a constant), `general` returns early on it (excluded by its precondition)."""
    signed = ctype.startswith("int")
    if signed and case == "min":
        arg = "std::numeric_limits<%s>::lowest()" % ctype
        pre = "  if ((%s)a0 != %s) return 0;\n" % (ctype, arg)
    else:
        arg = "(%s)a0" % ctype
        pre = "  if ((%s)a0 == std::numeric_limits<%s>::lowest()) return 0;\n" % (ctype, ctype) if signed else ""
    return (pre + "  QStream s{0};\n  ::emboss::support::WriteIntegerToTextStream(%s, &s, %d, %s);\n"
            "  O(1, s.calls);\n  return 0;" % (arg, base, "true" if grouping else "false"))


# ---------------------------------------------------------------------------
# decoder


def _ch(c):
    return bv(ord(c), 8)


def _digit(c):
    """(is hex digit character, its value as BV8)"""
    d09 = z3.And(z3.UGE(c, _ch("0")), z3.ULE(c, _ch("9")))
    dAF = z3.And(z3.UGE(c, _ch("A")), z3.ULE(c, _ch("F")))
    daf = z3.And(z3.UGE(c, _ch("a")), z3.ULE(c, _ch("f")))
    val = z3.If(d09, c - _ch("0"), z3.If(dAF, c - _ch("A") + 10, c - _ch("a") + 10))
    return z3.Or(d09, dAF, daf), val


class DecSpec:
    def __init__(self, k, W, signed):
        self.k, self.W, self.signed = k, W, signed
        WW = W + 8
        self.WW = WW
        t = lambda i: z3.Select(k.P0, i if not isinstance(i, int) else bv(i, 64))
        self.t = t
        n = k.n
        self.neg = z3.And(n != 0, t(0) == _ch("-")) if signed else z3.BoolVal(False)
        o1 = z3.If(self.neg, bv(1, 64), bv(0, 64))
        has2 = z3.And(z3.UGE(n, o1 + 2), t(o1) == _ch("0"))
        c1 = t(o1 + 1)
        self.hex = z3.And(has2, z3.Or(c1 == _ch("x"), c1 == _ch("X")))
        self.bin = z3.And(has2, z3.Or(c1 == _ch("b"), c1 == _ch("B")))
        self.base = z3.If(self.hex, bv(16, WW), z3.If(self.bin, bv(2, WW), bv(10, WW)))
        self.s = z3.If(z3.Or(self.hex, self.bin), o1 + 2, o1)
        self.ACC = z3.Function("ACC", z3.BitVecSort(64), z3.BitVecSort(WW))
        self.OKP = z3.Function("OKP", z3.BitVecSort(64), z3.BoolSort())
        self.lo = bv(-(1 << (W - 1)) if signed else 0, WW)
        self.hi = bv((1 << (W - 1)) - 1 if signed else (1 << W) - 1, WW)

    def step(self, i, acc):
        """(stepok, acc') for the character at offset i from the exact partial value acc (BV WW)."""
        c = self.t(i)
        isd, dv = _digit(c)
        d = z3.ZeroExt(self.WW - 8, dv)
        nxt = z3.If(self.neg, acc * self.base - d, acc * self.base + d)
        under = c == _ch("_")
        ok = z3.If(under, i != 0, z3.And(isd, z3.ULT(d, self.base), nxt >= self.lo, nxt <= self.hi))
        return ok, z3.If(under, acc, nxt)

    def axioms_at(self, o):
        ok, nxt = self.step(o, self.ACC(o))
        return z3.And(self.OKP(o + 1) == z3.And(self.OKP(o), ok), self.ACC(o + 1) == nxt,
                      self.OKP(self.s), self.ACC(self.s) == bv(0, self.WW))

    def roles(self, vals, entry):
        """(offset, accumulator, consistency) among the header phis: the accumulator is the W-bit value that
        starts at constant 0; every other loop-carried value is a copy of `offset` (LLVM keeps a 32-bit and a
        widened 64-bit copy for narrow IntType), and the copies agree."""
        acc = [i for i, e in enumerate(entry) if not z3.is_bool(e) and e.size() == self.W and z3.is_bv_value(z3.simplify(e)) and z3.simplify(e).as_long() == 0]
        off = [i for i, e in enumerate(entry) if i not in acc[:1] and not z3.is_bool(e) and e.size() in (32, 64)]
        if len(acc) != 1 or not off or len(off) + 1 != len(entry):
            raise enc.EncError("anchor mismatch: DecodeInteger loop header does not carry exactly (offset copies, accumulator): %s" % (entry,))
        os_ = [vals[i] if vals[i].size() == 64 else z3.ZeroExt(32, vals[i]) for i in off]
        same = z3.And([os_[0] == x for x in os_[1:]]) if len(os_) > 1 else z3.BoolVal(True)
        return os_[0], vals[acc[0]], same

    def ext(self, a):
        return z3.SignExt(8, a) if self.signed else z3.ZeroExt(8, a)

    def inv(self, hdr, vals, entry):
        o, a, same = self.roles(vals, entry)
        sign = z3.If(self.neg, self.ACC(o) <= 0, self.ACC(o) >= 0)      # partial values of a negative numeral are <= 0
        return z3.And(same, z3.ULE(self.s, o), z3.ULT(o, self.k.n), self.OKP(o), self.ACC(o) == self.ext(a), sign)


def contract_dec(k, W, signed):
    k.region("p", writable=False, nonnull=False)
    # `unsigned offset` in DecodeInteger wraps at 2^32: texts of 4 GiB and more are outside the contract
    k.requires(z3.ULT(k.n, bv(1 << 31, 64)))
    k.requires(z3.Or(k.p != 0, k.n == 0))
    sp = DecSpec(k, W, signed)
    st = {}

    def inv(hdr, vals, entry):
        return sp.inv(hdr, vals, entry)

    def axioms(hdr, havoc, entry):
        o, a, _ = sp.roles(havoc, entry)
        st["o"], st["a"] = o, a
        return sp.axioms_at(o)
    k.cut_inv, k.cut_axioms = inv, axioms
    k.requires(z3.And(sp.OKP(sp.s), sp.ACC(sp.s) == bv(0, sp.WW)))       # base case of the definition
    res = k.outv(1)
    resw = z3.Extract(sp.WW - 1, 0, z3.SignExt(8, res) if signed else z3.ZeroExt(8, res)) if sp.WW <= 64 else (z3.SignExt(8, res) if signed else z3.ZeroExt(8, res))

    def o_():
        if "o" not in st:
            raise enc.EncError("anchor mismatch: no loop was cut in the DecodeInteger wrapper")
        return st["o"]
    k.ensures("accept=>valid-and-value", lambda: z3.And(k.outc(0), z3.Implies(k.outv(0) != 0, z3.And(z3.UGT(k.n, sp.s), sp.OKP(k.n), k.outc(1), resw == sp.ACC(k.n)))))
    k.ensures("reject=>invalid", lambda: z3.Implies(k.outv(0) == 0, z3.Or(k.n == sp.s, z3.And(z3.ULE(sp.s, o_()), z3.ULT(o_(), k.n), z3.Not(sp.OKP(o_() + 1))))))
    k.ensures("result-is-bool", lambda: z3.And(k.ret == k.outv(0), z3.ULE(k.outv(0), bv(1, 64))))
    if W < 64:
        k.ensures("result-in-range(T)", lambda: z3.Implies(k.outv(0) != 0, (z3.And(res >= bv(-(1 << (W - 1)), 64), res <= bv((1 << (W - 1)) - 1, 64)) if signed else z3.ULE(res, bv((1 << W) - 1, 64)))))
    a = k.forall_off()
    k.ensures("text-unchanged", z3.Implies(z3.ULT(a, k.n), z3.Select(k.P1, a) == z3.Select(k.P0, a)))

    def splits():
        o = o_()
        c = sp.t(o)
        isd, dv = _digit(c)
        out = [("non-digit", z3.Not(isd))]
        for (bn, bc) in (("10", z3.And(z3.Not(sp.hex), z3.Not(sp.bin))), ("16", sp.hex), ("2", sp.bin)):
            for sg in ((False, True) if signed else (False,)):
                for d in range(16):
                    out.append(("base%s,%s,digit%d" % (bn, "neg" if sg else "pos", d), z3.And(isd, dv == d, bc, sp.neg == sg)))
        return out
    k.splits = splits


# ---------------------------------------------------------------------------
# encoder


def max_digits(W, signed, base):
    top = (1 << (W - 1)) if signed else (1 << W) - 1
    d = 0
    while top:
        top //= base
        d += 1
    return d


def layout(D, base, grouping, neg):
    """The canonical numeral with D digits as a list of items: a literal character or ('d', k) = digit k."""
    items = list("-" if neg else "") + list(PREFIX[base])
    G = GROUP[base]
    for kk in reversed(range(D)):
        items.append(("d", kk))
        if grouping and kk % G == 0 and kk != 0:
            items.append("_")
    return items


def division_chain(e, base, W):
    """The quotient/remainder witnesses the encoder introduced for repeated division by `base`
    (enc.const_div): [(a_0, q_1, r_0), (q_1, q_2, r_1), ...] with a_k = base * q_{k+1} + r_k, 0 <= r_k < base
    as (no-wrap) bit-vector facts in the precondition.  Untrusted witness search: what is done with the
    chain is checked by the solver."""
    ents = [(key, val) for key, val in e._divs.items() if key[2] == base and val[0].size() >= W and not z3.is_bv_value(val[0])]
    by_a = {val[0].get_id(): val for key, val in ents}
    qids = {val[1].get_id() for key, val in ents}
    starts = [val for key, val in ents if val[0].get_id() not in qids]
    chains = []
    for st in starts:
        chain = [st]
        while chain[-1][1].get_id() in by_a:
            chain.append(by_a[chain[-1][1].get_id()])
        chains.append(chain)
    return chains


def contract_enc(k, W, signed, base, grouping, case="general"):
    k.trip_loop = 0                   # path splitting on the number of iterations of the digit loop
    WW = W + 8
    v = z3.Extract(W - 1, 0, k.a0)
    if signed:
        # the most negative value takes its own path through the code; it is one concrete input
        k.requires(v == bv(1 << (W - 1), W) if case == "min" else v != bv(1 << (W - 1), W))
    isneg = (v < 0) if signed else z3.BoolVal(False)
    # |v| as an unsigned W-bit number (two's complement negation is exact for every negative v, 2^(W-1) for the most negative one)
    mag = z3.ZeroExt(8, z3.If(isneg, -v, v))
    maxD = max_digits(W, signed, base)
    # number of digits of |v|: the D with base^(D-1) <= |v| < base^D (1 for 0)
    nd = bv(1, 64)
    for D in range(2, maxD + 1):
        nd = z3.If(z3.UGE(mag, bv(base ** (D - 1), WW)), bv(D, 64), nd)
    k.ensures("one-write", lambda: z3.And(k.outc(1), k.outv(1) == 1, z3.BoolVal(len(k.encoder.cstrs.get(0, [])) == 1)))

    def text():
        sites = k.encoder.cstrs.get(0, [])
        if len(sites) != 1:
            raise enc.EncError("anchor mismatch: expected exactly one Stream::Write call site, found %d" % len(sites))
        r, ptr, arr = sites[0]
        return ptr, arr, (lambda i: z3.Select(arr, ptr.off + bv(i, 64)))

    def shape(neg, D):
        ptr, arr, T = text()
        items = layout(D, base, grouping, neg)
        chains = [c for c in (division_chain(k.encoder, base, W) if case == "general" else []) if len(c) == D]
        cl = []
        total = bv(0, WW)
        digit = {}
        for pos, it in enumerate(items):
            c = T(pos)
            if isinstance(it, str):
                cl.append(c == _ch(it))
                continue
            d09 = z3.And(z3.UGE(c, _ch("0")), z3.ULE(c, _ch("9")))
            daf = z3.And(z3.UGE(c, _ch("a")), z3.ULE(c, _ch("f")))
            dv = z3.If(d09, c - _ch("0"), c - _ch("a") + 10)
            cl.append(z3.And(z3.Or(d09, daf), z3.ULT(dv, bv(base, 8))))      # a lower-case digit of the base
            digit[it[1]] = dv
            total = total + z3.ZeroExt(WW - 8, dv) * bv(base ** it[1], WW)
        cl.append(T(len(items)) == 0)                                        # NUL-terminated right after the numeral
        cl.append(z3.ULT(ptr.off + bv(len(items), 64), ptr.region.size))     # and inside the (stack) buffer it points into
        # hints (each proved before it is used): the code obtains a digit character by indexing the constant table
        # "0123456789abcdef"; LOOKUP(x) is that table read as the encoder models it.
        parts = []
        e = k.encoder
        tabs = [rg for rg in e.global_addr.values() if getattr(rg, "init", None) is not None and bytes(rg.init[:16]) == b"0123456789abcdef"]
        hints_ok = len(tabs) == 1
        if hints_ok:
            def LOOKUP(x64):
                return e.load({}, enc.Ptr(tabs[0], x64), 1)[1]
            x = z3.BitVec("x!digit", 64)
            dc = lambda t: z3.If(z3.ULT(t, bv(10, 64)), z3.Extract(7, 0, t) + _ch("0"), z3.Extract(7, 0, t) + (ord("a") - 10))
            lemma = z3.Implies(z3.ULT(x, bv(16, 64)), LOOKUP(x) == dc(x))
            insts = []
            for chain in chains:
                for i in range(D):
                    r = chain[i][2]
                    r64 = z3.ZeroExt(64 - r.size(), r) if r.size() < 64 else r
                    insts.append(z3.Implies(z3.ULT(r64, bv(16, 64)), LOOKUP(r64) == dc(r64)))
            seen = set()
            for (rg, off) in e.table_loads:        # every index the code reads the table at
                if rg is tabs[0] and off.get_id() not in seen and off.size() == 64:
                    seen.add(off.get_id())
                    insts.append(z3.Implies(z3.ULT(off, bv(16, 64)), LOOKUP(off) == dc(off)))
            parts.append(("table-lookup-is-digit-char", lemma, "lemma", insts))
            for ci, chain in enumerate(chains):
                # the code widens a narrow remainder to index the table, by sign or by zero extension: try both spellings
                for ext in ((z3.ZeroExt, z3.SignExt) if chain[0][2].size() < 64 else (z3.ZeroExt,)):
                    eqs = []
                    for pos, it in enumerate(items):
                        if not isinstance(it, str):
                            r = chain[it[1]][2]
                            r64 = ext(64 - r.size(), r) if r.size() < 64 else r
                            eqs.append(z3.And(T(pos) == LOOKUP(r64), z3.ULT(r64, bv(base, 64))))
                    parts.append(("digits-are-table[remainders of chain %d, %s]" % (ci, ext.__name__), z3.And(eqs), "try-hint"))
        parts.append(("shape", z3.And(cl)))
        # NUM(text) == |v|.  Witness form: digit k is the k-th remainder of a division chain a_0 = |v|, a_k = base*a_{k+1} + r_k,
        # a_D = 0 (the chain's defining no-wrap facts are in the precondition); lemma.division-chain-sum gives sum r_k base^k = a_0.
        # The direct positional sum is always an alternative (it is what decides short numerals and the bases LLVM turns into shifts).
        if base in (2, 16):
            # for a power-of-two base the positional sum is a concatenation: digit k is bits [b*k, b*k+b) of |v|, nothing above digit D-1
            b_ = 1 if base == 2 else 4
            direct = ([z3.And(z3.Extract(b_ - 1, 0, digit[i]) == z3.Extract(b_ * i + b_ - 1, b_ * i, mag), z3.ULT(digit[i], bv(base, 8))) for i in range(D)] +
                      ([z3.Extract(WW - 1, b_ * D, mag) == 0] if b_ * D < WW else []))
        else:
            direct = total == mag
        alts = [total == mag]
        for chain in chains:
            Wc = chain[0][0].size()
            alt = [(z3.ZeroExt(Wc - 8, digit[i]) if Wc > 8 else digit[i]) == chain[i][2] for i in range(D)]
            alt.append(chain[0][0] == (z3.Extract(Wc - 1, 0, mag) if Wc < WW else z3.ZeroExt(Wc - WW, mag)))
            alt.append(chain[-1][1] == bv(0, Wc))
            alts.insert(0, z3.And(alt))
        if base in (2, 16) and not chains:
            parts.append(("value", direct, "each"))
        else:
            parts.append(("value", z3.Or(alts) if (len(alts) == 1 or D <= 4) else z3.Or(alts[:-1])))
        return parts
    # per trip-count case the feasible (sign, number of digits of |v|) pairs are enumerated and the shape of each is proved:
    # sign, prefix, exactly that many digits (so no leading zero), separators, terminator, value
    k.ensures_by_cases("canonical-numeral-of-v", [z3.If(isneg, bv(1, 64), bv(0, 64)), nd], lambda vals: shape(bool(vals[0]), vals[1]))


# ---------------------------------------------------------------------------
# lemmas in linear integer arithmetic (spec level, no code)


def lemmas():
    """[(name, z3 formula to be proved valid)]"""
    out = []
    # Horner evaluation of the canonical digit sequence (the decoder's ACC over that text, '_' skipped)
    # equals the positional sum (the encoder's NUM): for every base, digit count and sign.
    for base in (2, 10, 16):
        for D in range(1, max_digits(64, False, base) + 1):
            ds = [z3.Int("d%d" % i) for i in range(D)]
            for sign in (1, -1):
                acc = z3.IntVal(0)
                for kk in reversed(range(D)):
                    acc = acc * base + sign * ds[kk]
                pos = sign * sum(ds[i] * base ** i for i in range(D))
                out.append(("lemma.horner-equals-positional[base %d, %d digits, %s]" % (base, D, "neg" if sign < 0 else "pos"), acc == pos))
    # a chain of exact divisions a_k = base * a_{k+1} + r_k that ends in 0 gives a_0 = sum r_k base^k
    for base in (2, 10, 16):
        for D in range(1, max_digits(64, False, base) + 1):
            aa = [z3.Int("a%d" % i) for i in range(D + 1)]
            rr = [z3.Int("r%d" % i) for i in range(D)]
            hyp = z3.And([aa[i] == base * aa[i + 1] + rr[i] for i in range(D)] + [aa[D] == 0])
            out.append(("lemma.division-chain-sum[base %d, %d digits]" % (base, D), z3.Implies(hyp, aa[0] == sum(rr[i] * base ** i for i in range(D)))))
    # magnitude monotonicity of a Horner step: once a partial value leaves [lo, hi] every later one does,
    # so "all partial values in range" is "the value in range" (together with lo <= 0 <= hi).
    a, d, lo, hi = z3.Ints("a d lo hi")
    for base in (2, 10, 16):
        hyp = z3.And(d >= 0, d < base, lo <= 0, hi >= 0)
        out.append(("lemma.horner-magnitude-monotone[base %d, pos]" % base, z3.Implies(z3.And(hyp, a >= 0, a > hi), a * base + d > hi)))
        out.append(("lemma.horner-magnitude-monotone[base %d, neg]" % base, z3.Implies(z3.And(hyp, a <= 0, a < lo), a * base - d < lo)))
        out.append(("lemma.horner-sign-preserved[base %d]" % base, z3.Implies(hyp, z3.And(z3.Implies(a >= 0, a * base + d >= a), z3.Implies(a <= 0, a * base - d <= a)))))
    return out


# ---------------------------------------------------------------------------
# jobs


def jobs(tier):
    """One wrapper per TU (the pool runs TUs in parallel), the expensive ones first."""
    js = []
    for (tag, ctype, W, signed) in TYPES:
        js.append((W * 4, {"tag": "codec_dec_" + tag, "includes": INCLUDES, "preamble": PREAMBLE, "prefix": "", "div_fresh": False,
                           "wrappers": [("decode_%s" % tag, dec_wrapper(ctype), "contracts.text_codec:contract_dec", {"W": W, "signed": signed})]}))
        for base in (2, 10, 16):
            for g in (False, True):
                nm = "encode_%s_base%d_%s" % (tag, base, "grouped" if g else "plain")
                cost = max_digits(W, signed, base) ** 2 * (4 if base == 10 else 1)
                js.append((cost, {"tag": "codec_" + nm, "includes": INCLUDES, "preamble": PREAMBLE, "prefix": "", "div_fresh": True, "unroll": 80,
                                  "wrappers": [(nm, enc_wrapper(ctype, base, g), "contracts.text_codec:contract_enc", {"W": W, "signed": signed, "base": base, "grouping": g})]}))
                if signed:
                    js.append((cost // 8, {"tag": "codec_" + nm + "_min", "includes": INCLUDES, "preamble": PREAMBLE, "prefix": "", "div_fresh": True, "unroll": 80,
                                           "wrappers": [(nm + "_min", enc_wrapper(ctype, base, g, "min"), "contracts.text_codec:contract_enc",
                                                         {"W": W, "signed": signed, "base": base, "grouping": g, "case": "min"})]}))
    return [j for (_, j) in sorted(js, key=lambda x: -x[0])]
