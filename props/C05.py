"""C05 - inferred integer bounds and alignments are sound, and tight where documented.

E1 (pyvc): every transfer function of compiler/front_end/expression_bounds.py and the constant
folder of compiler/util/ir_util.py is executed symbolically from its real source against the
gamma-soundness / INV contracts in contracts/bounds.py; see DESIGN.md section 3, C05."""
import time

from vlib import core, pool
from contracts import bounds, bounds_replay

FUNCS = ["_add", "_sub", "_mul", "_sign", "_is_infinite", "_max", "_min", "_greatest_common_divisor",
         "_shared_modular_value", "_compute_constraints_of_additive_operator",
         "_compute_constraints_of_multiplicative_operator", "_compute_constraints_of_choice_operator",
         "_compute_constraints_of_maximum_function", "_compute_constraints_of_bound_function",
         "_compute_constant_value_of_constant", "_set_integer_constraints_from_physical_type",
         "_assert_integer_constraints"]


def main(args):
    run = core.Run("C05", args.tier, "proof", "./check C05 --tier " + args.tier)
    if args.replay:
        import json
        d = json.load(open(args.replay))
        if d["obligation"].startswith("comparison["):
            from contracts import bounds2
            print(json.dumps(bounds2.replay_comparison(d["obligation"], d.get("model")), indent=1, default=str))
        else:
            print(json.dumps(bounds_replay.replay(d["obligation"], d.get("model")), indent=1, default=str))
        return 0
    for f in FUNCS:
        run.function("compiler.front_end.expression_bounds." + f, "pyvc: body executed symbolically against sidecar contract")
    run.function("compiler.util.ir_util._constant_value_of_function", "pyvc: body vs three-valued folding contract")
    run.function("compiler.front_end.constraints._integer_bounds_errors (+_bounds_can_fit_*)", "pyvc: 64-bit gate contract")
    names = list(bounds.TARGETS)
    if args.tier == "thorough":
        names += list(bounds.THOROUGH_TARGETS)
        for n in bounds.THOROUGH_TARGETS:
            bounds.TARGETS[n] = bounds.THOROUGH_TARGETS[n]
    pool.run_targets(run, "contracts.bounds", names)
    from contracts import gate, bounds2
    pool.run_targets(run, "contracts.gate", [t for t in gate.TARGETS if t != "_cpp_integer_type_for_enum"])
    n_first = len(run.obligations)
    pool.run_targets(run, "contracts.bounds2", list(bounds2.TARGETS))
    for f in bounds2.FUNCTIONS:
        run.function("compiler.front_end.expression_bounds." + f, "pyvc: body executed symbolically against sidecar contract (contracts/bounds2.py)")
    # replay every refuted obligation on the real code of the same tree
    for i, ob in enumerate(run.obligations):
        if ob.verdict == core.REFUTED:
            if i >= n_first:
                if ob.name.startswith("comparison["):
                    ob.replay = bounds2.replay_comparison(ob.name, ob.model)
            else:
                ob.replay = bounds_replay.replay(ob.name, ob.model)
    # engine self-validation: random concrete runs of the real functions against the concrete contract
    n = 3000 if args.tier == "quick" else 30000
    runs, fails, samples = bounds_replay.cross_check(run.seed, n)
    by_family = {}
    for f in fails:
        by_family.setdefault(f["family"], f)
    for fam in ("additive", "multiplicative", "choice", "maximum", "bound"):
        bad = by_family.get(fam)
        run.add(core.Obligation("bounded.cross-check[%s].concrete-runs-of-the-real-transfer-function-meet-the-contract" % fam, core.BPASS if bad is None else core.BFAIL, "cpython", 0.0, kind="bounded",
                                model=bad, detail="%d seeded runs over all families, incl. operands with near-equal large bounds" % runs, replay=None if bad is None else {"reproduced": True, "inputs": bad}))
    run.bounded.append({"what": "seeded concrete runs of the real transfer functions on INV-satisfying operands against the concrete contract (engine self-validation and bounded stand-in where a target is unsupported)",
                        "evaluations": runs, "distinct_nontrivial": runs, "seconds": 0.0})
    run.extra["cpython_cross_check"] = {"runs": runs, "failures": len(fails), "failure_samples": fails[:3],
                                        "samples": samples}
    sym_refuted = [o for o in run.obligations if o.verdict == core.REFUTED]
    if fails and not sym_refuted and not run.errors:
        run.error("engine disagreement: %d concrete post-condition failures but every symbolic obligation proved: %r"
                  % (len(fails), fails[0]))
    run.add(bounds.tightness_choice_finding())
    run.assume(*core.STANDING_ASSUMPTIONS["E1"])
    run.assume("ir_data_utils.reader/builder are transparent views of the wrapped node (modelled as identity)",
               "operands of $upper_bound/$lower_bound have a finite selected bound (unbounded run-time expressions are rejected by constraints._integer_bounds_errors)",
               "physical leaf sizes are 1..64 (prelude [static_requirements]); size 0 is rejected later but crashes _assert_integer_constraints first (observation, DESIGN section 4)",
               "global soundness follows from the local contracts by structural induction over expressions (paper argument, DESIGN 3/C05)")
    run.trust("z3 5.1.0 (python API)", "cvc5 1.0.3 / z3-new CLI for z3's unknowns", "sympy (witness finder, untrusted: z3 re-checks every witness)",
              "pyvc symbolic executor (/verif/vlib/pyvc.py)", "CPython ast module")
    return run.finish()
