"""C06 - text format output reads back to the same structure: the parts within reach of contracts.

E1 slice contract (contracts/text_output.py) on the real loop of
header_generator._generate_structure_definition: a field is emitted iff it has no [text_output]
attribute or the value "Emit" (Skip => absent), decoded iff named and writable, and the emission loop
iterates fields_in_dependency_order (with C15: fields are emitted after the fields they depend on).
Everything else in the property (the struct-level round trip through std::string stream templates, the
integer codec) is NOT under contract and not claimed."""
from vlib import core, pool
from contracts import text_output


def main(args):
    run = core.Run("C06", args.tier, "proof", "./check C06 --tier " + args.tier)
    if args.replay:
        import json
        print(json.dumps(text_output.replay("", None), indent=1))
        return 0
    pool.run_targets(run, "contracts.text_output", list(text_output.TARGETS))
    for ob in run.obligations:
        if ob.verdict == core.REFUTED and "emitted-iff" in ob.name:
            ob.replay = text_output.replay(ob.name, ob.model)
    run.function("compiler.back_end.cpp.header_generator._generate_structure_definition (the loop over fields_in_dependency_order)",
                 "pyvc: statement-level (slice) contract, loop body executed from a symbolic pre-state for every attribute/read-only/virtual/anonymous combination")
    run.extra["not_covered"] = ["UpdateFromText(WriteToString(view)) round trip (std::string stream templates, per-structure generated text methods)",
                                "integer text codec (WriteIntegerToTextStream / DecodeInteger)", "text output options (multi-line, comments, bases, grouping)"]
    run.assume(*core.STANDING_ASSUMPTIONS["E1"])
    run.assume("callees of the slice (_generate_structure_field_methods, code_template.format_template, ir_util attribute helpers) are contracts: their results are opaque tokens")
    run.trust("z3 5.1.0", "pyvc", "CPython ast")
    return run.finish()
