"""C06 - text format output reads back to the same structure: the parts within reach of contracts.

E1 slice contract (contracts/text_output.py) on the real loop of
header_generator._generate_structure_definition: a field is emitted iff it has no [text_output]
attribute or the value "Emit" (Skip => absent), decoded iff named and writable, and the emission loop
iterates fields_in_dependency_order (with C15: fields are emitted after the fields they depend on).
E2a contracts (contracts/text_codec.py) on the real integer codec of runtime/cpp/emboss_text_util.h:
DecodeInteger<T> accepts exactly the valid numerals whose value lies in range(T) and returns that value
(for texts of any length: loop cutpoint + invariant), WriteIntegerToTextStream<Stream,T> writes the
canonical numeral of its argument for every value, base 2/10/16 and grouping, hence decode(encode(v)) == v
and malformed or out-of-range numbers are rejected rather than wrapped.
The struct-level round trip through std::string stream templates is NOT under contract and not claimed."""
from vlib import core, pool
from contracts import text_output


def lemma_obligations():
    """Spec-level lemmas in linear integer arithmetic (no code): z3, cross-checked by cvc5 in the thorough tier."""
    import time
    import z3
    from contracts import text_codec
    out = []
    for (name, formula) in text_codec.lemmas():
        s = z3.Solver()
        s.set("timeout", 60000)
        s.add(z3.Not(formula))
        t0 = time.time()
        r = s.check()
        out.append(core.Obligation(name, core.PROVED if r == z3.unsat else (core.REFUTED if r == z3.sat else core.UNKNOWN), "z3-5.1(py)", time.time() - t0,
                                   model=None if r != z3.sat else {"model": str(s.model())}, detail="linear integer arithmetic lemma"))
    return out


def bounded_roundtrip(run, tier, replay_line=None):
    """Bounded stand-in (labelled bounded, never counted as proved) for the structure-level sentence of C06: the header of
    corpus/textrt/text_rt.emb is generated in this run, a native driver (ASan+UBSan) writes every enumerated Ok buffer as text
    under every re-readable option set, reads it back into a zeroed buffer and compares with Equals."""
    import os
    import shutil
    import subprocess
    import tempfile
    import time
    t0 = time.time()
    tdir = os.path.join(core.VERIF, "corpus", "textrt")
    os.makedirs(core.BUILD, exist_ok=True)
    d = tempfile.mkdtemp(prefix="c06rt_", dir=core.BUILD)
    try:
        r = subprocess.run([os.sys.executable, os.path.join(core.REPO, "embossc"), "--output-path", d, "--output-file", "text_rt.emb.h", "--import-dir", core.REPO,
                            os.path.join(tdir, "text_rt.emb")], capture_output=True, text=True, env=dict(os.environ, PYTHONPATH=core.REPO), cwd=tdir)
        if r.returncode != 0:
            raise core.CheckerError("embossc rejected corpus/textrt/text_rt.emb:\n" + (r.stdout + r.stderr)[-1200:])
        exe = os.path.join(d, "rt")
        r = subprocess.run(["clang++", "-std=c++14", "-O1", "-g", "-fsanitize=address,undefined", "-fno-sanitize-recover=all", "-w", "-I" + core.REPO, "-I" + d,
                            os.path.join(tdir, "roundtrip.cc"), "-o", exe], capture_output=True, text=True)
        if r.returncode != 0:
            run.add(core.Obligation("bounded.text-roundtrip.driver-compiles", core.BFAIL, "clang++", 0.0, kind="bounded", model={"errors": r.stderr[-1500:]},
                                    detail="the round-trip driver does not compile against the generated header", replay={"reproduced": True, "inputs": "corpus/textrt/roundtrip.cc"}))
            return
        n = 200 if tier == "quick" else 5000
        rr = subprocess.run([exe, str(run.seed), str(n)], capture_output=True, text=True, timeout=3000,
                            env=dict(os.environ, ASAN_OPTIONS="detect_leaks=0", UBSAN_OPTIONS="print_stacktrace=0"))
        out = rr.stdout
        import re
        m = re.search(r"TRIPS (\d+) FAILURES (\d+) MULTILINE-ARRAY-FAILURES (\d+) NOT-OK-BUFFERS (\d+)", out)
        if not m:
            run.add(core.Obligation("bounded.text-roundtrip.no-sanitizer-report", core.BFAIL, "native ASan/UBSan", time.time() - t0, kind="bounded",
                                    model={"exit": rr.returncode, "stderr": rr.stderr[-1500:], "stdout": out[-500:]}, detail="the driver died (sanitizer report or abort)",
                                    replay={"reproduced": True, "inputs": "seed %d, %d buffers" % (run.seed, n)}))
            return
        trips, fails, known, skipped = (int(x) for x in m.groups())
        first = [l for l in out.splitlines() if l.startswith("FAIL ")]
        firstk = [l for l in out.splitlines() if l.startswith("FAIL-MULTILINE-ARRAY")]
        run.add(core.Obligation("bounded.text-roundtrip[Scalars,Shapes,Nesting,Floats x base 2/10/16 x grouping x single-line|multi-line|multi-line+comments]",
                                core.BPASS if fails == 0 else core.BFAIL, "native ASan/UBSan", time.time() - t0, kind="bounded",
                                model={"first_failure": first[0][:1500]} if first else None, detail="%d round trips, %d failures" % (trips, fails),
                                replay=None if not first else {"reproduced": True, "inputs": first[0][:600]}))
        run.add(core.Obligation("bounded.text-roundtrip.multi-line-output-of-arrays-with-two-or-more-elements", core.BPASS if known == 0 else core.BFAIL, "native ASan/UBSan", 0.0,
                                kind="bounded", model={"first_failure": firstk[0][:600]} if firstk else None, detail="%d failing round trips" % known,
                                replay=None if not firstk else {"reproduced": True, "inputs": firstk[0][:600]}))
        run.bounded.append({"what": "UpdateFromText(WriteToString(view, options)) == view on enumerated Ok buffers (edge values 0, 2^k-1, 2^k, 2^63, 2^64-1, named and unnamed enum values, "
                                    "valid Bcd, + seeded random) of 4 structures (Floats compared byte-wise: signed zeros, infinities, NaN payloads, denormals) x 18 re-readable option sets", "evaluations": trips, "distinct_nontrivial": trips,
                            "seconds": round(time.time() - t0, 1), "bound": "%d buffers per structure, seed %d" % (16 + n, run.seed)})
    finally:
        shutil.rmtree(d, ignore_errors=True)


def main(args):
    run = core.Run("C06", args.tier, "proof", "./check C06 --tier " + args.tier)
    from contracts import text_codec
    from vlib.llvc import harness, viewcheck
    jobs = text_codec.jobs(args.tier)
    idx = viewcheck.wrapper_index(jobs)
    if args.replay:
        import json
        d = json.load(open(args.replay))
        if d["obligation"].split(".")[0].split("[")[0] in idx:
            ob = core.Obligation(d["obligation"].replace(d["obligation"].split(".")[0], d["obligation"].split(".")[0].split("[")[0], 1), d["verdict"], model=d.get("model"))
            print(json.dumps(viewcheck.replay_obligation(ob, idx), indent=1, default=str))
        else:
            print(json.dumps(text_output.replay("", None), indent=1))
        return 0
    pool.run_targets(run, "contracts.text_output", list(text_output.TARGETS))
    for ob in run.obligations:
        if ob.verdict == core.REFUTED and "emitted-iff" in ob.name:
            ob.replay = text_output.replay(ob.name, ob.model)
    # E2a: the integer text codec (runtime/cpp/emboss_text_util.h)
    n0 = len(run.obligations)
    harness.run_jobs(run, jobs)
    n = 0
    for ob in run.obligations[n0:]:
        if ob.verdict == core.REFUTED and n < 8 and ob.model:
            base = ob.name.split(".")[0]
            ob2 = core.Obligation(ob.name.replace(base, base.split("[")[0], 1), ob.verdict, model=ob.model)
            ob.replay = viewcheck.replay_obligation(ob2, idx)
            n += 1
    run.extend(lemma_obligations())
    bounded_roundtrip(run, args.tier)
    run.function("compiler.back_end.cpp.header_generator._generate_structure_definition (the loop over fields_in_dependency_order)",
                 "pyvc: statement-level (slice) contract, loop body executed from a symbolic pre-state for every attribute/read-only/virtual/anonymous combination")
    run.function("emboss::support::DecodeInteger<T> for T in {int,uint}{8,16,32,64}_t",
                 "llvc: real template, loop cutpoint with invariant over recursively defined spec functions (arbitrary text length); accepts exactly the valid in-range numerals, result == value, text unchanged, no trap / out-of-bounds read")
    run.function("emboss::support::WriteIntegerToTextStream<Stream,T> for the same T, base in {2,10,16}, digit grouping on/off",
                 "llvc: real template, path splitting on the digit-loop trip count (complete: the loop is bounded by the operand width); output is the canonical numeral of the value; stack buffer never overrun")
    run.extra["not_covered"] = ["a PROOF of the structure-level UpdateFromText(WriteToString(view)) round trip (std::string / std::vector token reader, per-structure generated text methods are outside both engines): a bounded native stand-in is run instead and labelled bounded",
                                "text output options other than base and digit grouping (multi-line, comments, indentation)", "floating-point and enum-name text codecs"]
    run.extra["composition"] = ("decode(encode(v)) == v: encoder post (canonical numeral c with NUM(c) == v) + decoder post (accepts every valid in-range numeral and returns NUM) + "
                                "lemma.horner-equals-positional / lemma.division-chain-sum / lemma.horner-magnitude-monotone (z3, linear integer arithmetic); the substitution steps and the "
                                "integer reading of the no-wrap bit-vector facts are paper steps (contracts/text_codec.py docstring)")
    run.assume(*core.STANDING_ASSUMPTIONS["E1"])
    run.assume(*core.STANDING_ASSUMPTIONS["E2"])
    run.assume("callees of the slice (_generate_structure_field_methods, code_template.format_template, ir_util attribute helpers) are contracts: their results are opaque tokens",
               "DecodeInteger: texts of 2^31 bytes and more are outside the contract (`unsigned offset` wraps); std::string is modelled by its libstdc++ layout {data pointer, size} over the caller's bytes",
               "DecodeInteger: ACC/OKP are uninterpreted for the solver, only instances of their recursive definition are assumed; antitonicity of OKP and the induction over the loop are paper steps",
               "WriteIntegerToTextStream: the Stream is a minimal appending stream written for the harness; division by the constant base is encoded by fresh quotient/remainder variables with their (unique) defining constraints")
    run.trust("z3 5.1.0", "pyvc", "CPython ast", "clang++ 14 -O2", "llvc")
    return run.finish()
