"""C08 - the LR(1) generator builds a parser for exactly the grammar's language (E3, bounded).

Deductive verification of Grammar._compute_seed_firsts/_closure_of_item/_items/parser needs inductive
invariants over memoised item sets plus the LR(1) correctness theorem (multi-month mechanisations
exist); it is outside this family's reach here.  Bounded stand-in on the REAL generator:
  parser() never raises: it reports conflicts or returns tables;
  no conflicts  =>  for every string up to length L: accepted <=> an independent Earley recogniser derives
                    it; the tree is a derivation (each node an instance of a production, leaves = input);
                    on rejection the error index is the first token no sentence can continue with;
  the grammar is ambiguous (two derivation trees for one string within the bound)  =>  conflicts != {}.
Scope: every grammar with nonterminals {S, A}, terminals {a, b}, <= 3 productions, rhs length <= 2
(exhaustive), seeded random grammars with 3 nonterminals / 4 productions / rhs <= 3, strings of length <= 5;
and the Emboss grammar on token-level mutations of corpus files.  Nothing beyond the bound is claimed."""
import importlib
import itertools
import multiprocessing
import random
import time
import traceback

from vlib import core

L = 5


def productive(prods, nts):
    prod = set()
    changed = True
    while changed:
        changed = False
        for (l, r) in prods:
            if l not in prod and all((s not in nts) or s in prod for s in r):
                prod.add(l)
                changed = True
    return prod


def earley_sets(prods, nts, start, w):
    """Earley chart; returns list of state sets; prods restricted to productive symbols."""
    by = {}
    for p in prods:
        by.setdefault(p[0], []).append(p)
    nullable = set()
    changed = True
    while changed:
        changed = False
        for (l, r) in prods:
            if l not in nullable and all(s in nullable for s in r):
                nullable.add(l)
                changed = True
    S = [set() for _ in range(len(w) + 1)]
    for p in by.get(start, []):
        S[0].add((p, 0, 0))
    for i in range(len(w) + 1):
        todo = list(S[i])
        while todo:
            (p, d, o) = todo.pop()
            if d < len(p[1]):
                x = p[1][d]
                if x in nts:
                    for q in by.get(x, []):
                        it = (q, 0, i)
                        if it not in S[i]:
                            S[i].add(it)
                            todo.append(it)
                    if x in nullable:
                        it = (p, d + 1, o)
                        if it not in S[i]:
                            S[i].add(it)
                            todo.append(it)
                elif i < len(w) and w[i] == x:
                    S[i + 1].add((p, d + 1, o))
            else:
                for (q, d2, o2) in list(S[o]):
                    if d2 < len(q[1]) and q[1][d2] == p[0]:
                        it = (q, d2 + 1, o2)
                        if it not in S[i]:
                            S[i].add(it)
                            todo.append(it)
        if i < len(w) and not S[i + 1]:
            break
    return S


def recognise(prods, nts, start, w):
    """(accepted, longest viable prefix length).  Works on the productive sub-grammar."""
    pr = productive(prods, nts)
    if start not in pr:
        return False, 0 if True else 0, False
    sub = [(l, r) for (l, r) in prods if l in pr and all((s not in nts) or s in pr for s in r)]
    S = earley_sets(sub, nts, start, w)
    acc = any(p[0] == start and d == len(p[1]) and o == 0 for (p, d, o) in S[len(w)]) if len(S) > len(w) else False
    viable = 0
    for i in range(len(w) + 1):
        if S[i]:
            viable = i
        else:
            break
    return acc, viable, True


def tree_counts(prods, nts, start, w):
    """Number of derivation trees of w from start, capped at 2 (fixed point; cyclic grammars reach the cap)."""
    n = len(w)
    cnt = {}

    def seq(rhs, i, j):
        # number of ways rhs derives w[i:j], capped
        if not rhs:
            return 1 if i == j else 0
        x, rest = rhs[0], rhs[1:]
        total = 0
        for k in range(i, j + 1):
            a = (1 if (k == i + 1 and w[i] == x) else 0) if x not in nts else cnt.get((x, i, k), 0)
            if a:
                b = seq(rest, k, j)
                total = min(2, total + a * b)
                if total >= 2:
                    return 2
        return total
    changed = True
    rounds = 0
    while changed and rounds < 60:
        changed = False
        rounds += 1
        for i in range(n + 1):
            for j in range(i, n + 1):
                for X in nts:
                    t = 0
                    for (l, r) in prods:
                        if l == X:
                            t = min(2, t + seq(r, i, j))
                    if t != cnt.get((X, i, j), 0):
                        cnt[(X, i, j)] = t
                        changed = True
    return cnt.get((start, 0, n), 0)


def check_tree(node, prodset, lr1):
    """Returns the leaf symbols if node is a derivation, else raises."""
    if isinstance(node, lr1.Reduction):
        p = node.production
        if (p.lhs, tuple(p.rhs)) not in prodset or node.symbol != p.lhs or len(node.children) != len(p.rhs):
            raise ValueError("node is not an instance of a production: %r" % (p,))
        leaves = []
        for c, s in zip(node.children, p.rhs):
            if (c.symbol if hasattr(c, "symbol") else None) != s:
                raise ValueError("child symbol mismatch")
            leaves += check_tree(c, prodset, lr1)
        return leaves
    return [node.symbol]


def reference_firsts(prods, nts):
    """Least fixed point of FIRST (None stands for epsilon), computed independently."""
    first = {x: set() for x in nts}
    changed = True
    while changed:
        changed = False
        for (l, r) in prods:
            add = set()
            all_eps = True
            for s_ in r:
                f = first[s_] if s_ in nts else {s_}
                add |= {t for t in f if t is not None}
                if None not in f:
                    all_eps = False
                    break
            if all_eps:
                add.add(None)
            if not add <= first[l]:
                first[l] |= add
                changed = True
    return first


def closure_mismatch(g, prods, ref, lr1):
    """Compares every entry of g._closure_of_item_cache (and the closure of every item of every state) with an independent
    worklist closure over (lhs, rhs, dot, lookahead) tuples."""
    ntset = set(l for (l, r) in prods) | {lr1.START_PRIME if hasattr(lr1, "START_PRIME") else "S'"}
    by_lhs = {}
    for prod in g.productions:
        by_lhs.setdefault(prod.lhs, []).append(prod)

    def first_of(symbols):
        out = set()
        for s_ in symbols:
            f = ref[s_] if s_ in ref else {s_}
            out |= {t for t in f if t is not None}
            if None not in f:
                return out
        out.add(None)
        return out

    def key(it):
        return (it.production.lhs, tuple(it.production.rhs), it.dot, it.terminal)

    def ref_closure(item):
        seen = {key(item)}
        todo = [(item.production, item.dot, item.terminal)]
        while todo:
            prod, dot, la = todo.pop()
            if dot >= len(prod.rhs):
                continue
            nxt = prod.rhs[dot]
            for p2 in by_lhs.get(nxt, []):
                for b in first_of(tuple(prod.rhs[dot + 1:]) + (la,)):
                    if b is None:
                        continue
                    k2 = (p2.lhs, tuple(p2.rhs), 0, b)
                    if k2 not in seen:
                        seen.add(k2)
                        todo.append((p2, 0, b))
        return seen
    for item, got in list(g._closure_of_item_cache.items()):
        want = ref_closure(item)
        have = {key(i) for i in got}
        if have != want:
            return {"item": str(item), "missing": sorted(map(str, want - have))[:6], "extra": sorted(map(str, have - want))[:6]}
    return None


def check_grammar(args):
    prods, start, terms, nts = args
    try:
        lr1 = importlib.import_module("compiler.front_end.lr1")
        pt = importlib.import_module("compiler.util.parser_types")
        try:
            g = lr1.Grammar(start, [pt.Production(l, tuple(r)) for (l, r) in prods])
            ref = reference_firsts(prods, set(l for (l, r) in prods))
            for x, want in ref.items():
                got = set(g.firsts[x])
                if got != want:
                    return ("FIRST-is-the-least-fixed-point", {"grammar": prods, "symbol": x, "firsts": sorted(map(str, got)), "reference": sorted(map(str, want))}, 0)
            parser = g.parser()
        except Exception as e:
            return ("parser()-raises", {"grammar": prods, "exception": "%s: %s" % (type(e).__name__, e)}, 0)
        # contract of Grammar._closure_of_item, on every memoised entry left behind by table construction: the closure of an
        # item is the least set containing it and closed under  A -> x . B y, a  =>  B -> . z, b  for b in FIRST(y a)
        bad = closure_mismatch(g, prods, ref, lr1)
        if bad is not None:
            return ("closure-is-the-least-closed-set", dict(bad, grammar=prods), 0)
        prodset = set((l, tuple(r)) for (l, r) in prods)
        ntset = set(nts)
        n_strings = 0
        amb = False
        for n in range(0, L + 1):
            for w in itertools.product(terms, repeat=n):
                if not parser.conflicts:
                    n_strings += 1
                    acc, viable, ok = recognise(prods, ntset, start, list(w))
                    res = parser.parse([pt.Token(s, s, None) for s in w])
                    got = res.error is None
                    if got != acc:
                        return ("accepts-exactly-the-language", {"grammar": prods, "string": w, "parser_accepts": got, "earley": acc}, n_strings)
                    if got:
                        try:
                            leaves = check_tree(res.parse_tree, prodset | {("S'", (start,))}, lr1)
                        except Exception as e:
                            return ("tree-is-a-derivation", {"grammar": prods, "string": w, "why": str(e)}, n_strings)
                        if leaves != list(w):
                            return ("tree-leaves-equal-input", {"grammar": prods, "string": w, "leaves": leaves}, n_strings)
                    else:
                        # first token that no sentence can continue with: prefix w[:idx] viable, w[:idx+1] not
                        idx = res.error.index
                        if idx != viable:
                            unprod = sorted(ntset - productive(prods, ntset))
                            return ("error-at-first-non-viable-token", {"grammar": prods, "string": w, "error_index": idx, "longest_viable_prefix": viable,
                                                                        "has_unproductive_nonterminal": bool(unprod), "unproductive": unprod}, n_strings)
                elif n <= 4 and not amb:
                    pass
                if n <= 4 and not amb and tree_counts(prods, ntset, start, list(w)) >= 2:
                    amb = True
        if amb and not parser.conflicts:
            return ("ambiguous-grammar-reports-conflict", {"grammar": prods}, n_strings)
        return (None, None, n_strings)
    except BaseException:
        return ("checker-crash", {"grammar": prods, "trace": traceback.format_exc()[-600:]}, 0)


def small_grammars():
    nts, terms = ["S", "A"], ["a", "b"]
    syms = nts + terms
    rhss = [()] + [(x,) for x in syms] + [(x, y) for x in syms for y in syms]
    allp = [(l, r) for l in nts for r in rhss]
    for k in (1, 2, 3):
        for ps in itertools.combinations(allp, k):
            if not any(l == "S" for (l, r) in ps):
                continue
            used = {s for (l, r) in ps for s in r if s in nts}
            if any(u not in {l for (l, r) in ps} for u in used):
                continue      # a nonterminal with no production would be a terminal for lr1
            yield (list(ps), "S", terms, nts)


def random_grammars(rng, count):
    nts, terms = ["S", "A", "B"], ["a", "b"]
    syms = nts + terms
    for _ in range(count):
        k = rng.randint(2, 4)
        ps = []
        for i in range(k):
            l = "S" if i == 0 else rng.choice(nts)
            r = tuple(rng.choice(syms) for _ in range(rng.randint(0, 3)))
            ps.append((l, r))
        used = {s for (l, r) in ps for s in r if s in nts}
        if any(u not in {l for (l, r) in ps} for u in used):
            continue
        if len(set(ps)) != len(ps):
            continue
        yield (ps, "S", terms, nts)


def layered_grammars(rng, count):
    """Larger random grammars (up to 6 nonterminals, 9 productions, nullable and unit productions likely):
    FIRST sets and, when conflict-free, the language up to length L are compared."""
    nts_all, terms = ["S", "A", "B", "C", "D", "E"], ["a", "b", "c"]
    for _ in range(count):
        nts = nts_all[:rng.randint(3, 6)]
        ps = []
        for i, l in enumerate(nts):
            for _k in range(rng.choice([1, 1, 2])):
                n = rng.choice([0, 1, 1, 2, 2, 3])
                # prefer later nonterminals (layered => mostly non-left-recursive, often conflict-free)
                r = tuple(rng.choice(nts[i + 1:] + terms + terms) if nts[i + 1:] else rng.choice(terms) for _ in range(n))
                ps.append((l, r))
        ps = list(dict.fromkeys(ps))
        used = {s_ for (l, r) in ps for s_ in r if s_ in nts_all}
        if any(u not in {l for (l, r) in ps} for u in used):
            continue
        yield (ps, "S", terms, [l for l in nts if any(l == q for (q, _) in ps)])


def emboss_grammar_check(run, rng, tier):
    """The real Emboss parser on token-level mutations of corpus files vs an Earley recogniser of module_ir.PRODUCTIONS."""
    import glob
    import os
    t0 = time.time()
    module_ir = importlib.import_module("compiler.front_end.module_ir")
    tokenizer = importlib.import_module("compiler.front_end.tokenizer")
    parser_mod = importlib.import_module("compiler.front_end.parser")
    prods = [(p.lhs, tuple(p.rhs)) for p in module_ir.PRODUCTIONS]
    nts = {l for (l, r) in prods}
    files = sorted(glob.glob(os.path.join(core.VERIF, "corpus", "*.emb")))
    n, bad = 0, None
    rounds = 40 if tier == "quick" else 400
    base = []
    for f in files:
        toks, errs = tokenizer.tokenize(open(f).read(), f)
        if not errs:
            base.append(toks[:60])
    for _ in range(rounds):
        toks = list(rng.choice(base))
        # keep it short (Earley on the 224-production grammar): a prefix, then one mutation
        cut = rng.randint(3, min(40, len(toks)))
        toks = toks[:cut]
        op = rng.choice(["none", "delete", "dup", "swap"])
        i = rng.randrange(len(toks))
        if op == "delete":
            del toks[i]
        elif op == "dup":
            toks.insert(i, toks[i])
        elif op == "swap" and i + 1 < len(toks):
            toks[i], toks[i + 1] = toks[i + 1], toks[i]
        # mutated token strings get no source locations (the parser accepts None; reordered real locations would
        # trip SourceLocation's own start <= end assertion, which is about the harness, not the parser)
        pt = importlib.import_module("compiler.util.parser_types")
        toks = [pt.Token(t.symbol, t.text, None) for t in toks]
        w = [t.symbol for t in toks]
        acc, viable, ok = recognise(prods, nts, module_ir.START_SYMBOL, w)
        res = parser_mod.parse_module(toks)
        got = res.error is None
        n += 1
        if got != acc or (not got and res.error.index != viable):
            bad = {"tokens": w, "parser_accepts": got, "earley_accepts": acc, "error_index": None if got else res.error.index, "longest_viable_prefix": viable}
            break
    run.add(core.Obligation("bounded.emboss-grammar:parser==earley[token mutations of corpus prefixes]", core.BPASS if bad is None else core.BFAIL, "cpython",
                            time.time() - t0, model=bad, kind="bounded", detail="%d token strings" % n, replay=None if bad is None else {"reproduced": True, "inputs": bad}))
    return n


def structural_grammars():
    """Hand-shaped families the random generators practically never hit: indirect left recursion through unit productions
    (closure cycles of length 2..4, re-entered from a later member), nullable prefixes in front of delayed FIRST sets."""
    out = []
    for n in (2, 3, 4):
        nts = ["A%d" % i for i in range(n)]
        for tail in ((), ("!",)):
            ps = [(nts[0], ("n",)), (nts[0], (nts[1],) + ("!",))]
            for i in range(1, n - 1):
                ps.append((nts[i], (nts[i + 1],)))
            ps.append((nts[n - 1], (nts[0],)))
            ps.append((nts[n - 1], ("-", nts[0]) + tail))
            out.append((ps, nts[0], ["n", "!", "-"], nts))
    out.append(([("P", ("E", "E")), ("E", ("V",)), ("V", ("x",)), ("V", ("P", "."))], "P", ["x", "."], ["P", "E", "V"]))
    out.append(([("S", ("Y", "A")), ("Y", ("y",)), ("A", ("B", "C")), ("B", ("b",)), ("B", ()), ("C", ("D",)), ("D", ("d",))], "S", ["y", "b", "d"], ["S", "Y", "A", "B", "C", "D"]))
    out.append(([("S", ("Y", "A")), ("S", ("Z", "d")), ("Z", ("y",)), ("Y", ("y",)), ("A", ("B", "C")), ("B", ("b",)), ("B", ()), ("C", ("D",)), ("D", ("d",))], "S", ["y", "b", "d"],
                ["S", "Y", "Z", "A", "B", "C", "D"]))
    out.append(([("E", ("E", "+", "T")), ("E", ("T",)), ("T", ("T", "*", "F")), ("T", ("F",)), ("F", ("(", "E", ")")), ("F", ("i",))], "E", ["i", "+", "*", "(", ")"], ["E", "T", "F"]))
    return out


def main(args):
    run = core.Run("C08", args.tier, "exploration", "./check C08 --tier " + args.tier)
    rng = random.Random(run.seed)
    # E1 (proof part): the item -> ACTION entry / conflict step of Grammar.parser, from its real source
    from vlib import pool
    from contracts import lr1_table
    n0 = len(run.obligations)
    pool.run_targets(run, "contracts.lr1_table", ["action_step", "parse_step", "items_step", "parallel_goto", "first", "seed_firsts_round", "closure_of_item"])
    run.function("compiler.front_end.lr1.Grammar._first", "pyvc: FIRST of every symbol string of length <= 3 over every combination of FIRST tables (subsets of {a, b, epsilon}) equals the textbook definition")
    run.function("compiler.front_end.lr1.Grammar._compute_seed_firsts", "pyvc: one round of its fixed-point loop from every starting table over a small grammar adds exactly FIRST(rhs) of every production and stops iff nothing was added "
                 "(least fixed point by Kleene iteration: paper step; cross-checked by the bounded FIRST-is-the-least-fixed-point clause)")
    run.function("compiler.front_end.lr1.Grammar._closure_of_item", "pyvc: body executed on ghost grammar objects (six structurally different grammars incl. indirectly nullable tails; every item as root; memo tables empty / "
                 "partly / fully filled, and as left behind by an earlier call on every other non-trivial root): result and memo entry == the least closed set over the callee contract of _first; earlier memo entries unchanged; "
                 "the recursive closing pass is the induction hypothesis")
    run.function("compiler.front_end.lr1.Grammar._parallel_goto", "pyvc: for item sets of real Item tuples, the goto of every symbol is the union of the closures of the advanced items; completed items contribute nothing; memoised closures are reused")
    run.function("compiler.front_end.lr1.Grammar._items", "pyvc: one iteration of its worklist loop: every goto set gets the number of the state with exactly that item set (an existing state is shared, equal new sets share one new state), "
                 "new states are appended once in sorted-symbol order, the no-duplicates / inverse-index-map invariant is re-established")
    run.function("compiler.front_end.lr1.Parser.parse", "pyvc: one iteration of its loop from a generic configuration (stack depth <= 4, rhs length <= 2): Shift / Reduce (node over the popped trees in order, goto of the state below) / "
                 "Accept / Error (code or the state's default, cursor, token, state, non-error terminals of the row) exactly as the shift-reduce algorithm prescribes")
    try:
        for o in lr1_table.frame_obligations():
            run.add(o)
    except core.CheckerError as e:
        # the table loops no longer have the shape the step contracts are anchored to: reported, and the bounded part still runs
        run.error(str(e))
    rp = None
    for ob in run.obligations[n0:]:
        if ob.verdict == core.REFUTED:
            if rp is None:
                rp = {"reproduced": False, "note": "no structural or 1-2 production grammar fails the end-to-end contract"}
                for g in structural_grammars() + [g for g in small_grammars() if len(g[0]) <= 2]:
                    clause, bad, _ = check_grammar(g)
                    if clause:
                        rp = {"reproduced": True, "inputs": bad, "clause": clause}
                        break
            ob.replay = rp
            if ob.name.startswith(("frame.", "Grammar._compute_seed_firsts.round", "Grammar._items.step")) and not rp["reproduced"]:
                # these step contracts fix one scheme (loop structure, Jacobi-style rounds, state numbering) among those the property allows;
                # with no grammar misbehaving the scheme changed, not the property: undecided, not a violation
                ob.verdict = core.UNKNOWN
    run.function("compiler.front_end.lr1.Grammar.parser", "pyvc: the body of `for item in item_sets[i]` executed symbolically from any row state: the entry demanded by the item is stored, a Conflict is recorded iff a different "
                 "entry was present, nothing else is written; the statements after the loops write neither action nor conflicts (syntactic frame)")
    run.assume(*core.STANDING_ASSUMPTIONS["E1"])
    run.assume("Grammar._closure_of_item contract: the ghost grammar's tables (_productions_by_lhs, _item_cache, memo tables) are built by the contract; attributes it does not specify are taken from an object built by the real "
               "constructor; _first and the recursive call are callee contracts (FIRST of a string from an independently computed table; the closure of the argument, memoised); the six grammars are a finite family - "
               "grammars of other shapes are covered by the bounded Earley comparison only")
    run.assume("Grammar.parser step contract: actions are compared as (kind, production / target state) tuples with symbolic identities; the induction over the items of a state and over states (conflicts == {} implies "
               "every demanded action is in the table and unique) is a paper step; item sets and goto come from _items (closure contract + bounded part)")
    gs = structural_grammars() + list(small_grammars())
    if args.tier == "quick":
        # the exhaustive 1-2 production part always, a seeded third of the 3-production grammars
        gs = [g for g in gs if len(g[0]) <= 2] + [g for g in gs if len(g[0]) == 3 and rng.random() < 0.25]
    gs += list(random_grammars(rng, 1500 if args.tier == "quick" else 20000))
    gs += list(layered_grammars(rng, 3000 if args.tier == "quick" else 40000))
    t0 = time.time()
    with multiprocessing.get_context("fork").Pool(16) as p:
        res = p.map(check_grammar, gs, chunksize=64)
    fails = {}
    n_strings = 0
    conflict_free = 0
    for (clause, bad, ns) in res:
        n_strings += ns
        if ns:
            conflict_free += 1
        if clause:
            fails.setdefault(clause, []).append(bad)
    clauses = ["parser()-raises", "FIRST-is-the-least-fixed-point", "closure-is-the-least-closed-set", "accepts-exactly-the-language", "tree-is-a-derivation", "tree-leaves-equal-input", "error-at-first-non-viable-token",
               "ambiguous-grammar-reports-conflict", "checker-crash"]
    for cl in clauses:
        if cl == "checker-crash":
            if cl in fails:
                run.error("C08 oracle crashed: %r" % fails[cl][0])
            continue
        name = "bounded.lr1.%s" % ("parser()-never-raises" if cl == "parser()-raises" else cl)
        if cl not in fails:
            run.add(core.Obligation(name, core.BPASS, "cpython", 0.0, kind="bounded", detail="%d grammars, %d conflict-free, %d strings" % (len(gs), conflict_free, n_strings)))
        else:
            ordered = sorted(fails[cl], key=lambda b: bool(b.get("has_unproductive_nonterminal")))
            shown = ordered[:3] + [b for b in ordered[3:] if not b.get("has_unproductive_nonterminal")][:5]
            for bad in shown:
                run.add(core.Obligation(name + "{%s}" % "; ".join("%s->%s" % (l, " ".join(r) or "e") for (l, r) in bad["grammar"]), core.BFAIL, "cpython", 0.0,
                                        kind="bounded", model=bad, detail=str(bad)[:300], replay={"reproduced": True, "inputs": bad}))
    ne = emboss_grammar_check(run, rng, args.tier)
    run.bounded.append({"what": "small grammars x all strings up to length %d; Emboss grammar on mutated token strings" % L,
                        "evaluations": len(gs) + n_strings + ne, "distinct_nontrivial": conflict_free + ne, "seconds": round(time.time() - t0, 1)})
    run.extra["rule"] = "grammars: all with nonterminals {S,A}, terminals {a,b}, <=2 productions (exhaustive) and 3 productions (quick: seeded 25%; thorough: all), rhs<=2; seeded random 3-nonterminal grammars; non-trivial = conflict-free grammar (its strings are then all compared) or an Emboss token string"
    run.extra["grammars"] = len(gs)
    for f in ("Grammar._first", "Grammar._closure_of_item", "Grammar._items", "Grammar.parser", "Parser.parse"):
        run.function("compiler.front_end.lr1." + f, "end-to-end contract with an Earley oracle on an enumerated small scope (bounded stand-in)")
    run.assume(*core.STANDING_ASSUMPTIONS["E3"])
    run.trust("CPython", "the Earley recogniser and tree counter in props/C08.py")
    return run.finish()
