"""C10 - tokenization is lossless, position-accurate and classifies as documented (E3 bounded + ground).

Contract on tokenizer.tokenize, with an INDEPENDENT tokenizer built from the documented pattern table
(doc/grammar.md, read in order; its own longest-match loop over re.compile of the documented patterns):
  either an error is reported, or the tokens, in order, cover every non-blank character exactly once:
    each token's text is the source slice at its reported line/columns; gaps are whitespace only;
    each token is the longest match of the documented patterns, ties to the earlier pattern;
    every non-blank line ends in exactly one "\\n" token; Indent/Dedent are balanced and mirror the changes of
    leading whitespace.
Scope: ALL strings of length <= 4 over a 22-character alphabet that hits every character class (quick: <= 3
exhaustive, length 4 sampled), seeded token soup, mutated corpus files, every Unicode line terminator
str.splitlines recognises.  Ground: the documented table is the tokenizer's (ordered).  Python's `re` is
trusted on both sides.  The proof part is the E1 slice contract on the loop body of _tokenize_line (contracts/tokenizer.py); the rest is a bounded stand-in."""
import importlib
import itertools
import multiprocessing
import os
import random
import re
import time

from vlib import core

ALPHABET = list("aZ_09$ \t\n#-\"\\.=<[x:") + ["+", "e", "\r"]


def doc_rules(doc):
    rules = []
    for ln in doc.splitlines():
        m = re.match(r"^`(.*?)`\s+\|\s+(`[^`]+`|\*no symbol emitted\*)\s*$", ln)
        if m:
            pat = m.group(1)
            sym = m.group(2)
            sym = None if sym.startswith("*") else sym.strip("`")
            rules.append((pat, sym))
    return rules


_RULES = None


def rules():
    global _RULES
    if _RULES is None:
        doc = open(os.path.join(core.REPO, "doc", "grammar.md")).read()
        out = []
        for (pat, sym) in doc_rules(doc):
            if sym is not None and sym.startswith('"') and pat.replace("\\", "") == sym.strip('"'):
                out.append((re.compile(re.escape(sym.strip('"'))), sym))            # literal rule
            else:
                out.append((re.compile(pat.replace("\\|", "|")), sym))
        _RULES = out
    return _RULES


def ref_tokenize_line(line):
    """Longest match, ties to the earlier documented pattern; returns [(symbol, text, col0)] or None on error."""
    out = []
    off = 0
    while off < len(line):
        best, bsym = "", None
        for (rx, sym) in rules():
            m = rx.match(line[off:])
            if m and len(m.group(0)) > len(best):
                best, bsym = m.group(0), sym
        if not best:
            return None
        if bsym is not None:
            out.append((bsym, best, off))
        off += len(best)
    return out


def check_text(text):
    """Returns None if the real tokenizer meets the contract on `text`, else a description."""
    tokenizer = importlib.import_module("compiler.front_end.tokenizer")
    try:
        toks, errs = tokenizer.tokenize(text, "f.emb")
    except Exception as e:
        return "exception %s: %s" % (type(e).__name__, e)
    lines = text.splitlines()
    ref = [ref_tokenize_line(l) for l in lines]
    if errs:
        # an error is allowed only where the reference cannot tokenize a line, or on bad indentation
        msg = errs[0][0].message
        if msg == "Unrecognized token":
            if all(r is not None for r in ref):
                return "reported Unrecognized token but every line tokenizes under the documented table"
        return None
    if any(r is None for r in ref):
        return "accepted a text with an untokenizable line"
    # per line: real tokens (without Indent/Dedent/"\n") == reference tokens, with exact positions
    by_line = {}
    for t in toks:
        if t.symbol in ("Indent", "Dedent", '"\\n"'):
            continue
        by_line.setdefault(t.source_location.start.line, []).append(t)
    for i, (l, r) in enumerate(zip(lines, ref), start=1):
        got = by_line.get(i, [])
        if [(t.symbol, t.text) for t in got] != [(s, x) for (s, x, _) in r]:
            return "line %d: tokens %r, documented table gives %r" % (i, [(t.symbol, t.text) for t in got], [(s, x) for (s, x, _) in r])
        for t, (s, x, col) in zip(got, r):
            a, b = t.source_location.start, t.source_location.end
            if (a.line, a.column, b.line, b.column) != (i, col + 1, i, col + len(x) + 1) or l[a.column - 1:b.column - 1] != t.text:
                return "line %d: token %r at %s-%s is not the slice at its columns" % (i, t.text, a, b)
        # gaps are whitespace only
        covered = [False] * len(l)
        for (s, x, col) in r:
            for k in range(col, col + len(x)):
                covered[k] = True
        if any((not c) and not l[k].isspace() for k, c in enumerate(covered)):
            return "line %d: a non-blank character is covered by no token" % i
    # newline tokens and indentation
    depth = 0
    stack = [""]
    idx = 0
    for i, (l, r) in enumerate(zip(lines, ref), start=1):
        line_toks = []
        while idx < len(toks) and toks[idx].source_location.start.line == i:
            line_toks.append(toks[idx])
            idx += 1
        # (blank and comment-only lines also get their one end-of-line token; the property only requires it of
        # non-blank lines, and the grammar accepts it on the others)
        nl = [t for t in line_toks if t.symbol == '"\\n"']
        if len(nl) != 1 or line_toks[-1].symbol != '"\\n"' or nl[0].source_location.start.column != len(l) + 1:
            return "line %d: not exactly one newline token at the end of the line" % i
        if all(s == "Comment" for (s, _, _) in r):
            if any(t.symbol in ("Indent", "Dedent") for t in line_toks):
                return "comment-only line %d changed indentation" % i
            continue
        lead = l[:len(l) - len(l.lstrip())]
        ind = sum(1 for t in line_toks if t.symbol == "Indent")
        ded = sum(1 for t in line_toks if t.symbol == "Dedent")
        if lead == stack[-1]:
            want = (0, 0)
        elif lead.startswith(stack[-1]):
            want = (1, 0)
            stack.append(lead)
        else:
            k = 0
            while stack and stack[-1] != lead:
                stack.pop()
                k += 1
            if not stack:
                return "line %d: accepted a dedent to an unknown level" % i
            want = (0, k)
        if (ind, ded) != want:
            return "line %d: %d Indent / %d Dedent, leading whitespace change requires %r" % (i, ind, ded, want)
        depth += ind - ded
    trailing = toks[idx:]
    if any(t.symbol != "Dedent" for t in trailing) or len(trailing) != depth:
        return "final Dedent tokens do not balance the open indentation (%d open, %d emitted)" % (depth, len(trailing))
    return None


# --- classification per doc/language-reference.md ("Names", "Numeric Constant Formats"): the rules are PINNED here from the
# property statement / reference text (not read from doc/grammar.md, which is regenerated from the tokenizer's own tables);
# the anchors below check that the reference still states them.
REF_ANCHORS = ["`[A-Z][a-zA-Z0-9]*[a-z][a-zA-Z0-9]*`", "`[a-z][a-z_0-9]*`", "`[A-Z][A-Z_0-9]*[A-Z_][A-Z_0-9]*`", "Decimal numbers may use `_` as a thousands separator",
               "Hexadecimal and binary numbers may use `_` as a separator every 4 or 8 digits", "1000_000              # Not allowed", "1_000_00              # Not allowed",
               "0x1234_567            # Not allowed", "0x1234_5678_9abcdef0  # Not allowed", "0XC is not allowed", "NOT interpreted as octal"]
REF_NUMBER = [re.compile(p + r"\Z") for p in (r"[0-9]+", r"[0-9]{1,3}(_[0-9]{3})+", r"0x[0-9a-fA-F]+", r"0x[0-9a-fA-F]{1,4}(_[0-9a-fA-F]{4})+", r"0x[0-9a-fA-F]{1,8}(_[0-9a-fA-F]{8})+",
                                                 r"0b[01]+", r"0b[01]{1,4}(_[01]{4})+", r"0b[01]{1,8}(_[01]{8})+")]
REF_NAMES = [("SnakeWord", re.compile(r"[a-z][a-z_0-9]*\Z")), ("ShoutyWord", re.compile(r"[A-Z][A-Z_0-9]*[A-Z_][A-Z_0-9]*\Z")), ("CamelWord", re.compile(r"[A-Z][a-zA-Z0-9]*[a-z][a-zA-Z0-9]*\Z"))]


def reference_class(s):
    """Number / SnakeWord / ShoutyWord / CamelWord / BooleanConstant per the language reference, None if the reference
    does not make s a valid name or numeric constant, "unspecified" where it is silent (separator right after 0x / 0b)."""
    if re.match(r"0[xb]_", s):
        return "unspecified"
    if s in ("true", "false"):
        return "BooleanConstant"
    if any(r.match(s) for r in REF_NUMBER):
        return "Number"
    for sym, r in REF_NAMES:
        if r.match(s):
            return sym
    return None


def classification_texts(tier):
    out = set()
    for prefix, digit in (("", "1"), ("", "9"), ("0x", "a"), ("0x", "F"), ("0x", "7"), ("0b", "1"), ("0b", "0"), ("0X", "a"), ("0B", "1"), ("0", "7")):
        for ngroups in (1, 2, 3, 4):
            for lens in itertools.product((1, 2, 3, 4, 5, 8, 9) if ngroups < 4 else (1, 3, 4, 8), repeat=ngroups):
                out.add(prefix + "_".join(digit * n for n in lens))
    for n in range(1, 5 if tier == "quick" else 6):
        for t in itertools.product("019_xbXBafFzZ", repeat=n):
            out.add("".join(t))
    return sorted(out)


def check_classification(s):
    tokenizer = importlib.import_module("compiler.front_end.tokenizer")
    if s in tokenizer.LITERAL_TOKEN_PATTERNS or re.match(r"(?i)emboss_?reserved", s):
        return None
    want = reference_class(s)
    if want == "unspecified":
        return None
    toks, errs = tokenizer.tokenize(s, "f.emb")
    got = None if errs else [(t.symbol, t.text) for t in toks if t.symbol != '"\\n"']
    valid = ("Number", "SnakeWord", "ShoutyWord", "CamelWord", "BooleanConstant")
    if want is not None:
        if got != [(want, s)]:
            return "%r is a %s per the language reference, tokenized as %r" % (s, want, got)
    else:
        if got is not None and all(sym in valid or sym.startswith('"') for sym, _ in got):
            return "%r is neither a valid name nor a valid numeric constant per the language reference, but tokenized as %r" % (s, got)
    return None


def _class_chunk(texts):
    for t in texts:
        w = check_classification(t)
        if w is not None:
            return {"text": t, "why": w}, 0
    return None, len(texts)


def _chunk(texts):
    bad = None
    n_tok = 0
    for t in texts:
        w = check_text(t)
        if w is not None:
            bad = {"text": t, "why": w}
            break
        n_tok += 1
    return bad, n_tok


def main(args):
    run = core.Run("C10", args.tier, "exploration", "./check C10 --tier " + args.tier)
    rng = random.Random(run.seed)
    t0 = time.time()
    # ground: documented table == tokenizer tables (ordered) - shared with C09
    import props.C09 as c09
    class _R:      # collect only the token-table obligation
        def __init__(self): self.obs = []
        def add(self, o): self.obs.append(o)
    rr = _R()
    c09.grammar_md_obligations(rr)
    for o in rr.obs:
        if "token-rules" in o.name:
            run.add(o)
    # E1 (proof part): one iteration of the longest-match loop of _tokenize_line over abstract pattern tables
    from vlib import pool
    from contracts import tokenizer as ctok
    n0 = len(run.obligations)
    pool.run_targets(run, "contracts.tokenizer", ["line_loop", "indent_loop", "final_dedents"])
    rp = None
    for ob in run.obligations[n0:]:
        if ob.verdict == core.REFUTED and ob.name.startswith("_tokenize_line"):
            ob.replay = ctok.replay_line_loop(ob.name, ob.model)
        elif ob.verdict == core.REFUTED:
            rp = rp or ctok.replay_tokenize(ob.name, ob.model)
            ob.replay = rp
    run.function("compiler.front_end.tokenizer.tokenize",
                 "pyvc: the body of its per-line loop executed symbolically from any (line, leading whitespace, open indentation chain of depth <= 4, outcome of _tokenize_line): same / deeper (one Indent, the new part of the "
                 "whitespace) / shallower (one empty Dedent per closed level) / Bad indentation iff no open level matches or extends; newline token at the end of the line; blank and comment-only lines leave the "
                 "indentation alone; the chain-of-strict-prefixes and balance invariants are re-established; the statements after the loop emit one Dedent per level still open")
    run.function("compiler.front_end.tokenizer._tokenize_line",
                 "pyvc: the body of its `while offset < len(line)` loop executed symbolically from any (line length, offset, line number) over abstract literal / regex tables: "
                 "longest match, ties to the earliest pattern, error iff nothing matches, token symbol/text/location, offset advances by the match length")
    run.assume(*core.STANDING_ASSUMPTIONS["E1"])
    run.assume("_tokenize_line: `str.startswith` and `re.match` are uninterpreted (a match is a boolean plus a length within the rest of the line); tables of <= 3 literals and <= 3 regexes stand for the "
               "module's tables (the loop treats every entry alike); the induction from one iteration to the whole line is a paper step (the offset strictly increases and stays inside the line)",
               "tokenize: comparisons of the leading whitespace with open levels are uninterpreted booleans constrained by length facts true of all strings; indentation chains of depth <= 4 stand for all depths (the loop "
               "treats levels alike); str.splitlines / str.lstrip are trusted (which characters count as line terminators / whitespace is covered by the bounded part only)")
    groups = {}
    short = ["".join(t) for n in range(0, 4) for t in itertools.product(ALPHABET, repeat=n)]
    groups["all-strings<=3"] = short
    n4 = 40000 if args.tier == "quick" else None
    if n4 is None:
        groups["all-strings==4"] = ["".join(t) for t in itertools.product(ALPHABET, repeat=4)]
    else:
        groups["sampled-strings==4"] = ["".join(rng.choice(ALPHABET) for _ in range(4)) for _ in range(n4)]
    pieces = ["struct", "Foo", ":", "\n", "  ", "    ", "0", "[+", "4", "]", "UInt", "x", "# c", "-- doc", "--", "0x_ff", "1_000", "0b1", "if", "==", "&&", "$next",
              "\"s\"", "\t", "EmbossReserved", "abcDef", "A", "AB", "Ab", "a_b", "9z", "$", "  # c\n", "\r\n", "\x0b", "\x0c", "\x1c", "\x85", " ", " ", " "]
    groups["token-soup"] = ["".join(rng.choice(pieces) for _ in range(rng.randint(1, 14))) for _ in range(6000 if args.tier == "quick" else 60000)]
    corpus = []
    for f in sorted(os.listdir(os.path.join(core.VERIF, "corpus"))):
        if f.endswith(".emb"):
            corpus.append(open(os.path.join(core.VERIF, "corpus", f)).read())
    for f in ("condition.emb", "virtual_field.emb", "text_format.emb"):
        corpus.append(open(os.path.join(core.REPO, "testdata", f)).read())
    muts = list(corpus)
    for _ in range(300 if args.tier == "quick" else 3000):
        s = rng.choice(corpus)
        i = rng.randrange(len(s))
        op = rng.choice(["del", "ins", "dupline", "indent"])
        if op == "del":
            s = s[:i] + s[i + rng.randint(1, 3):]
        elif op == "ins":
            s = s[:i] + rng.choice(pieces) + s[i:]
        elif op == "dupline":
            ls = s.split("\n")
            j = rng.randrange(len(ls))
            ls.insert(j, ls[j])
            s = "\n".join(ls)
        else:
            ls = s.split("\n")
            j = rng.randrange(len(ls))
            ls[j] = rng.choice([" ", "  ", "\t", ""]) + ls[j].lstrip() if rng.random() < 0.5 else " " + ls[j]
            s = "\n".join(ls)
        muts.append(s)
    groups["corpus-and-mutations"] = muts
    total, distinct = 0, 0
    with multiprocessing.get_context("fork").Pool(16) as pool:
        for g, texts in groups.items():
            chunks = [texts[i:i + 500] for i in range(0, len(texts), 500)]
            res = pool.map(_chunk, chunks)
            bad = next((b for (b, _) in res if b), None)
            total += len(texts)
            distinct += len(set(texts))
            run.add(core.Obligation("bounded.tokenizer==documented-table+invariants[%s]" % g, core.BPASS if bad is None else core.BFAIL, "cpython", 0.0, kind="bounded",
                                    model=bad, detail="%d texts" % len(texts), replay=None if bad is None else {"reproduced": True, "inputs": bad}))
    # names and numbers classified as the language reference says (pinned rules; anchors checked against the reference text)
    ref = open(os.path.join(core.REPO, "doc", "language-reference.md")).read()
    missing = [a for a in REF_ANCHORS if a not in ref]
    if missing:
        run.error("anchor mismatch: doc/language-reference.md no longer states %r; the pinned name / numeric-constant rules of props/C10.py need review" % missing[:3])
    ctexts = classification_texts(args.tier)
    with multiprocessing.get_context("fork").Pool(16) as pool:
        res = pool.map(_class_chunk, [ctexts[i:i + 500] for i in range(0, len(ctexts), 500)])
    bad = next((b for (b, _) in res if b), None)
    run.add(core.Obligation("bounded.classification==language-reference[names-and-numeric-constants]", core.BPASS if bad is None else core.BFAIL, "cpython", 0.0, kind="bounded",
                            model=bad, detail="%d word-like strings" % len(ctexts), replay=None if bad is None else {"reproduced": True, "inputs": bad}))
    total += len(ctexts)
    distinct += len(ctexts)
    run.bounded.append({"what": "independent tokenizer from doc/grammar.md vs tokenizer.tokenize + covering/position/newline/indent invariants",
                        "evaluations": total, "distinct_nontrivial": distinct, "seconds": round(time.time() - t0, 1)})
    run.extra["rule"] = "texts: all strings of length <=3 over a %d-character alphabet, length 4 %s, seeded token soup, corpus files and their mutations; distinct = distinct texts" % (
        len(ALPHABET), "sampled" if n4 else "exhaustive")
    run.extra["alphabet"] = ALPHABET
    run.function("compiler.front_end.tokenizer.tokenize / _tokenize_line", "contract with an independent documented-table tokenizer and covering invariants, checked on enumerated texts (bounded stand-in)")
    run.assume(*core.STANDING_ASSUMPTIONS["E3"])
    run.assume("Python's re module is trusted on both sides", "name and numeric-constant classification: the rules of doc/language-reference.md are pinned in props/C10.py (anchored to the reference text); a separator directly after 0x / 0b is left unspecified by the reference and not judged")
    run.trust("CPython re", "doc/grammar.md as the documented table")
    return run.finish()
