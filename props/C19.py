"""C19 - enum names, values and C++ representation match the definition (E2a EnumView part)."""
from vlib.llvc import viewcheck


def main(args):
    import os, shutil
    from vlib import core
    from vlib.llvc import corpus
    inc = corpus.generate_headers(["enums.emb"], os.path.join(core.VERIF, "corpus"))
    try:
        return _main(args, corpus.enum_jobs("corpus.specs", inc))
    finally:
        shutil.rmtree(inc, ignore_errors=True)


def _main(args, more):
    r = viewcheck.run("C19", args, ["Enum"], ["read", "write"], more_jobs=more,
                      functions=["emboss::support::EnumView::{Ok,IsComplete,Read,UncheckedRead,CouldWriteValue,TryToWrite} for signed and unsigned underlying types of 8/16/32/64 bits"])
    if isinstance(r, int):
        return r
    from vlib import pool, core
    pool.run_targets(r, "contracts.gate", ["_cpp_integer_type_for_enum", "_generate_enum_definition"])
    from contracts import attrs
    pool.run_targets(r, "contracts.attrs", ["enum_attributes", "enum_width"])
    r.function("compiler.back_end.cpp.header_generator._generate_enum_definition",
               "pyvc: for every enum of <= 3 values (symbolic numeric values: every pattern of duplicates), 1-2 spellings per value: enumerators, from-name cases for every declared name, name/known cases for first declarations only, underlying type")
    r.function("compiler.front_end.attribute_checker._add_missing_width_and_sign_attributes_on_enum / _verify_width_attribute_on_enum", "pyvc: maximum_bits default 64, is_signed default = some value negative, error iff outside 1..64")
    r.function("compiler.back_end.cpp.header_generator._cpp_integer_type_for_enum", "pyvc: smallest fixed-width type of the declared signedness, total on 1..64")
    r.assume(*core.STANDING_ASSUMPTIONS["E1"])
    r.function("generated TryToGetEnumFromName / TryToGetNameFromEnum / EnumIsKnown / enumerators / underlying type of the corpus enums (corpus/enums.emb)",
               "llvc: header generated in this run vs the declared (name, value) list: all 2^64 candidate values, all NUL-terminated strings up to 48 bytes; libc strcmp/strncmp modelled byte-wise with bounds obligations")
    r.extra["not_covered"] = ["enums outside the corpus", "name_conversion / enum_case spellings", "text-format enum I/O"]
    return r.finish()
