"""C19 - enum names, values and C++ representation match the definition (E2a EnumView part)."""
from vlib.llvc import viewcheck


def main(args):
    r = viewcheck.run("C19", args, ["Enum"], ["read", "write"],
                      functions=["emboss::support::EnumView::{Ok,IsComplete,Read,UncheckedRead,CouldWriteValue,TryToWrite} for signed and unsigned underlying types of 8/16/32/64 bits"])
    if isinstance(r, int):
        return r
    r.extra["not_covered"] = ["generated enum helpers (TryToGetEnumFromName, TryToGetNameFromEnum, EnumIsKnown): corpus checks",
                              "name_conversion: bounded check"]
    return r.finish()
