"""C19 - enum names, values and C++ representation match the definition (E2a EnumView part)."""
from vlib.llvc import viewcheck


def main(args):
    r = viewcheck.run("C19", args, ["Enum"], ["read", "write"],
                      functions=["emboss::support::EnumView::{Ok,IsComplete,Read,UncheckedRead,CouldWriteValue,TryToWrite} for signed and unsigned underlying types of 8/16/32/64 bits"])
    if isinstance(r, int):
        return r
    from vlib import pool, core
    pool.run_targets(r, "contracts.gate", ["_cpp_integer_type_for_enum"])
    r.function("compiler.back_end.cpp.header_generator._cpp_integer_type_for_enum", "pyvc: smallest fixed-width type of the declared signedness, total on 1..64")
    r.assume(*core.STANDING_ASSUMPTIONS["E1"])
    r.extra["not_covered"] = ["generated enum helpers (TryToGetEnumFromName, TryToGetNameFromEnum, EnumIsKnown): corpus checks",
                              "name_conversion: bounded check"]
    return r.finish()
