"""C15 - dependency cycles are always rejected; field order respects dependencies (E3, bounded).

Contracts on the real functions, checked (not proved) on exhaustively enumerated small scopes:
  dependency_checker._find_cycles(graph)
      == { frozenset(C) | C an SCC of graph with |C| > 1 or a self-loop }   (SCCs by reachability closure)
  dependency_checker._find_dependency_ordering_for_fields_in_structure
      order is a permutation of the fields; every field comes after all fields (and parameters) it
      depends on; order is the source order whenever the source order already has that property.
Bound: every digraph on <= 4 labelled nodes (65 536 + smaller), random digraphs up to 9 nodes; every DAG on
<= 4 fields x every subset of 2 parameters as extra dependencies.  Nothing beyond the bound is claimed."""
import importlib
import itertools
import random
import time

from vlib import core


def sccs_by_closure(graph):
    nodes = list(graph)
    reach = {a: {a} for a in nodes}
    changed = True
    while changed:
        changed = False
        for a in nodes:
            new = set(reach[a])
            for b in list(reach[a]):
                new |= graph[b]
            if new != reach[a]:
                reach[a] = new
                changed = True
    out = set()
    for a in nodes:
        comp = frozenset(b for b in nodes if a in reach[b] and b in reach[a])
        if len(comp) > 1 or a in graph[a]:
            out.add(comp)
    return out


def all_digraphs(n):
    pairs = [(i, j) for i in range(n) for j in range(n)]
    for bits in range(1 << len(pairs)):
        g = {i: set() for i in range(n)}
        for k, (i, j) in enumerate(pairs):
            if bits >> k & 1:
                g[i].add(j)
        yield g


def check_find_cycles(run, dc, tier, rng):
    t0 = time.time()
    n_eval, nontrivial, bad = 0, 0, None
    for n in (1, 2, 3, 4):
        for g in all_digraphs(n):
            got = dc._find_cycles(dict(g))
            want = sccs_by_closure(g)
            n_eval += 1
            if want:
                nontrivial += 1
            if got != want and bad is None:
                bad = {"graph": {str(k): sorted(v) for k, v in g.items()}, "got": sorted(map(sorted, got)), "want": sorted(map(sorted, want))}
    rounds = 3000 if tier == "quick" else 40000
    for _ in range(rounds):
        n = rng.randint(5, 9)
        labels = rng.sample(["a", "bb", "c", "dd", "e", "ff", "g", "hh", "i", "jj", 1, 2, 3], n)
        g = {x: set(y for y in labels if rng.random() < 0.22) for x in labels}
        items = list(g.items())
        rng.shuffle(items)
        got = dc._find_cycles(dict(items))
        want = sccs_by_closure(g)
        n_eval += 1
        if want:
            nontrivial += 1
        if got != want and bad is None:
            bad = {"graph": {str(k): sorted(map(str, v)) for k, v in g.items()}, "got": str(got), "want": str(want)}
    run.add(core.Obligation("bounded._find_cycles==SCC-spec[all digraphs<=4 nodes;random<=9]", core.BPASS if bad is None else core.BFAIL,
                            "cpython", time.time() - t0, model=bad, kind="bounded", detail="%d graphs" % n_eval,
                            replay=None if bad is None else {"reproduced": True, "inputs": bad}))
    return n_eval, nontrivial


def is_dag(n, edges):
    # edges: set of (i, j): i depends on j
    color = {}

    def dfs(u):
        color[u] = 1
        for (a, b) in edges:
            if a == u:
                if color.get(b) == 1 or (b not in color and not dfs(b)):
                    return False
        color[u] = 2
        return True
    return all(dfs(u) for u in range(n) if u not in color)


def check_ordering(run, dc, ir_data, ir_util, tier):
    t0 = time.time()
    n_eval, nontrivial, bad = 0, 0, None

    def name(s):
        return ir_data.NameDefinition(canonical_name=ir_data.CanonicalName(module_file="m.emb", object_path=["S", s]),
                                      name=ir_data.Word(text=s))
    for n in (1, 2, 3, 4):
        pairs = [(i, j) for i in range(n) for j in range(n) if i != j]
        for bits in range(1 << len(pairs)):
            edges = {p for k, p in enumerate(pairs) if bits >> k & 1}
            if not is_dag(n, edges):
                continue
            for pmask in range(4 if n <= 3 else 2):
                fields = [ir_data.Field(name=name("f%d" % i)) for i in range(n)]
                params = [ir_data.RuntimeParameter(name=name("p%d" % i)) for i in range(2)]
                st = ir_data.Structure(field=fields)
                td = ir_data.TypeDefinition(structure=st, runtime_parameter=params)
                H = ir_util.hashable_form_of_reference
                deps = {H(f.name): set() for f in fields}
                for (i, j) in edges:
                    deps[H(fields[i].name)].add(H(fields[j].name))
                for b in range(2):
                    if pmask >> b & 1:
                        deps[H(fields[0].name)].add(H(params[b].name))
                for p in params:
                    deps[H(p.name)] = set()
                try:
                    dc._find_dependency_ordering_for_fields_in_structure(st, td, deps)
                    order = list(st.fields_in_dependency_order)
                    ok = sorted(order) == list(range(n))
                    pos = {f: k for k, f in enumerate(order)}
                    ok = ok and all(pos[j] < pos[i] for (i, j) in edges)
                    if all(j < i for (i, j) in edges):
                        ok = ok and order == list(range(n))     # stability
                    err = None
                except Exception as e:
                    ok, order, err = False, None, "%s: %s" % (type(e).__name__, e)
                n_eval += 1
                if edges:
                    nontrivial += 1
                if not ok and bad is None:
                    bad = {"fields": n, "depends_on": sorted(edges), "param_deps_of_f0": pmask, "order": order, "exception": err}
    run.add(core.Obligation("bounded.dependency-order:permutation+deps-first+stable[all DAGs<=4 fields]", core.BPASS if bad is None else core.BFAIL,
                            "cpython", time.time() - t0, model=bad, kind="bounded", detail="%d (DAG, parameter-dependency) cases" % n_eval,
                            replay=None if bad is None else {"reproduced": True, "inputs": bad}))
    return n_eval, nontrivial


def check_modules(run, glue_reader):
    """Cycle error iff the module has a cycle, through the real front end (a handful of shapes)."""
    import importlib
    glue = importlib.import_module("compiler.front_end.glue")
    cases = {
        "self-loop": ("struct Foo:\n  x [+1]  UInt  x\n", True),
        "two-cycle": ("struct Foo:\n  b [+1]  UInt  a\n  a [+1]  UInt  b\n", True),
        "long-cycle": ("struct Foo:\n  b [+1]  UInt  a\n  c [+1]  UInt  b\n  d [+1]  UInt  c\n  a [+1]  UInt  d\n", True),
        "acyclic-backward": ("struct Foo:\n  b [+1]  UInt  a\n  0 [+1]  UInt  b\n", False),
        "virtual-cycle": ("struct Foo:\n  0 [+1]  UInt  x\n  let a = b + x\n  let b = a + 1\n", True),
        "enum-value-cycle": ("enum Ee:\n  AA = Ee.BB\n  BB = Ee.AA\n", True),
        "cross-structure-constant-cycle": ("struct Aa:\n  0 [+1]  UInt  x\n  let c = Bb.d + 1\nstruct Bb:\n  0 [+1]  UInt  y\n  let d = Aa.c + 1\n", True),
        "enum-through-struct-constant-cycle": ("enum Ee:\n  VA = Ss.k\nstruct Ss:\n  0 [+1]  UInt  x\n  let k = Ee.VA + 0\n", True),
        "cross-structure-constant-acyclic": ("struct Aa:\n  0 [+1]  UInt  x\n  let c = 3\nstruct Bb:\n  0 [+1]  UInt  y\n  let d = Aa.c + 1\n", False),
        "acyclic-diamond": ("struct Foo:\n  0 [+1]  UInt  a\n  a [+1]  UInt  b\n  a [+1]  UInt  c\n  let d = b + c\n", False),
    }
    # every position in which a field can mention another field: the mention is a dependency edge (a -> b), closed into a
    # cycle by b's location mentioning a, and left open in the control
    PAR = "struct Par(n: UInt:8):\n  0 [+1]  UInt  q\n"
    kinds = {
        "start": ("", "  b [+1]  UInt  a\n", "a"),
        "size": ("", "  0 [+b]  UInt:8[]  a\n", None),
        "condition": ("", "  if b == 0:\n    0 [+1]  UInt  a\n", "a"),
        "virtual-value": ("", "  let a = b + 1\n", "a"),
        "type-argument": (PAR, "  0 [+1]  Par(b)  a\n", "a.q"),
        "type-argument-expression": (PAR, "  0 [+1]  Par(b + 1)  a\n", "a.q"),
        "requires": ("", "  0 [+1]  UInt  a\n    [requires: this == b]\n", "a"),
    }
    for kd, (pre, a_decl, a_ref) in kinds.items():
        if a_ref is not None:
            cases["edge-through-%s:cycle" % kd] = (pre + "struct Foo:\n" + a_decl + "  %s [+1]  UInt  b\n" % a_ref, kd != "requires")
        cases["edge-through-%s:acyclic" % kd] = (pre + "struct Foo:\n" + a_decl + "  4 [+1]  UInt  b\n", False)
    cases["type-argument-self-loop"] = (PAR + "struct Foo:\n  0 [+1]  Par(a.q)  a\n", True)
    # import graphs (several files): a cycle among imports - including a module that imports ITSELF - is rejected
    HDR = '[$default byte_order: "LittleEndian"]\n'
    ST = "struct S%s:\n  0 [+1]  UInt  x\n"
    imports = {
        "import-chain-acyclic": ({"w.emb": 'import "a.emb" as a\n' + ST % "w", "a.emb": 'import "b.emb" as b\n' + ST % "a", "b.emb": ST % "b"}, False),
        "import-diamond-acyclic": ({"w.emb": 'import "a.emb" as a\nimport "b.emb" as b\n' + ST % "w", "a.emb": 'import "c.emb" as c\n' + ST % "a", "b.emb": 'import "c.emb" as c\n' + ST % "b", "c.emb": ST % "c"}, False),
        "import-two-cycle": ({"w.emb": 'import "a.emb" as a\n' + ST % "w", "a.emb": 'import "w.emb" as w\n' + ST % "a"}, True),
        "import-three-cycle-off-the-root": ({"w.emb": 'import "a.emb" as a\n' + ST % "w", "a.emb": 'import "b.emb" as b\n' + ST % "a", "b.emb": 'import "c.emb" as c\n' + ST % "b", "c.emb": 'import "a.emb" as a\n' + ST % "c"}, True),
        "import-self-root": ({"w.emb": 'import "w.emb" as me\n' + ST % "w"}, True),
        "import-self-leaf": ({"w.emb": 'import "a.emb" as a\n' + ST % "w", "a.emb": 'import "a.emb" as me\n' + ST % "a"}, True),
        "import-self-plus-acyclic": ({"w.emb": 'import "w.emb" as me\nimport "a.emb" as a\n' + ST % "w", "a.emb": ST % "a"}, True),
    }
    bad = None
    for nm, (files, cyc) in imports.items():
        files = {k: HDR + v if not v.startswith("import") else "\n".join([l for l in v.split("\n") if l.startswith("import")]) + "\n" + HDR + "\n".join([l for l in v.split("\n") if not l.startswith("import")]) for k, v in files.items()}
        try:
            ir, debug, errors = glue.parse_emboss_file("w.emb", glue_reader(files))
            has = any("ependency cycle" in m.message for g in errors for m in g)
        except BaseException as ex:
            if bad is None:
                bad = {"case": nm, "files": files, "expected": cyc, "exception": "%s: %s" % (type(ex).__name__, str(ex)[:200])}
            continue
        if has != cyc and bad is None:
            bad = {"case": nm, "files": files, "cycle_error_reported": has, "expected": cyc, "errors": str([m.message for g in errors for m in g])[:300]}
    run.add(core.Obligation("bounded.front-end:import-cycle-error-iff-import-cycle[7 import graphs incl. self-imports]", core.BPASS if bad is None else core.BFAIL, "cpython", 0.0,
                            model=bad, kind="bounded", replay=None if bad is None else {"reproduced": True, "inputs": bad}))
    bad = None
    for nm, (body, cyc) in cases.items():
        src = '[$default byte_order: "LittleEndian"]\n' + body
        try:
            ir, debug, errors = glue.parse_emboss_file("w.emb", glue_reader({"w.emb": src}))
        except BaseException as ex:      # the property: a cycle is *reported*, and the compiler terminates normally either way
            if bad is None:
                bad = {"case": nm, "module": src, "expected": cyc, "exception": "%s: %s" % (type(ex).__name__, str(ex)[:200])}
            continue
        has = any("ependency cycle" in str(e) for g in errors for e in g) if errors else False
        try:
            has = any("ependency cycle" in m.message for g in errors for m in g)
        except Exception:
            pass
        if has != cyc and bad is None:
            bad = {"case": nm, "module": src, "cycle_error_reported": has, "expected": cyc, "errors": str(errors)[:300]}
    run.add(core.Obligation("bounded.front-end:cycle-error-iff-cycle[module shapes incl. every reference position]", core.BPASS if bad is None else core.BFAIL, "cpython", 0.0,
                            model=bad, kind="bounded", replay=None if bad is None else {"reproduced": True, "inputs": bad}))
    return len(cases) + len(imports), len(cases) + len(imports)


def main(args):
    run = core.Run("C15", args.tier, "exploration", "./check C15 --tier " + args.tier)
    dc = importlib.import_module("compiler.front_end.dependency_checker")
    ir_data = importlib.import_module("compiler.util.ir_data")
    ir_util = importlib.import_module("compiler.util.ir_util")
    from contracts.bounds import _Reader
    rng = random.Random(run.seed)
    e1, n1 = check_find_cycles(run, dc, args.tier, rng)
    e2, n2 = check_ordering(run, dc, ir_data, ir_util, args.tier)
    e3, n3 = check_modules(run, _Reader)
    # E1 (proof part): one round of the greedy scan of _find_dependency_ordering_for_fields_in_structure
    from vlib import pool
    n0 = len(run.obligations)
    pool.run_targets(run, "contracts.deporder", ["round"])
    bounded_order = [o for o in run.obligations[:n0] if o.name.startswith("bounded.dependency-order")]
    failing = next((o for o in bounded_order if o.verdict == core.BFAIL), None)
    for ob in run.obligations[n0:]:
        if ob.verdict == core.REFUTED:
            if failing is not None:
                ob.replay = {"reproduced": True, "inputs": failing.model}
            else:
                # the step contract (first ready field in source order) is one scheme among those the property allows; with every
                # DAG on <= 4 fields still ordered as the property demands this is a changed scheme, not a violation: undecided
                ob.replay = {"reproduced": False, "note": "every DAG on <= 4 fields is still ordered as the property demands"}
                ob.verdict = core.UNKNOWN
    # E1, second batch: how the graphs are built and how cycles are reported (contracts/depgraph.py)
    n1_ = len(run.obligations)
    pool.run_targets(run, "contracts.depgraph", ["_find_module_import_dependencies", "dependency_edges", "cycle_reports", "dependency_wiring"])
    bad_front = next((o for o in run.obligations[:n0] if o.verdict == core.BFAIL and o.name.startswith("bounded.front-end")), None)
    for ob in run.obligations[n1_:]:
        if ob.verdict == core.REFUTED and ob.replay is None and bad_front is not None:
            ob.replay = {"reproduced": True, "inputs": bad_front.model, "note": "failing module(s) of the bounded front-end part of the same run"}
        elif ob.verdict == core.REFUTED and ob.name.startswith("dependency_wiring") and not any(o.verdict == core.BFAIL for o in run.obligations[:n0]):
            # the wiring contract pins ONE traversal scheme (skip lists, incidental actions); with every bounded scenario (incl. every
            # reference position) still decided as the property demands this is a changed scheme, not a violation: undecided
            ob.replay = {"reproduced": False, "note": "every bounded scenario still behaves as the property demands"}
            ob.verdict = core.UNKNOWN
    for fn, how in [("_find_module_import_dependencies", "1463 import graphs (<= 3 modules incl. the prelude, each importing any <= 2 of 4 files): node per module, edge per import INCLUDING self-imports; only the prelude's automatic self-import is left out"),
                    ("_add_name_to_dependencies", "the field / enum value / parameter becomes a node, edges recorded earlier are kept, the node is passed on as the current name"),
                    ("_add_reference_to_dependencies", "edge to the referenced object (same or other module); $is_statically_sized / $static_size_in_bits / $next here: one error, no edge; other nodes untouched"),
                    ("_add_field_reference_to_dependencies", "edge to the HEAD of a field path of length 1-3 only; earlier edges kept; other nodes untouched"),
                    ("_find_object_dependency_cycles", "over the callee contracts of _find_dependencies / _find_cycles / find_object: construction errors returned as they are; else exactly one error group per cycle (none dropped, self-loops included), naming every member, error first then notes, sorted"),
                    ("_find_module_dependency_cycles", "same, for import cycles"),
                    ("find_dependency_cycles", "module-cycle errors followed by object-cycle errors; empty iff neither reports a cycle"),
                    ("_find_dependencies", "over the (assumed) contract of traverse_ir: every Field / EnumValue / RuntimeParameter is a node in both traversals; plain references are edges except below AtomicType / Attribute / FieldReference; field-reference heads are edges except below Attribute (so type arguments count); one shared graph"),
                    ("_find_dependency_ordering_for_fields", "field-reference edges are collected as above, then every Structure is ordered with them"),
                    ("set_dependency_order", "orders the fields of the given IR, reports no error")]:
        run.function("compiler.front_end.dependency_checker." + fn, "pyvc: " + how)
    run.assume("dependency graph construction (contracts/depgraph.py): hashable_form_of_reference is (module_file,) + object_path of the ghost canonical name; error.error / error.note are tagged tuples; which IR nodes the edge functions are applied to "
               "(the two traversals of _find_dependencies with their skip lists) is covered by the bounded every-reference-position modules only; _find_cycles is a callee contract here and a bounded comparison elsewhere")
    run.function("compiler.front_end.dependency_checker._find_dependency_ordering_for_fields_in_structure",
                 "pyvc: one round of its while-True scan from any state (n <= 4 fields, any subset placed, 0-2 symbolic dependencies per remaining field): appends the first remaining field whose dependencies are all added, "
                 "updates order/added/needed exactly, leaves the loop only when no remaining field is ready")
    run.assume(*core.STANDING_ASSUMPTIONS["E1"])
    run.assume("dependency ordering: the induction over rounds (permutation, dependencies first, source order kept when it is valid, termination since `needed` shrinks) is a paper step over the round contract; "
               "field references are compared through ir_util.hashable_form_of_reference (abstracted as an injective id)")
    run.bounded.append({"what": "bounded stand-in (E3): exhaustive small scopes, see rule", "evaluations": e1 + e2 + e3, "distinct_nontrivial": n1 + n2 + n3})
    run.extra["rule"] = ("every digraph on <=4 labelled nodes and seeded random digraphs on 5..9 nodes (non-trivial: has a cycle); every DAG on <=4 fields x "
                         "parameter dependencies (non-trivial: has an edge); 10 module shapes through the real front end")
    run.extra["exhaustive"] = False
    for f in ("_find_cycles", "_find_dependency_ordering_for_fields_in_structure"):
        run.function("compiler.front_end.dependency_checker." + f, "contract with spec function checked on an exhaustively enumerated small scope (bounded, not proved)")
    run.assume(*core.STANDING_ASSUMPTIONS["E3"])
    run.assume("termination on cyclic input is observed on the enumerated inputs, not proved")
    run.trust("CPython")
    return run.finish()
