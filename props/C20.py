"""C20 - CopyFrom and Equals implement logical copy and logical equality.

E2a: ContiguousBuffer::TryToCopyFrom with possibly overlapping regions (memmove semantics).
E2b: for each corpus structure, two views: Equals <=> same presence and equal values of every present
physical field (hence insensitive to bytes no field covers, symmetric); TryToCopyFrom succeeds iff the
source is Ok and the destination can hold its size, copies exactly the source's pre-state bytes, leaves
bytes past the size untouched, and the destination is then Ok and Equals the source; the overlapping
variant (both views in one buffer) behaves like memmove."""
import json
import os
import shutil

from vlib import core
from vlib.llvc import corpus, harness, viewcheck
from corpus import specs

STRUCTS = [n for n, s in specs.ALL.items() if getattr(s, "c20", True)]


def main(args):
    run = core.Run("C20", args.tier, "translation_validation", "./check C20 --tier " + args.tier)
    cdir = os.path.join(core.VERIF, "corpus")
    inc = corpus.generate_headers(sorted({specs.ALL[n].emb for n in STRUCTS}), cdir)
    try:
        from contracts import cpp_array
        jobs = corpus.c20_jobs("corpus.specs", STRUCTS, inc) + cpp_array.jobs(args.tier)
        idx = viewcheck.wrapper_index(jobs)
        if args.replay:
            d = json.load(open(args.replay))
            print(json.dumps(viewcheck.replay_obligation(core.Obligation(d["obligation"], d["verdict"], model=d.get("model")), idx), indent=1, default=str))
            return 0
        harness.run_jobs(run, jobs)
        n = 0
        for ob in run.obligations:
            if ob.verdict == core.REFUTED and n < 8:
                ob.replay = viewcheck.replay_obligation(ob, idx)
                n += 1
    finally:
        shutil.rmtree(inc, ignore_errors=True)
    run.extra.update({"programs": len(STRUCTS), "disagreements_checked": sum(1 for o in run.obligations if o.verdict == core.REFUTED),
                      "structures": STRUCTS,
                      "not_covered": ["programs outside the corpus", "array fields of generated structures (the array template itself is under contract with a harness element view)", "nested structures"]})
    for s in STRUCTS:
        run.function("generated %sView::{Equals,TryToCopyFrom} (%s)" % (s, specs.ALL[s].emb), "llvc: generated header vs reference semantics, all pairs of buffers")
    run.function("emboss::support::GenericArrayView::{Equals,UncheckedEquals,Ok,ElementCount}", "llvc: real template over a harness element view with padding bits (contracts/cpp_array.py): Equals <=> same count and element-wise equal fields, arrays of <= 6 elements")
    run.function("emboss::support::ContiguousBuffer::TryToCopyFrom", "llvc (inlined into the generated TryToCopyFrom; memmove modelled with pre-state reads)")
    run.assume(*core.STANDING_ASSUMPTIONS["E2"])
    run.assume("the hand-written reference semantics (corpus/specs.py) is the oracle", "parameter values lie within their declared type")
    run.trust("clang++ 14", "z3 5.1.0", "llvc", "corpus/specs.py")
    return run.finish()
