"""C01 - generated views report structure state and values exactly as the .emb defines (E2b corpus).

For every corpus structure the header generated in this run is verified, for ALL buffers (pointer,
length, contents) and parameter values, against a hand-written reference semantics."""
import json
import shutil

from vlib import core
from vlib.llvc import corpus, harness, viewcheck
from corpus import specs


def main(args):
    run = core.Run("C01", args.tier, "translation_validation", "./check C01 --tier " + args.tier)
    import os
    cdir = os.path.join(core.VERIF, "corpus")
    embs = sorted({s.emb for s in specs.ALL.values()})
    inc = corpus.generate_headers(embs, cdir)
    try:
        from contracts import cpp_arith, cpp_array
        jobs = corpus.read_jobs("corpus.specs", list(specs.ALL), inc) + cpp_arith.jobs(args.tier) + cpp_array.jobs(args.tier)
        idx = viewcheck.wrapper_index(jobs)
        if args.replay:
            d = json.load(open(args.replay))
            ob = core.Obligation(d["obligation"], d["verdict"], model=d.get("model"))
            print(json.dumps(viewcheck.replay_obligation(ob, idx), indent=1, default=str))
            return 0
        harness.run_jobs(run, jobs)
        n = 0
        for ob in run.obligations:
            if ob.verdict == core.REFUTED and n < 8:
                ob.replay = viewcheck.replay_obligation(ob, idx)
                n += 1
    finally:
        shutil.rmtree(inc, ignore_errors=True)
    # E1: the generator's choice of IntermediateT / ResultT / ArgTs for every built-in operation (the link between the
    # bounds pass and the `requires` of the arithmetic templates)
    from vlib import pool
    from contracts import gate
    n0 = len(run.obligations)
    pool.run_targets(run, "contracts.gate", ["_render_builtin_operation", "_cpp_integer_type_for_range"])
    for ob in run.obligations[n0:]:
        if ob.verdict == core.REFUTED and ob.name.startswith("_render_builtin_operation"):
            ob.replay = gate.replay_render_builtin_operation(ob.name, ob.model)
    run.function("emboss::support::{Sum,Difference,Product,Equal,NotEqual,LessThan,LessThanOrEqual,GreaterThan,GreaterThanOrEqual,And,Or,Choice,Maximum,MaybeStaticCast,MaybeDo}",
                 "llvc: every instantiation over {int32,uint32,int64,uint64}^k the generator can name, against the exact mathematical result (contracts/cpp_arith.py)")
    run.function("emboss::support::GenericArrayView::{Ok,IsComplete,ElementCount,Equals,UncheckedEquals,operator[]}", "llvc: real template over a harness element view (contracts/cpp_array.py), arrays of <= 6 elements")
    run.function("compiler.back_end.cpp.header_generator._render_builtin_operation", "pyvc: IntermediateT holds the bounds of the result and of every integer operand; ResultT/ArgTs/operand order")
    run.function("compiler.back_end.cpp.header_generator._cpp_integer_type_for_range", "pyvc: first of int32,uint32,int64,uint64 whose range contains the bounds")
    run.extra["programs"] = len(specs.ALL)
    run.extra["disagreements_checked"] = sum(1 for o in run.obligations if o.verdict == core.REFUTED)
    run.extra["corpus_files"] = embs
    run.extra["structures"] = sorted(specs.ALL)
    run.extra["not_covered"] = ["programs outside the corpus (the generator is string templating; the forall-programs statement is not claimed)",
                                "array element values and array Ok() (structure-level completeness is observed)", "prefix monotonicity (not yet built)"]
    for s in specs.ALL:
        run.function("generated view of corpus structure %s (%s)" % (s, specs.ALL[s].emb), "llvc: header generated in this run vs hand-written reference semantics, all buffers")
    run.assume(*core.STANDING_ASSUMPTIONS["E2"])
    run.assume(*core.STANDING_ASSUMPTIONS["E1"])
    run.assume("arithmetic templates: the `requires` (operands and exact result within IntermediateT/ResultT) is supplied by C05 soundness + the 64-bit gate + "
               "_render_builtin_operation's choice (each proved separately; their composition is a paper step)")
    run.assume("the hand-written reference semantics of each corpus structure (corpus/specs.py) is the oracle",
               "reference arithmetic is 64-bit two's complement; that no intermediate leaves 64 bits is the compiler's gate (C04 layer 2)",
               "parameter values lie within their declared Emboss type")
    run.trust("clang++ 14", "z3 5.1.0", "llvc", "corpus/specs.py")
    return run.finish()
