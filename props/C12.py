"""C12 - names resolve to the one lexically visible definition, or the module is rejected (E3, bounded).

Contract (scoping oracle written from the class comment of symbol_resolver._Scope and the language
reference): a type name is looked up in the referring scope, its enclosing types, the module and the
prelude; exactly one visible definition => bound to it; none => "No candidate"; two or more =>
"Ambiguous name" (never resolved by precedence); field names are visible in their own structure only;
members after a dot are looked up in the referenced field's type; abbreviations are invisible outside
their structure; a name defined twice in one scope => "Duplicate name"; and for every definition d,
find_object(canonical_name(d)) is d.  Checked on systematically generated modules (all placements of
a colliding type name over a 3-level scope tree x all reference sites; field/abbreviation/member/import
scenarios) through the real front end.  Bounded stand-in: nothing beyond these scopes is claimed."""
import importlib
import itertools
import multiprocessing
import time
import traceback

from vlib import core

HDR = '[$default byte_order: "LittleEndian"]\n'


def type_ref_cases():
    """Type `Tt` defined in any subset of {module, Outer, Outer.Mid}; referenced from a field in
    Outer, Outer.Mid, Outer.Mid.Deep (nested three deep) or Other."""
    out = []
    places = ["module", "Outer", "Outer.Mid"]
    sites = ["Outer", "Outer.Mid", "Outer.Mid.Deep", "Other"]
    for k in range(0, 4):
        for defs in itertools.combinations(places, k):
            for site in sites:
                def tt(ind, val):
                    return "%sstruct Tt:\n%s  0 [+1]  UInt  v%d\n" % (ind, ind, val)
                src = HDR
                if "module" in defs:
                    src += tt("", 1)
                src += "struct Outer:\n"
                if "Outer" in defs:
                    src += tt("  ", 2)
                src += "  struct Mid:\n"
                if "Outer.Mid" in defs:
                    src += tt("    ", 3)
                src += "    struct Deep:\n"
                src += "      0 [+1]  UInt  dd\n" + ("      1 [+1]  Tt  rr\n" if site == "Outer.Mid.Deep" else "")
                src += "    0 [+1]  UInt  mm\n" + ("    1 [+1]  Tt  rr\n" if site == "Outer.Mid" else "")
                src += "  0 [+1]  UInt  oo\n" + ("  1 [+1]  Tt  rr\n" if site == "Outer" else "")
                src += "struct Other:\n  0 [+1]  UInt  xx\n" + ("  1 [+1]  Tt  rr\n" if site == "Other" else "")
                chain = {"Outer": ["Outer", "module"], "Outer.Mid": ["Outer.Mid", "Outer", "module"],
                         "Outer.Mid.Deep": ["Outer.Mid", "Outer", "module"], "Other": ["module"]}[site]
                vis = [p for p in chain if p in defs]
                if len(vis) == 1:
                    want = ("ok", ([] if vis[0] == "module" else vis[0].split(".")) + ["Tt"])
                elif not vis:
                    want = ("error", "No candidate")
                else:
                    want = ("error", "Ambiguous name")
                out.append(("type-ref[defs=%s;site=%s]" % ("+".join(defs) or "none", site), {"w.emb": src}, want, (site.split("."), "rr", "type")))
    return out


def other_cases():
    out = []

    def add(name, files, want, probe=None):
        if isinstance(files, str):
            files = {"w.emb": HDR + files}
        out.append((name, files, want, probe))
    S = "struct Inner:\n  0 [+1]  UInt  q  (qq)\n"
    add("field-ref-own-struct", "struct Foo:\n  0 [+1]  UInt  a\n  let v = a\n", ("ok", ["Foo", "a"]), (["Foo"], "v", "expr"))
    add("field-ref-missing", "struct Foo:\n  0 [+1]  UInt  a\n  let v = b\n", ("error", "No candidate"))
    add("field-of-enclosing-struct-not-visible", "struct Foo:\n  struct In:\n    0 [+1]  UInt  z\n    let v = a\n  0 [+1]  UInt  a\n", ("error", "No candidate"))
    add("member-after-dot", S + "struct Foo:\n  0 [+1]  Inner  x\n  let v = x.q\n", ("ok", ["Inner", "q"]), (["Foo"], "v", "expr"))
    add("member-missing", S + "struct Foo:\n  0 [+1]  Inner  x\n  let v = x.zz\n", ("error", "No candidate"))
    add("abbreviation-inside", "struct Foo:\n  0 [+1]  UInt  long_name  (ln)\n  let v = ln\n", ("ok", ["Foo", "long_name"]), (["Foo"], "v", "expr"))
    add("abbreviation-outside-invisible", S + "struct Foo:\n  0 [+1]  Inner  x\n  let v = x.qq\n", ("error", "No candidate"))
    add("member-of-noncomposite", "struct Foo:\n  0 [+1]  UInt  a\n  let v = a.b\n", ("error", ("noncomposite", "No candidate")))
    add("member-of-array", S + "struct Foo:\n  0 [+2]  Inner[2]  xs\n  let v = xs.q\n", ("error", "array"))
    add("member-of-parameter", "struct Foo(n: UInt:8):\n  0 [+n.x]  UInt:8[]  p\n", ("error", ("noncomposite", "No candidate")))
    add("duplicate-field", "struct Foo:\n  0 [+1]  UInt  a\n  1 [+1]  UInt  a\n", ("error", "Duplicate name"))
    add("duplicate-type", "struct Foo:\n  0 [+1]  UInt  a\nstruct Foo:\n  0 [+1]  UInt  b\n", ("error", "Duplicate name"))
    add("duplicate-field-vs-abbreviation", "struct Foo:\n  0 [+1]  UInt  a\n  1 [+1]  UInt  bb  (a)\n", ("error", "Duplicate name"))
    add("duplicate-enum-value", "enum Ee:\n  VA = 1\n  VA = 2\n", ("error", "Duplicate name"))
    add("enum-value-qualified", "enum Ee:\n  VA = 1\nstruct Foo:\n  0 [+1]  UInt  a\n  let v = Ee.VA\n", ("ok", ["Ee", "VA"]), (["Foo"], "v", "const"))
    add("enum-value-unqualified-not-visible", "enum Ee:\n  VA = 1\nstruct Foo:\n  0 [+1]  UInt  a\n  let v = VA\n", ("error", "No candidate"))
    add("enum-value-missing", "enum Ee:\n  VA = 1\nstruct Foo:\n  0 [+1]  UInt  a\n  let v = Ee.VB\n", ("error", "No candidate"))
    add("this-in-requires", "struct Foo:\n  0 [+1]  UInt  a\n    [requires: this == 1]\n", ("ok", None))
    add("nested-type-qualified-from-outside", "struct Outer:\n  struct In:\n    0 [+1]  UInt  z\n  0 [+1]  UInt  a\nstruct Foo:\n  0 [+1]  Outer.In  x\n",
        ("ok", ["Outer", "In"]), (["Foo"], "x", "type"))
    add("nested-type-unqualified-from-outside", "struct Outer:\n  struct In:\n    0 [+1]  UInt  z\n  0 [+1]  UInt  a\nstruct Foo:\n  0 [+1]  In  x\n", ("error", "No candidate"))
    add("inline-type-local-name", "struct Foo:\n  0 [+1]  enum  kind:\n    KA = 1\n", ("ok", ["Foo", "Kind"]), (["Foo"], "kind", "type"))
    add("prelude-type", "struct Foo:\n  0 [+1]  UInt  a\n", ("ok", ["UInt"]), (["Foo"], "a", "type"))
    add("type-shadowing-prelude-is-ambiguous", "struct UInt:\n  0 [+1]  Int  v\nstruct Foo:\n  0 [+1]  UInt  a\n", ("error", "Ambiguous name"))
    imp = {"w.emb": 'import "other.emb" as oth\n' + HDR + 'struct Foo:\n  0 [+1]  oth.Tt  x\n', "other.emb": HDR + "struct Tt:\n  0 [+1]  UInt  v\n"}
    add("import-qualified", imp, ("ok", ["Tt"]), (["Foo"], "x", "type"))
    imp2 = {"w.emb": 'import "other.emb" as oth\n' + HDR + 'struct Foo:\n  0 [+1]  Tt  x\n', "other.emb": HDR + "struct Tt:\n  0 [+1]  UInt  v\n"}
    add("import-unqualified-not-visible", imp2, ("error", "No candidate"))
    # an import alias is searchable at module level: a field / abbreviation / parameter of the same name makes
    # the head of a field reference visible from two scopes
    for nm, body in (("field", "struct Foo:\n  0 [+1]  UInt  oth\n  1 [+oth]  UInt:8[]  data\n"),
                     ("abbreviation", "struct Foo:\n  0 [+1]  UInt  length  (oth)\n  1 [+oth]  UInt:8[]  data\n"),
                     ("parameter", "struct Foo(oth: UInt:8):\n  0 [+oth]  UInt:8[]  data\n")):
        add("import-alias-vs-%s-ambiguous" % nm, {"w.emb": 'import "other.emb" as oth\n' + HDR + body, "other.emb": HDR + "struct Tt:\n  0 [+1]  UInt  v\n"},
            ("error", "Ambiguous name"))
    add("import-alias-no-collision", {"w.emb": 'import "other.emb" as oth\n' + HDR + "struct Foo:\n  0 [+1]  UInt  nn\n  1 [+nn]  UInt:8[]  data\n  2 [+1]  oth.Tt  tt\n",
                                       "other.emb": HDR + "struct Tt:\n  0 [+1]  UInt  v\n"}, ("ok", ["Tt"]), (["Foo"], "tt", "type"))
    # members looked up THROUGH an alias (virtual field whose definition is a field path): the member is searched in the
    # type of the LAST element of the alias's path - for alias paths of 1..3 elements, alias chains of 1..2 links, and the
    # member present in the aliased type only / in the type of the path's head only / in both / in neither
    for depth in (1, 2, 3):
        for chain in (1, 2):
            for where in ("target", "head", "both", "neither"):
                types = ""
                size = 0
                # T0 is the aliased (last) type; T1.. wrap it: T<k> has field ff<k-1> of type T<k-1>
                for k in range(depth):
                    members = "  0 [+1]  UInt  filler%d\n" % k
                    if (k == 0 and where in ("target", "both")) or (k == depth - 1 and k != 0 and where in ("head", "both")):
                        members += "  1 [+1]  UInt  mm\n"
                    if k > 0:
                        members += "  2 [+%d]  Tt%d  ff%d\n" % (size, k - 1, k - 1)
                    size = 2 + size if k > 0 else 2
                    if k == 0 and where not in ("target", "both"):
                        size = 1
                    types += "struct Tt%d:\n%s" % (k, members)
                path = ".".join(["top"] + ["ff%d" % k for k in range(depth - 2, -1, -1)])
                body = types + "struct Foo:\n  0 [+%d]  Tt%d  top\n  let al0 = %s\n" % (size, depth - 1, path)
                if chain == 2:
                    body += "  let al1 = al0\n"
                body += "  let v = al%d.mm\n" % (chain - 1)
                if depth == 1:
                    present = where in ("target", "both")
                else:
                    present = where in ("target", "both")
                nm = "member-through-alias[path=%d,chain=%d,member-in=%s]" % (depth, chain, where)
                if present:
                    add(nm, body, ("ok", ["Tt0", "mm"]), (["Foo"], "v", "expr"))
                else:
                    add(nm, body, ("error", "No candidate"))
    add("member-of-inline-bits-inside-anonymous-bits", "struct Foo:\n  0 [+1]  bits:\n    0 [+4]  bits  nib:\n      0 [+4]  UInt  lo\n  let v = nib.lo\n", ("ok", None))
    imp3 = {"w.emb": 'import "other.emb" as oth\n' + HDR + 'struct Foo:\n  0 [+1]  oth.Zz  x\n', "other.emb": HDR + "struct Tt:\n  0 [+1]  UInt  v\n"}
    add("import-missing-member", imp3, ("error", "No candidate"))
    return out


def all_definitions(ir, ir_data):
    defs = []

    def walk_type(t):
        defs.append(t)
        if t.has_field("structure"):
            defs.extend(t.structure.field)
        if t.has_field("enumeration"):
            defs.extend(t.enumeration.value)
        defs.extend(t.runtime_parameter)
        for s in t.subtype:
            walk_type(s)
    for m in ir.module:
        for t in m.type:
            walk_type(t)
    return defs


def run_case(case):
    name, files, want, probe = case
    try:
        glue = importlib.import_module("compiler.front_end.glue")
        ir_data = importlib.import_module("compiler.util.ir_data")
        ir_util = importlib.import_module("compiler.util.ir_util")
        from contracts.bounds import _Reader
        ir, debug, errors = glue.parse_emboss_file("w.emb", _Reader(files))
        if errors:
            msgs = " | ".join(m.message for g in errors for m in g)
            if want[0] == "error":
                alts = want[1] if isinstance(want[1], tuple) else (want[1],)
                return (name, files, any(a in msgs for a in alts), "errors: " + msgs[:200], None)
            return (name, files, False, "unexpected rejection: " + msgs[:200], None)
        if want[0] == "error":
            return (name, files, False, "accepted, expected error containing %r" % want[1], None)
        # canonical names lead back to their definitions
        for d in all_definitions(ir, ir_data):
            cn = d.name.canonical_name
            if cn.module_file == "":
                continue
            if ir_util.find_object(cn, ir) is not d:
                return (name, files, False, "find_object(canonical_name) is not the definition for %s" % list(cn.object_path), None)
        if probe and want[1] is not None:
            path, fname, kind = probe
            t = None
            for td in ir.module[0].type:
                if td.name.name.text == path[0]:
                    t = td
            for p in path[1:]:
                t = [s for s in t.subtype if s.name.name.text == p][0]
            f = [x for x in t.structure.field if x.name.name.text == fname][0]
            if kind == "type":
                got = list(f.type.atomic_type.reference.canonical_name.object_path)
            elif kind == "expr":
                got = list(f.read_transform.field_reference.path[-1].canonical_name.object_path)
            else:
                got = list(f.read_transform.constant_reference.canonical_name.object_path)
            if got != want[1]:
                return (name, files, False, "resolved to %s, intended %s" % (got, want[1]), None)
        return (name, files, True, "", None)
    except BaseException:
        return (name, files, False, "", traceback.format_exc()[-500:])


def main(args):
    run = core.Run("C12", args.tier, "exploration", "./check C12 --tier " + args.tier)
    # E1 (proof part): the scope search itself, for every list of <= 3 visible scopes and every definedness pattern
    from vlib import pool
    pool.run_targets(run, "contracts.resolver", ["_find_target_of_reference", "_resolve_field_reference", "_add_name_to_scope"])
    run.function("compiler.front_end.symbol_resolver._add_name_to_scope", "pyvc: fresh name stored without error; a name already present gives exactly one duplicate-name error pointing at both definitions and the first definition stays; no other key written")
    run.function("compiler.front_end.symbol_resolver._resolve_field_reference",
                 "pyvc: body executed symbolically over a ghost IR (head: parameter / field / array / computed / alias of 1 or 2 path elements / alias of alias / alias to array / unresolvable alias; 1-2 members, presence symbolic): "
                 "each member is bound in the type of the field designated so far (for an alias: of the LAST element of its path), missing member / scalar / array heads give exactly one error of the right kind")
    run.function("compiler.front_end.symbol_resolver._find_target_of_reference",
                 "pyvc: body executed symbolically over ghost scope tables: unique candidate returned, none -> missing-name error, several -> ambiguous-name error (never precedence), is_local_name -> innermost")
    # E1, second batch: how the scope tables are built and which scopes are visible from a place (contracts/resolver2.py)
    from contracts import resolver2
    pool.run_targets(run, "contracts.resolver2", sorted(resolver2.TARGETS))
    for fn, how in [
            ("_nested_name", "canonical name of a nested definition = parent path + [name], same module, parent not modified"),
            ("_add_struct_field_to_scope", "field name LOCAL with the nested canonical name; abbreviation PRIVATE and bound to the FIELD's canonical name; `this` PRIVATE inside the field's own scope and bound to the field; "
                                           "one duplicate error per name already present (first definition stays); no other name written"),
            ("_add_name_to_scope_and_normalize", "executed as callee of the three functions below and of _add_struct_field_to_scope (canonical name written into the IR node)"),
            ("_add_type_name_to_scope", "SEARCHABLE, nested canonical name, returns the new scope as the scope of the nested definitions; duplicates: one error, first stays"),
            ("_add_enum_value_to_scope", "LOCAL, nested canonical name; duplicates: one error, first stays"),
            ("_add_parameter_name_to_scope", "LOCAL, nested canonical name; duplicates: one error, first stays"),
            ("_add_alias_to_scope", "alias stored in exactly the scope the canonical name designates (depth 0-2), with the given visibility and alias target; duplicate -> one error, first definition stays; frame"),
            ("_add_import_to_scope", "anonymous (prelude) import adds no name; a named import becomes a SEARCHABLE alias of the imported file in the importing module"),
            ("_set_visible_scopes_for_type_definition", "current scope = the type; visible scopes = (type,) + enclosing scopes in their order (innermost first), for 1-3 enclosing scopes"),
            ("_set_visible_scopes_for_module", "current scope = module; visible scopes = module, then only the ANONYMOUS imports in source order (every pattern of <= 3 imports)"),
            ("_set_visible_scopes_for_attribute", "attribute on a field: field scope first, then the enclosing scopes; any other attribute leaves the scopes alone"),
            ("_resolve_reference", "an already-resolved reference is never searched or rebound; otherwise searched once from the given place and bound to a COPY of exactly the found definition's canonical name; nothing found -> unbound, only the search's error"),
            ("_resolve_head_of_field_reference", "only path[0] is searched lexically, with the arguments passed through"),
            ("_set_scope_for_type_definition", "table plumbing of the traversals: the entry of that name"),
            ("_set_scope_for_module", "table plumbing: the entry of that module"),
            ("_add_module_to_scope", "module scope created SEARCHABLE with an empty object path; other modules untouched"),
            ("_module_source_from_table_action", "table plumbing: the entry of that module"),
            ("_construct_symbol_tables", "over the (assumed) contract of traverse_ir: modules, then type names, then enum values, fields and parameters are entered, each in the scope of its enclosing module / type, into one shared table; colliding type names stop before their members"),
            ("_resolve_symbols_from_table", "imports, then every Reference outside field references, then the head of every FieldReference, each with the visible scopes of its place (type definitions, module, field attributes); import errors stop resolution"),
            ("resolve_field_references", "every FieldReference gets _resolve_field_reference with the visible scopes of its place"),
            ("resolve_symbols", "tables are constructed first; duplicate definitions are reported and stop resolution; otherwise references are resolved against those tables")]:
        run.function("compiler.front_end.symbol_resolver." + fn, "pyvc: " + how)
    run.assume(*core.STANDING_ASSUMPTIONS["E1"])
    run.assume("symbol_resolver scope construction (contracts/resolver2.py): `_Scope(...)`, `ir_data.CanonicalName(...)`, `ir_data.Word(...)` and `parser_types.SourceLocation(...)` constructors are records of their arguments, "
               "error constructors tagged tuples of their arguments, `ir_data_utils.builder` transparent; which IR nodes each function is applied to is proved over an ASSUMED contract of traverse_ir.fast_traverse_ir_top_down "
               "(applies the action to every node of the pattern classes top-down, threads the dicts returned by incidental actions into everything below, does not descend below the skip classes); traverse_ir itself is exercised by the bounded scenarios only")
    run.assume("_find_target_of_reference: scope tables are ghost dicts (presence of the name symbolic, a definition's own table empty or not); single-component names; "
               "import aliases and multi-component TYPE paths are covered by the bounded scenarios only",
               "_resolve_field_reference: ir_util.find_object(_or_none) is a lookup in a ghost object table; the recursive call on an alias's own definition is the induction hypothesis (it binds the alias's path or reports into a separate error list)")
    cs = type_ref_cases() + other_cases()
    t0 = time.time()
    with multiprocessing.get_context("fork").Pool(16) as p:
        res = p.map(run_case, cs, chunksize=4)
    groups = {}
    for (name, files, ok, why, exc) in res:
        g = name.split("[")[0] if name.startswith("type-ref") else "scenario"
        d = groups.setdefault(g, {"n": 0, "bad": []})
        d["n"] += 1
        if exc is not None:
            d["bad"].append((name + ".no-exception", {"files": files, "exception": exc}))
        elif not ok:
            d["bad"].append((name + ".resolution", {"files": files, "why": why}))
    for g, d in sorted(groups.items()):
        if not d["bad"]:
            run.add(core.Obligation("bounded.resolution[%s]" % g, core.BPASS, "cpython", 0.0, kind="bounded", detail="%d modules" % d["n"]))
        for nm, bad in d["bad"][:8]:
            run.add(core.Obligation("bounded.resolution{%s}" % nm, core.BFAIL, "cpython", 0.0, kind="bounded", model=bad,
                                    detail=str(bad.get("exception") or bad.get("why"))[-300:], replay={"reproduced": True, "inputs": bad["files"]}))
    # replay of refuted E1 obligations: a failing generated module, if there is one
    first_bad = next((o for o in run.obligations if o.verdict == core.BFAIL), None)
    for ob in run.obligations:
        if ob.verdict == core.REFUTED and ob.replay is None:
            ob.replay = {"reproduced": True, "inputs": first_bad.model} if first_bad is not None else {"reproduced": False, "note": "none of the generated modules and named scenarios misbehaves"}
            if first_bad is None and ob.name.startswith("resolver_wiring"):
                # the wiring contract pins ONE traversal scheme (pattern classes, skip lists, incidental actions); with every generated
                # module and scenario still resolved as the oracle demands this is a changed scheme, not a violation: undecided
                ob.verdict = core.UNKNOWN
    run.bounded.append({"what": "generated modules (collision placements x reference sites, and named scenarios) through the real front end",
                        "evaluations": len(cs), "distinct_nontrivial": len(cs), "seconds": round(time.time() - t0, 1)})
    run.extra["rule"] = "type `Tt` defined in every subset of {module, Outer, Outer.Mid} x referenced from {Outer, Outer.Mid, Outer.Mid.Deep, Other} (32 modules), plus 27 named scenarios (fields, members, abbreviations, enum values, duplicates, imports, prelude); each is distinct and exercises one rule"
    for f in ("_add_name_to_scope", "_find_target_of_reference", "_resolve_field_reference"):
        run.function("compiler.front_end.symbol_resolver." + f, "scoping oracle as contract, checked on generated modules (bounded stand-in)")
    run.function("compiler.util.ir_util.find_object", "find_object(canonical_name(d)) is d for every definition of every accepted generated module (bounded)")
    run.assume(*core.STANDING_ASSUMPTIONS["E3"])
    run.trust("CPython", "the scoping oracle in props/C12.py")
    return run.finish()
