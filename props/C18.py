"""C18 - the IR survives serialization; split and in-process pipelines agree (E3, schema-exhaustive, bounded).

IrDataSerializer is reflective (field specs, getattr, json): outside the E1 subset.  Its code branches
only on: value is None; spec kind (dataclass / sequence of dataclass / sequence of scalar / enum /
SourceLocation / str / int / bool); list emptiness.  The contract
      from_json(cls, to_json(x)) == x    and    to_json(from_json(cls, to_json(x))) == to_json(x)
(with the set/unset distinction checked through has_field) is run on the real serializer for EVERY IR
class and EVERY field spec in each shape class of that abstraction, children filled by induction on the
class graph (depth 2); then on the full IR of the corpus/testdata modules, where additionally
generate_header(from_json(to_json(ir))) == generate_header(ir).  Bounded: nothing beyond this is claimed."""
import dataclasses
import glob
import importlib
import os
import time

from vlib import core


def instances(cls, ir_data, ir_data_fields, parser_types, depth):
    """Yields (label, object) over the shape classes of every field of cls."""
    specs = ir_data_fields.field_specs(cls)
    yield ("empty", cls())
    for name, spec in specs.items():
        for lab, val in values_for(spec, ir_data, ir_data_fields, parser_types, depth):
            try:
                obj = cls(**{name: val})
            except Exception as e:      # constructor refuses the value: not a serializer case
                continue
            yield ("%s=%s" % (name, lab), obj)


def values_for(spec, ir_data, ir_data_fields, parser_types, depth):
    dt = spec.data_type
    if spec.is_dataclass:
        kids = [("empty-child", dt())]
        if depth > 0:
            kids += [("child:" + l, o) for (l, o) in list(instances(dt, ir_data, ir_data_fields, parser_types, depth - 1))[:40]]
        if spec.is_sequence:
            yield ("[]", [])
            for l, o in kids[:12]:
                yield ("[%s]" % l, [o])
            if len(kids) > 1:
                yield ("[two]", [kids[0][1], kids[-1][1]])
        else:
            for l, o in kids:
                yield (l, o)
        return
    if dt in (ir_data.FunctionMapping, ir_data.AddressableUnit):
        for m in dt:
            yield (m.name, m)
        return
    if dt == parser_types.SourceLocation:
        SL, SP = parser_types.SourceLocation, parser_types.SourcePosition
        for syn in (False, True):
            for dis in (False, True):
                yield ("loc(syn=%s,dis=%s)" % (syn, dis), SL(SP(1, 2), SP(3, 4), is_synthetic=syn, is_disjoint_from_parent=dis))
        yield ("loc-default", SL())
        yield ("loc-big", SL(SP(10 ** 6, 1), SP(10 ** 6 + 1, 10 ** 5)))
        return
    if spec.is_sequence:
        if dt is str:
            yield ("[]", [])
            yield ("['a']", ["a"])
            yield ("['', 'b c']", ["", "b c"])
        elif dt is int:
            yield ("[]", [])
            yield ("[0]", [0])
            yield ("[3,1,2]", [3, 1, 2])
        return
    if dt is str:
        for v in ("", "x", "-170141183460469231731687303715884105728", "340282366920938463463374607431768211455", "infinity", 'q"uo\\te\n', "é"):
            yield (repr(v)[:24], v)
    elif dt is bool:
        yield ("False", False)
        yield ("True", True)
    elif dt is int:
        for v in (0, 1, -1, 2 ** 64 + 1):
            yield (str(v), v)


def set_fields(obj, ir_data_fields):
    return sorted(n for n in ir_data_fields.field_specs(type(obj)) if obj.has_field(n)) if hasattr(obj, "has_field") else None


def main(args):
    run = core.Run("C18", args.tier, "exploration", "./check C18 --tier " + args.tier)
    ir_data = importlib.import_module("compiler.util.ir_data")
    ir_data_fields = importlib.import_module("compiler.util.ir_data_fields")
    ir_data_utils = importlib.import_module("compiler.util.ir_data_utils")
    parser_types = importlib.import_module("compiler.util.parser_types")
    S = ir_data_utils.IrDataSerializer
    # E1 (proof part): to_dict / _to_dict / fields_and_values / _from_dict / _enum_type_converter from their real source over a ghost
    # message class with every kind of field spec that exists, composed into the per-field round trip
    from vlib import pool
    from contracts import serializer as cser
    n0 = len(run.obligations)
    pool.run_targets(run, "contracts.serializer", ["round_trip", "enum_converter"])
    for o in cser.ground_obligations():
        run.add(o)
    from contracts import srcloc
    pool.run_targets(run, "contracts.srcloc", ["location_text_round_trip"])
    rp = None
    for ob in run.obligations[n0:]:
        if ob.verdict == core.REFUTED and ob.replay is None:
            if ob.name.startswith("SourceLocation."):
                ob.replay = srcloc.replay_location(ob.name, ob.model)
            else:
                rp = rp or cser.replay_round_trip(ob.name, ob.model)
                ob.replay = rp
    run.function("compiler.util.parser_types.SourceLocation.__str__ / from_str, SourcePosition.__str__ / from_str",
                 "pyvc: from_str(str(loc)) == loc for every location satisfying the class invariants (any positions, both flags), executed from the real source on piecewise strings")
    run.function("compiler.util.ir_data_utils.IrDataSerializer.to_dict", "pyvc: with exclude_none=True keeps exactly the fields that are not None and not an empty list (falsy scalars, falsy locations and enum members are kept)")
    run.function("compiler.util.ir_data_utils.IrDataSerializer._to_dict", "pyvc: value forms per field-spec kind (message, message list, SourceLocation -> str, everything else as is), keys in field order")
    run.function("compiler.util.ir_data_fields.fields_and_values", "pyvc (inlined): every spec of the node, its value, filtered by the caller's predicate")
    run.function("compiler.util.ir_data_utils.IrDataSerializer._from_dict", "pyvc: keyword arguments exactly for the keys whose value is not None, converted per field-spec kind; composed with to_dict into the round trip under the stated hypotheses")
    run.function("compiler.util.ir_data_utils.IrDataSerializer._enum_type_converter", "pyvc: by name for str, by value otherwise")
    run.assume(*core.STANDING_ASSUMPTIONS["E1"])
    run.assume("serializer round trip hypotheses: (IH) children round-trip (structural induction over the finite IR tree); (LOC) SourceLocation.from_str(str(l)) == l - proved by the SourceLocation.text-round-trip obligations (decimal rendering of non-negative ints is digits only and inverted by int(); split/strip/index as modelled by pyvc.PStr); "
               "(JSON) json.loads(json.dumps(d)) == d for str-keyed dicts of None/bool/int/str/list/dict with IntEnum members written as their integer value - CPython json trusted; "
               "bool(v)/str(v) return v for values of that type; the serializer is applied to plain IR nodes (not builder / read-only wrappers)",
               "optional fields with a non-None class default (CanonicalName.module_file = '') are never None in IR the front end produces (an explicit None there would be re-read as the default)")
    classes = [c for c in vars(ir_data).values() if isinstance(c, type) and dataclasses.is_dataclass(c) and issubclass(c, ir_data.Message) and c is not ir_data.Message]
    t0 = time.time()
    n_eval, distinct = 0, set()
    depth = 1 if args.tier == "quick" else 2
    for cls in classes:
        bad = None
        n_cls = 0
        for label, obj in instances(cls, ir_data, ir_data_fields, parser_types, depth):
            n_eval += 1
            n_cls += 1
            distinct.add((cls.__name__, label))
            try:
                js = S(obj).to_json()
                back = S.from_json(cls, js)
                js2 = S(back).to_json()
                ok = back == obj and js2 == js and set_fields(back, ir_data_fields) == set_fields(obj, ir_data_fields)
                why = None if ok else ("equal=%s json_idempotent=%s set_fields %s vs %s" % (back == obj, js2 == js, set_fields(obj, ir_data_fields), set_fields(back, ir_data_fields)))
            except Exception as e:
                ok, why, js = False, "%s: %s" % (type(e).__name__, e), None
            if not ok and bad is None:
                bad = {"class": cls.__name__, "shape": label, "json": js, "why": why}
        run.add(core.Obligation("bounded.roundtrip[%s]" % cls.__name__, core.BPASS if bad is None else core.BFAIL, "cpython", 0.0, model=bad, kind="bounded",
                                detail="%d shape instances" % n_cls, replay=None if bad is None else {"reproduced": True, "inputs": bad}))
    # SourceLocation/SourcePosition text round trip
    SL, SP = parser_types.SourceLocation, parser_types.SourcePosition
    bad = None
    cnt = 0
    for l1 in (0, 1, 7, 12345):
        for c1 in (0, 1, 80):
            for l2 in (l1, l1 + 1, l1 + 100):
                for c2 in (c1, c1 + 1, 200):
                    for syn in (False, True):
                        for dis in (False, True):
                            try:
                                x = SL(SP(l1, c1), SP(l2, c2), is_synthetic=syn, is_disjoint_from_parent=dis)
                            except AssertionError:
                                continue
                            cnt += 1
                            n_eval += 1
                            try:
                                if SL.from_str(str(x)) != x and bad is None:
                                    bad = {"location": repr(x), "text": str(x), "parsed": repr(SL.from_str(str(x)))}
                            except Exception as e:
                                if bad is None:
                                    bad = {"location": repr(x), "text": str(x), "exception": "%s: %s" % (type(e).__name__, e)}
    run.add(core.Obligation("bounded.SourceLocation.from_str(str(x))==x", core.BPASS if bad is None else core.BFAIL, "cpython", 0.0, model=bad, kind="bounded",
                            detail="%d locations" % cnt, replay=None if bad is None else {"reproduced": True, "inputs": bad}))
    # whole modules through the real front end and back end
    glue = importlib.import_module("compiler.front_end.glue")
    hg = importlib.import_module("compiler.back_end.cpp.header_generator")
    files = sorted(glob.glob(os.path.join(core.REPO, "testdata", "*.emb")))
    if args.tier == "quick":
        files = [f for f in files if os.path.basename(f) in ("condition.emb", "enum.emb", "bits.emb", "parameters.emb", "virtual_field.emb", "requires.emb",
                                                              "nested_structure.emb", "text_format.emb", "float.emb", "dynamic_size.emb", "imported_genfiles.emb")]
    files += sorted(glob.glob(os.path.join(core.VERIF, "corpus", "*.emb")))
    n_mod = 0
    for f in files:
        t1 = time.time()
        ir, debug, errors = glue.parse_emboss_file(f, glue.get_file_reader if hasattr(glue, "get_file_reader") else None) if False else glue.parse_emboss_file(
            os.path.relpath(f, core.REPO) if f.startswith(core.REPO) else f, _reader(core.REPO))
        if errors:
            continue
        n_mod += 1
        n_eval += 1
        bad = None
        try:
            js = S(ir).to_json()
            back = S.from_json(ir_data.EmbossIr, js)
            js2 = S(back).to_json()
            h1, e1 = hg.generate_header(ir)
            h2, e2 = hg.generate_header(back)
            if not (back == ir and js == js2 and h1 == h2 and not e1 and not e2):
                bad = {"module": f, "ir_equal": back == ir, "json_idempotent": js == js2, "header_equal": h1 == h2}
        except Exception as e:
            bad = {"module": f, "exception": "%s: %s" % (type(e).__name__, e)}
        distinct.add(("module", os.path.basename(f)))
        run.add(core.Obligation("bounded.module-roundtrip+same-header[%s]" % os.path.basename(f), core.BPASS if bad is None else core.BFAIL, "cpython", time.time() - t1,
                                model=bad, kind="bounded", replay=None if bad is None else {"reproduced": True, "inputs": bad}))
    run.bounded.append({"what": "schema-exhaustive shapes for %d IR classes (child depth %d) + %d whole modules" % (len(classes), depth, n_mod),
                        "evaluations": n_eval, "distinct_nontrivial": len(distinct), "seconds": round(time.time() - t0, 1)})
    run.extra["rule"] = "one case per (IR class, field, shape class: unset / falsy / non-default / each enum member / each SourceLocation flag combination / child shapes to the given depth); distinct = distinct (class, shape label) pairs and modules"
    run.extra["ir_classes"] = len(classes)
    run.function("compiler.util.ir_data_utils.IrDataSerializer.{to_json,from_json,_to_dict,_from_dict}", "round-trip contract checked on the schema-exhaustive scope (bounded)")
    run.function("compiler.util.parser_types.SourceLocation.{__str__,from_str}", "round-trip contract on a grid of locations (bounded)")
    run.assume(*core.STANDING_ASSUMPTIONS["E3"])
    run.trust("CPython json")
    return run.finish()


def _reader(root):
    def read(name):
        import importlib
        res = importlib.import_module("compiler.util.resources")
        if name == "":
            return res.load("compiler.front_end", "prelude.emb"), None
        for base in (root, ""):
            p = os.path.join(base, name)
            if os.path.exists(p):
                with open(p) as f:
                    return f.read(), None
        return None, ["file not found: " + name]
    return read
