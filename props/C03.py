"""C03 - field writes are range-checked, read back exactly, and touch only their own bits (E2a part)."""
from vlib.llvc import viewcheck

FUNCS = ["emboss::prelude::{UInt,Int,Bcd,Flag,Float}View::{CouldWriteValue,TryToWrite}", "emboss::support::EnumView::{CouldWriteValue,TryToWrite}",
         "emboss::support::OffsetBitBlock::{WriteUInt,MaskInValue}", "emboss::support::BitBlock::WriteUInt",
         "emboss::support::{Little,Big,Null}EndianByteOrderer::WriteUInt", "emboss::support::ContiguousBuffer::Write*EndianUInt",
         "emboss::support::MemoryAccessor::Write{Little,Big}EndianUInt", "BcdView::ConvertToBcd"]


def main(args):
    def keep(n):
        # functional obligations, plus the runtime's own consistency checks (EMBOSS_CHECK asserts): an operation that
        # aborts on a valid input does not deliver what the property promises (the other safety obligations belong to C04)
        return not viewcheck.SAFETY.search(n) or ".trap:assert(" in n
    from contracts import cpp_views, write_inference
    from vlib import pool, core
    if args.replay:
        import json
        d = json.load(open(args.replay))
        if d["obligation"].startswith("_invert_expression"):
            print(json.dumps(write_inference.replay(d["obligation"], d.get("model")), indent=1, default=str))
            return 0
    import os, shutil
    from vlib.llvc import corpus
    inc = corpus.generate_headers(["basic.emb"], os.path.join(core.VERIF, "corpus"))
    try:
        r = viewcheck.run("C03", args, ["UInt", "Int", "Bcd", "Flag", "Float", "Enum"], ["write"], keep=keep, enum_subset_in_quick=True, functions=FUNCS,
                          more_jobs=cpp_views.bcdwide_jobs() + corpus.vwrite_jobs("corpus.specs", inc))
    finally:
        shutil.rmtree(inc, ignore_errors=True)
    if isinstance(r, int):
        return r
    # E1: write_inference._invert_expression (alias / add-subtract virtual fields store the value that reads back v)
    n0 = len(r.obligations)
    pool.run_targets(r, "contracts.write_inference", list(write_inference.TARGETS))
    for ob in r.obligations[n0:]:
        if ob.verdict == core.REFUTED:
            ob.replay = write_inference.replay(ob.name, ob.model)
    pool.run_targets(r, "contracts.gate", ["_render_write_range_check"])
    r.function("compiler.back_end.cpp.header_generator._render_write_range_check", "pyvc: the rendered guard rejects exactly the candidates outside the virtual field's inferred bounds (for every logical type and all bounds)")
    r.function("generated write methods of corpus virtual fields (Virt.shifted: add/subtract transform, Virt.alias_x: alias)",
               "llvc: generated header vs reference semantics (stores the inverse, reads back v, frame), all buffers and all candidates of the C++ value type")
    r.function("compiler.front_end.write_inference._invert_expression", "pyvc: loop-invariant step lemma on the real loop body + whole function to depth 3")
    r.assume(*core.STANDING_ASSUMPTIONS["E1"])
    r.assume("_invert_expression: the unbounded statement is the induction over the path using the proved step lemma (paper step); ir_data constructors are modelled as record construction")
    r.extra["not_covered"] = ["BcdView stored-bits/read-back for field widths above %d bits (decimal recomposition is bit-blasting-hard; clauses not generated, not claimed)" % cpp_views.BCD_DIRECT_MAX_W,
                              "BcdView candidates outside range(ValueType) (known finding KF-C03-1: the non-template signature narrows before looking)",
                              "alias / transform virtual-field writes: corpus checks"]
    return r.finish()
