"""C03 - field writes are range-checked, read back exactly, and touch only their own bits (E2a part)."""
from vlib.llvc import viewcheck

FUNCS = ["emboss::prelude::{UInt,Int,Bcd,Flag,Float}View::{CouldWriteValue,TryToWrite}", "emboss::support::EnumView::{CouldWriteValue,TryToWrite}",
         "emboss::support::OffsetBitBlock::{WriteUInt,MaskInValue}", "emboss::support::BitBlock::WriteUInt",
         "emboss::support::{Little,Big,Null}EndianByteOrderer::WriteUInt", "emboss::support::ContiguousBuffer::Write*EndianUInt",
         "emboss::support::MemoryAccessor::Write{Little,Big}EndianUInt", "BcdView::ConvertToBcd"]


def main(args):
    def keep(n):
        return not viewcheck.SAFETY.search(n)
    from contracts import cpp_views
    r = viewcheck.run("C03", args, ["UInt", "Int", "Bcd", "Flag", "Float", "Enum"], ["write"], keep=keep, functions=FUNCS,
                      more_jobs=cpp_views.bcdwide_jobs())
    if isinstance(r, int):
        return r
    r.extra["not_covered"] = ["BcdView stored-bits/read-back for field widths above %d bits (decimal recomposition is bit-blasting-hard; clauses not generated, not claimed)" % cpp_views.BCD_DIRECT_MAX_W,
                              "BcdView candidates outside range(ValueType) (known finding KF-C03-1: the non-template signature narrows before looking)",
                              "alias / transform virtual-field writes: corpus checks"]
    return r.finish()
