"""C02 - scalar fields decode with the documented byte order, bit numbering and format (E2a)."""
from vlib.llvc import viewcheck

FUNCS = ["emboss::prelude::{UInt,Int,Bcd,Flag,Float}View::{Ok,IsComplete,Read,UncheckedRead}",
         "emboss::support::EnumView::{Ok,IsComplete,Read,UncheckedRead}",
         "emboss::support::BitBlock::{Ok,ReadUInt,UncheckedReadUInt,GetOffsetStorage}",
         "emboss::support::OffsetBitBlock::{Ok,ReadUInt,UncheckedReadUInt}", "emboss::support::MaskToNBits",
         "emboss::support::{Little,Big,Null}EndianByteOrderer::ReadUInt", "emboss::support::ContiguousBuffer::{GetOffsetStorage,Read*EndianUInt}",
         "emboss::support::MemoryAccessor::Read{Little,Big}EndianUInt", "emboss::prelude::{IsBcd,MaxBcd}", "IntView::ConvertToSigned",
         "BcdView::ConvertToBinary"]


def main(args):
    def keep(n):
        # functional obligations, plus the runtime's own consistency checks (EMBOSS_CHECK asserts): an operation that
        # aborts on a valid input does not deliver what the property promises (the other safety obligations belong to C04)
        return not viewcheck.SAFETY.search(n) or ".trap:assert(" in n
    r = viewcheck.run("C02", args, ["UInt", "Int", "Bcd", "Flag", "Float", "Enum"], ["read"], keep=keep, enum_subset_in_quick=True, functions=FUNCS, selfcheck=True)
    if isinstance(r, int):
        return r
    from contracts import cpp_views
    from vlib import core
    ok = cpp_views.bcd_value_fits()
    r.add(core.Obligation("ground.bcd-value-fits-ValueType[w=1..64]", core.PROVED if ok else core.REFUTED, "cpython-ground", 0.0, kind="ground"))
    r.assume("Bcd Read() == decimal(field bits) is the composition of the two proved lemmas Read.raw-bits and Read.decimal-of-raw (substitution of equals)",
             "the header generator's choice of view template arguments for an arbitrary program is covered for the corpus only (C01)")
    return r.finish()
