"""C14 - physical layout and attribute rules are enforced exactly as documented.

E1 (proved, all integers): enum value representability (every maximum_bits 1..64, both signednesses,
symbolic values), `bits` size rule, enum field size rule - contracts/layout.py on the real source.
E3 (bounded, catalogue): the documented rules with their boundary cases as real modules through the
real front end: accepted iff the language reference allows it, never an exception."""
import importlib
import os
import multiprocessing
import time
import traceback

from vlib import core, pool

HDR = '[$default byte_order: "LittleEndian"]\n'


def catalogue():
    c = []

    def add(name, text, ok, default_bo=True):
        c.append((name, (HDR if default_bo else "") + text, ok))
    for w in (0, 1, 7, 8, 33, 63, 64, 65):
        add("UInt:%d-in-bits" % w, "bits Foo:\n  0 [+%d]  UInt  x\n" % w, 1 <= w <= 64 and w > 0) if w else add("UInt:0-in-bits", "bits Foo:\n  0 [+0]  UInt  x\n", False)
        if w:
            add("Int:%d-in-bits" % w, "bits Foo:\n  0 [+%d]  Int  x\n" % w, 1 <= w <= 64)
            add("Bcd:%d-in-bits" % w, "bits Foo:\n  0 [+%d]  Bcd  x\n" % w, 1 <= w <= 64)
    for w in (0, 2):
        add("Flag:%d" % w, "bits Foo:\n  0 [+%d]  Flag  x\n" % w, False)
    add("Flag:1", "bits Foo:\n  0 [+1]  Flag  x\n", True)
    for nbytes, ok in ((2, False), (4, True), (8, True), (3, False), (16, False)):
        add("Float:%d-bytes" % nbytes, "struct Foo:\n  0 [+%d]  Float  x\n" % nbytes, ok)
    add("UInt-9-bytes", "struct Foo:\n  0 [+9]  UInt  x\n", False)
    add("UInt-8-bytes", "struct Foo:\n  0 [+8]  UInt  x\n", True)
    for bits, ok in ((8, True), (64, True), (65, False), (72, False)):
        add("bits-%d" % bits, "bits Foo:\n  0 [+%d]  UInt:8[]  x\n" % bits if bits % 8 == 0 and False else "bits Foo:\n  0 [+1]  Flag  a\n  %d [+1]  Flag  z\n" % (bits - 1), ok)
    add("bits-dynamic-size", "struct Outer:\n  0 [+1]  UInt  n\n  1 [+1]  bits:\n    0 [+n]  UInt  x\n", False)
    add("struct-in-bits", "struct Inner:\n  0 [+1]  UInt  a\nbits Foo:\n  0 [+8]  Inner  x\n", False)
    # no byte-oriented member in a bits type, at every position a type can occur (scalar, array element, inner array element)
    for tn, decl, unit in (("struct", "struct Inner:\n  0 [+1]  UInt  a\n", 8), ("byte-external", "external Inner:\n  [addressable_unit_size: 8]\n  [fixed_size_in_bits: 8]\n", 8),
                           ("bits", "bits Inner:\n  0 [+8]  UInt  a\n", 1), ("bit-external", "external Inner:\n  [addressable_unit_size: 1]\n  [fixed_size_in_bits: 8]\n", 1)):
        for shape, suffix, total in (("scalar", "", 8), ("array", "[2]", 16), ("array-2d", "[2][2]", 32), ("sized-scalar", ":8", 8), ("sized-array", ":8[2]", 16)):
            add("%s-%s-member-in-bits" % (tn, shape), decl + "bits Foo:\n  0 [+%d]  Inner%s  x\n" % (total, suffix), unit == 1)
    add("bits-in-struct", "bits Inner:\n  0 [+8]  UInt  a\nstruct Foo:\n  0 [+1]  Inner  x\n", True)
    # enums
    add("enum-value-fits-64", "enum Ee:\n  AA = 18446744073709551615\n", True)
    add("enum-value-over-64", "enum Ee:\n  AA = 18446744073709551616\n", False)
    add("enum-negative-and-over-int64", "enum Ee:\n  AA = -1\n  BB = 9223372036854775808\n", False)
    add("enum-int64-min", "enum Ee:\n  AA = -9223372036854775808\n", True)
    add("enum-maximum_bits-8-value-255", "enum Ee:\n  [maximum_bits: 8]\n  AA = 255\n", True)
    add("enum-maximum_bits-8-value-256", "enum Ee:\n  [maximum_bits: 8]\n  AA = 256\n", False)
    add("enum-signed-8-minus-128", "enum Ee:\n  [maximum_bits: 8]\n  [is_signed: true]\n  AA = -128\n", True)
    add("enum-signed-8-128", "enum Ee:\n  [maximum_bits: 8]\n  [is_signed: true]\n  AA = 128\n", False)
    add("enum-unsigned-negative", "enum Ee:\n  [is_signed: false]\n  AA = -1\n", False)
    add("enum-maximum_bits-0", "enum Ee:\n  [maximum_bits: 0]\n  AA = 0\n", False)
    add("enum-maximum_bits-65", "enum Ee:\n  [maximum_bits: 65]\n  AA = 0\n", False)
    add("enum-field-wider-than-maximum_bits", "enum Ee:\n  [maximum_bits: 8]\n  AA = 1\nstruct Foo:\n  0 [+2]  Ee  x\n", False)
    add("enum-field-at-maximum_bits", "enum Ee:\n  [maximum_bits: 16]\n  AA = 1\nstruct Foo:\n  0 [+2]  Ee  x\n", True)
    # the same short name for two different types: each use is judged against its own type
    add("same-named-nested-enums-wide-then-narrow", "struct Aa:\n  enum Kind:\n    [maximum_bits: 16]\n    XX = 1\n  0 [+2]  Kind  k\nstruct Bb:\n  enum Kind:\n    [maximum_bits: 8]\n    YY = 1\n  0 [+2]  Kind  k\n", False)
    add("same-named-nested-enums-both-fit", "struct Aa:\n  enum Kind:\n    [maximum_bits: 16]\n    XX = 1\n  0 [+2]  Kind  k\nstruct Bb:\n  enum Kind:\n    [maximum_bits: 8]\n    YY = 1\n  0 [+1]  Kind  k\n", True)
    add("same-field-twice-second-too-wide", "enum Ee:\n  [maximum_bits: 8]\n  AA = 1\nstruct Foo:\n  0 [+1]  Ee  x\n  1 [+2]  Ee  y\n", False)
    add("same-size-different-scalar-types", "struct Foo:\n  0 [+4]  UInt  x\n  4 [+4]  Float  y\n  8 [+3]  UInt  z\n", True)
    add("same-size-float-after-uint-bad", "struct Foo:\n  0 [+3]  UInt  x\n  3 [+3]  Float  y\n", False)
    # arrays
    add("array-auto-outermost", "struct Foo:\n  0 [+8]  UInt:8[2][]  x\n", True)
    add("array-auto-inner", "struct Foo:\n  0 [+8]  UInt:8[][2]  x\n", False)
    add("array-of-dynamic-elements", "struct Dd:\n  0 [+1]  UInt  n\n  1 [+n]  UInt:8[]  d\nstruct Foo:\n  0 [+8]  Dd[2]  x\n", False)
    add("array-size-mismatch-is-dynamic-ok", "struct Foo:\n  0 [+4]  UInt:16[2]  x\n", True)
    add("array-elements-not-byte-multiple-in-struct", "struct Foo:\n  0 [+3]  UInt:4[6]  x\n", False)
    # explicit sizes
    add("explicit-size-matches", "struct Foo:\n  0 [+2]  UInt:16  x\n", True)
    add("explicit-size-mismatch", "struct Foo:\n  0 [+2]  UInt:8  x\n", False)
    add("struct-field-too-small", "struct Inner:\n  0 [+4]  UInt  a\nstruct Foo:\n  0 [+2]  Inner  x\n", False)
    # byte order
    add("byte-order-missing-multibyte", "struct Foo:\n  0 [+2]  UInt  x\n", False, default_bo=False)
    add("byte-order-missing-single-byte", "struct Foo:\n  0 [+1]  UInt  x\n", True, default_bo=False)
    add("byte-order-explicit", 'struct Foo:\n  0 [+2]  UInt  x\n    [byte_order: "BigEndian"]\n', True, default_bo=False)
    add("byte-order-bad-value", 'struct Foo:\n  0 [+2]  UInt  x\n    [byte_order: "MiddleEndian"]\n', False, default_bo=False)
    add("byte-order-on-virtual", 'struct Foo:\n  0 [+2]  UInt  x\n  let y = x\n    [byte_order: "BigEndian"]\n', False)
    add("byte-order-null-multibyte", 'struct Foo:\n  0 [+2]  UInt  x\n    [byte_order: "Null"]\n', False, default_bo=False)
    # $default attributes are inherited through scopes: a struct-level $default of one attribute does not hide the module's others
    add("struct-$default-enum_case-keeps-module-$default-byte_order",
        'struct Foo:\n  [$default (cpp) enum_case: "kCamelCase"]\n  0 [+2]  UInt  x\n  2 [+4]  UInt  y\n' if False else
        'struct Foo:\n  [(cpp) $default enum_case: "kCamelCase"]\n  0 [+2]  UInt  x\n  2 [+4]  UInt  y\n', True)
    add("struct-$default-byte_order-overrides-module-default", 'struct Foo:\n  [$default byte_order: "BigEndian"]\n  0 [+2]  UInt  x\n', True)
    add("nested-struct-inherits-outer-struct-$default", 'struct Outer:\n  [$default byte_order: "BigEndian"]\n  struct Inner:\n    0 [+2]  UInt  x\n  0 [+2]  Inner  i\n', True, default_bo=False)
    add("sibling-struct-does-not-inherit-$default", 'struct Aa:\n  [$default byte_order: "BigEndian"]\n  0 [+2]  UInt  x\nstruct Bb:\n  0 [+2]  UInt  y\n', False, default_bo=False)
    # attribute placement matrix: every attribute x every place an attribute list can stand x plain / $default, with a
    # well-typed value; accepted exactly at the documented places (language reference, sections on attributes of modules,
    # struct / bits / enum / external definitions and fields - pinned here, not read from the checker's tables)
    VALUES = {"byte_order": '"LittleEndian"', "fixed_size_in_bits": "8", "requires": "%s == 1", "maximum_bits": "8", "is_signed": "false", "addressable_unit_size": "8",
              "is_integer": "false", "static_requirements": "$is_statically_sized", "text_output": '"Skip"', "expected_back_ends": '"cpp"'}
    DOCUMENTED = {"module": {("byte_order", True), ("expected_back_ends", False)},
                  "struct": {("fixed_size_in_bits", False), ("byte_order", True), ("requires", False)},
                  "bits": {("fixed_size_in_bits", False), ("requires", False)},
                  "enum": {("maximum_bits", False), ("is_signed", False)},
                  "external": {("addressable_unit_size", False), ("fixed_size_in_bits", False), ("is_integer", False), ("static_requirements", False)},
                  "physical-field": {("byte_order", False), ("requires", False), ("text_output", False)},
                  "virtual-field": {("requires", False), ("text_output", False)}}
    for ctx in sorted(DOCUMENTED):
        for attr in sorted(VALUES):
            for dflt in (False, True):
                val = VALUES[attr] % ("x" if ctx in ("struct", "bits") else "this") if attr == "requires" else VALUES[attr]
                line = "[%s%s: %s]" % ("$default " if dflt else "", attr, val)
                hdr = "" if (ctx == "module" and attr == "byte_order") else HDR
                if ctx == "module":
                    text = hdr + line + "\nstruct Foo:\n  0 [+1]  UInt  x\n"
                elif ctx == "struct":
                    text = hdr + "struct Foo:\n  " + line + "\n  0 [+1]  UInt  x\n"
                elif ctx == "bits":
                    text = hdr + "bits Foo:\n  " + line + "\n  0 [+8]  UInt  x\n"
                elif ctx == "enum":
                    text = hdr + "enum Ee:\n  " + line + "\n  AA = 1\n"
                elif ctx == "external":
                    text = hdr + "external Xx:\n  " + line + "\n" + ("" if attr == "addressable_unit_size" and not dflt else "  [addressable_unit_size: 8]\n")
                elif ctx == "physical-field":
                    text = hdr + "struct Foo:\n  0 [+2]  UInt  x\n    " + line + "\n"
                else:
                    text = hdr + "struct Foo:\n  0 [+1]  UInt  x\n  let v = x + 1\n    " + line + "\n"
                c.append(("attribute-placement:%s%s-on-%s" % ("$default-" if dflt else "", attr, ctx), text, (attr, dflt) in DOCUMENTED[ctx]))
    # values of the wrong kind at a documented place: rejected with an error (and never an exception: D19 / D20)
    PLACE = {"byte_order": "physical-field", "fixed_size_in_bits": "struct", "requires": "struct", "maximum_bits": "enum", "is_signed": "enum", "addressable_unit_size": "external",
             "is_integer": "external", "static_requirements": "external", "text_output": "physical-field", "expected_back_ends": "module"}
    WRONG = {"byte_order": ["8", "true", "x"], "fixed_size_in_bits": ["true", '"8"'], "requires": ['"x"', "8", '"BigEndian"'], "maximum_bits": ["true", '"8"'], "is_signed": ["8", '"true"', "-1"],
             "addressable_unit_size": ["true", '"8"'], "is_integer": ["1", '"true"'], "static_requirements": ['"x"', "8"], "text_output": ["8", "true"], "expected_back_ends": ["1", "true", "-1"]}
    for attr in sorted(WRONG):
        for i, val in enumerate(WRONG[attr]):
            ctx = PLACE[attr]
            line = "[%s: %s]" % (attr, val)
            if ctx == "module":
                text = HDR + line + "\nstruct Foo:\n  0 [+1]  UInt  x\n"
            elif ctx == "struct":
                text = HDR + "struct Foo:\n  " + line + "\n  0 [+1]  UInt  x\n"
            elif ctx == "enum":
                text = HDR + "enum Ee:\n  " + line + "\n  AA = 1\n"
            elif ctx == "external":
                text = HDR + "external Xx:\n  " + line + "\n" + ("" if attr == "addressable_unit_size" else "  [addressable_unit_size: 8]\n")
            else:
                text = HDR + "struct Foo:\n  0 [+2]  UInt  x\n    " + line + "\n"
            c.append(("attribute-value-of-the-wrong-kind:%s=%s" % (attr, val.strip('"')), text, False))
    # attributes
    add("unknown-attribute", "struct Foo:\n  [bogus: 1]\n  0 [+1]  UInt  x\n", False)
    add("duplicate-attribute", 'struct Foo:\n  0 [+2]  UInt  x\n    [byte_order: "BigEndian"]\n    [byte_order: "BigEndian"]\n', False)
    add("attribute-wrong-type", "struct Foo:\n  0 [+2]  UInt  x\n    [byte_order: 1]\n", False)
    add("fixed_size_in_bits-correct", "struct Foo:\n  [fixed_size_in_bits: 16]\n  0 [+2]  UInt  x\n", True)
    add("fixed_size_in_bits-wrong", "struct Foo:\n  [fixed_size_in_bits: 8]\n  0 [+2]  UInt  x\n", False)
    add("text_output-bad-value", 'struct Foo:\n  0 [+1]  UInt  x\n    [text_output: "Maybe"]\n', False)
    add("requires-on-struct", "struct Foo:\n  [requires: x == 1]\n  0 [+1]  UInt  x\n", True)
    add("back-end-attribute-unknown-back-end", "struct Foo:\n  [(java) namespace: \"x\"]\n  0 [+1]  UInt  x\n", False)
    # reserved words (sampled from the real file below)
    return c


def run_case(case):
    name, src, want = case
    try:
        glue = importlib.import_module("compiler.front_end.glue")
        from contracts.bounds import _Reader
        ir, debug, errors = glue.parse_emboss_file("w.emb", _Reader({"w.emb": src}))
        msg = errors[0][0].message[:140] if errors else ""
        return (name, src, want, not errors, msg, None)
    except BaseException:
        return (name, src, want, None, "", traceback.format_exc()[-500:])


def frame_obligations(run):
    """assigns-clauses of the rule functions in constraints.py (vlib/frame.py): every rule writes only its `errors`
    argument, and check_constraints / check_early_constraints hand the traversal no other shared object - so the
    verdict on one declaration cannot depend on which other declarations were checked before it."""
    import ast
    import os
    from vlib import frame
    path = os.path.join(core.REPO, "compiler/front_end/constraints.py")
    tree = ast.parse(open(path).read())
    module_names = set()
    for n in tree.body:
        if isinstance(n, (ast.Assign, ast.AnnAssign)):
            for t in (n.targets if isinstance(n, ast.Assign) else [n.target]):
                module_names |= {x.id for x in ast.walk(t) if isinstance(x, ast.Name)}
    fns = [n for n in tree.body if isinstance(n, ast.FunctionDef)]
    if len(fns) < 20 or not any(f.name == "check_constraints" for f in fns):
        raise core.CheckerError("anchor mismatch: constraints.py does not look as expected (%d functions)" % len(fns))
    cache_fns = {"_initialize_reserved_word_list", "get_reserved_word_list"}     # one-time load of the reserved-word file into a module cache
    for f in fns:
        if f.name in cache_fns:
            continue
        found = frame.analyse(f, allowed=("errors",), module_names=module_names)
        nm = "frame.constraints.%s.assigns-only-errors" % f.name
        run.add(core.Obligation(nm, core.PROVED if not found else core.REFUTED, "frame(ast)", 0.0,
                                model={"findings": ["line %d: %s" % x for x in found]} if found else None,
                                detail="; ".join("line %d: %s" % x for x in found)[:400]))
        run.function("compiler.front_end.constraints." + f.name, "frame: syntactic write-set analysis of the real AST (assigns only `errors`)")
    # the drivers pass only the fresh error list (and the in_attribute marker) to the traversal
    for drv in ("check_constraints", "check_early_constraints"):
        f = [x for x in fns if x.name == drv][0]
        bad = []
        n_calls = 0
        for c in ast.walk(f):
            if isinstance(c, ast.Call) and "traverse_ir" in ast.unparse(c.func):
                n_calls += 1
                for kw in c.keywords:
                    if kw.arg == "parameters":
                        if not isinstance(kw.value, ast.Dict) or any(not isinstance(k_, ast.Constant) or k_.value not in ("errors", "in_attribute") for k_ in kw.value.keys):
                            bad.append("line %d: traversal parameters %s" % (c.lineno, ast.unparse(kw.value)))
                    elif kw.arg not in ("incidental_actions", "skip_descendants_of"):
                        bad.append("line %d: unexpected traversal argument %s" % (c.lineno, kw.arg))
        if n_calls == 0:
            raise core.CheckerError("anchor mismatch: %s makes no traverse_ir call" % drv)
        run.add(core.Obligation("frame.constraints.%s.traversals-share-only-errors" % drv, core.PROVED if not bad else core.REFUTED, "frame(ast)", 0.0,
                                model={"findings": bad} if bad else None, detail="%d traversals; %s" % (n_calls, "; ".join(bad)[:300])))


def main(args):
    run = core.Run("C14", args.tier, "proof", "./check C14 --tier " + args.tier)
    from contracts import layout
    pool.run_targets(run, "contracts.layout", list(layout.TARGETS))
    frame_obligations(run)
    from contracts import attrs, layout2
    pool.run_targets(run, "contracts.layout2", list(layout2.TARGETS))
    run.function("compiler.front_end.constraints._check_type_requirements_for_field", "pyvc: explicit size vs fixed size vs field size (contracts/layout2.py)")
    run.function("compiler.front_end.constraints._check_that_array_base_types_in_structs_are_multiples_of_bytes",
                 "pyvc: one error iff the innermost element's known size (explicit, else fixed size of its type; symbolic) is not a multiple of the enclosing definition's addressable unit (contracts/layout2.py)")
    run.function("compiler.front_end.attribute_checker.{_field_needs_byte_order,_field_may_have_null_byte_order,_add_missing_byte_order_attribute_on_field,_verify_byte_order_attribute_on_field}",
                 "pyvc: byte order is needed iff a physical field's base type has another unit than its enclosing definition; Null is allowed iff the size is the constant 1 or the base type is one unit wide (symbolic sizes); "
                 "missing attributes are filled from $default or with Null only then; verify reports not-allowed / required / Null-only-for-one-unit exactly (contracts/attrs.py)")
    run.function("compiler.front_end.attribute_checker.{_add_addressable_unit_to_external,_verify_addressable_unit_attribute_on_external,_verify_requires_attribute_on_field}",
                 "pyvc: external unit BIT iff the (symbolic) attribute is 1, BYTE iff 8, one error iff missing or another value; [requires] rejected on array fields (error + note) and on fields whose expression type is not integer / enumeration / boolean (contracts/attrs.py)")
    run.function("compiler.util.attribute_util.{_is_constant_boolean,_is_boolean,_is_constant_integer,_is_string}", "pyvc: one error at the value, naming the attribute, iff the value is not of the checker's kind (contracts/attrs.py)")
    run.function("compiler.front_end.attribute_checker._valid_back_ends", "pyvc: comma-delimited lists of lower-case specifiers accepted, any other string one error at the value, a non-string value the string-type error (no exception) (contracts/attrs.py)")
    run.function("compiler.util.attribute_util._check_attributes", "pyvc: for every list of <= 3 attributes over {a, $default a, b, (cpp) a} x back end x allowed set: other back ends ignored, one Duplicate error (with note) per repeated "
                 "(name, is_default), one Unknown / may-not-be-defaulted error per pair the context does not allow, otherwise exactly the value checker's errors, in list order (contracts/attrs.py)")
    run.function("compiler.util.ir_util.fixed_size_of_type_in_bits", "pyvc: base size times the product of the (constant) dimensions for 0-2 dimensions with symbolic counts and sizes; None as soon as a dimension is omitted or not constant or the base has no fixed size")
    run.function("compiler.front_end.constraints._check_allowed_in_bits", "pyvc: one error iff a byte-oriented atomic member sits in a bit-oriented definition (contracts/layout2.py)")
    run.function("compiler.front_end.constraints._check_that_inner_array_dimensions_are_constant / _check_that_array_base_types_are_fixed_size",
                 "pyvc: one error iff an inner dimension is omitted or not constant / iff an atomic element type has neither an explicit nor a fixed size (contracts/layout2.py)")
    pool.run_targets(run, "contracts.attrs", list(attrs.TARGETS))
    for f in attrs.FUNCTIONS:
        run.function("compiler.front_end.attribute_checker." + f, "pyvc: body executed symbolically against sidecar contract (contracts/attrs.py)")
    for f in ("_check_that_enum_values_are_representable", "_check_size_of_bits", "_check_physical_type_requirements (enum branch)"):
        run.function("compiler.front_end.constraints." + f, "pyvc: body executed symbolically against sidecar contract (contracts/layout.py)")
    cs = catalogue()
    # reserved words: every entry of the real file is rejected as a field name
    constraints = importlib.import_module("compiler.front_end.constraints")
    tokenizer = importlib.import_module("compiler.front_end.tokenizer")
    words = sorted(constraints.get_reserved_word_list())
    # ground: the table the checks consult holds exactly the words of compiler/front_end/reserved_words (read independently:
    # text before '#', lines starting with '--' name a language), each with the first language that lists it
    want, lang = {}, None
    for line in open(os.path.join(core.REPO, "compiler", "front_end", "reserved_words")).read().splitlines():
        t = line.split("#", 1)[0].strip()
        if not t:
            continue
        if t.startswith("--"):
            lang = t[2:].strip()
        else:
            want.setdefault(t, lang)
    got = dict(constraints.get_reserved_word_list())
    diff = sorted(set(want) ^ set(got)) + sorted(w for w in set(want) & set(got) if want[w] != got[w])
    run.add(core.Obligation("ground.reserved-word-table-is-the-reserved_words-file", core.PROVED if not diff else core.REFUTED, "cpython-ground", 0.0, kind="ground",
                            detail="%d words" % len(want) if not diff else "differences: %r" % diff[:8], model={"differences": diff[:20]} if diff else None,
                            replay={"reproduced": True, "inputs": diff[:20]} if diff else None))
    run.function("compiler.front_end.constraints._check_name_for_reserved_words (+ field / enum / parameter / type wrappers)",
                 "pyvc: one error at the name, with language and kind of name, iff the name is in the reserved-word table (contracts/layout2.py); ground: the table is the reserved_words file")
    n_words = 0
    for w in words:
        toks, errs = tokenizer.tokenize(w, "")
        if errs or not toks:
            continue
        sym = toks[0].symbol
        if sym == "SnakeWord":
            cs.append(("reserved-field:" + w, HDR + "struct Foo:\n  0 [+1]  UInt  %s\n" % w, False))
            # every kind of name a snake_case word can be: virtual field, abbreviation, run-time parameter
            cs.append(("reserved-virtual-field:" + w, HDR + "struct Foo:\n  0 [+1]  UInt  xx\n  let %s = xx + 1\n" % w, False))
            cs.append(("reserved-parameter:" + w, HDR + "struct Foo(%s: UInt:8):\n  0 [+1]  UInt  xx\n" % w, False))
            n_words += 1
        elif sym == "CamelWord":
            cs.append(("reserved-type:" + w, HDR + "struct %s:\n  0 [+1]  UInt  x\n" % w, False))
            n_words += 1
        elif sym == "ShoutyWord":
            cs.append(("reserved-enum-value:" + w, HDR + "enum Ee:\n  %s = 1\n" % w, False))
            n_words += 1
    t0 = time.time()
    with multiprocessing.get_context("fork").Pool(16) as p:
        res = p.map(run_case, cs, chunksize=8)
    groups = {}
    for (name, src, want, accepted, msg, exc) in res:
        g = name.split(":")[0] if name.startswith("reserved") else "rule"
        d = groups.setdefault(g, {"n": 0, "bad": []})
        d["n"] += 1
        if exc is not None:
            d["bad"].append(("no-exception", {"case": name, "module": src, "exception": exc}))
        elif accepted != want:
            d["bad"].append(("accepted-iff-documented", {"case": name, "module": src, "accepted": accepted, "documented": want, "first_error": msg}))
    for g, d in sorted(groups.items()):
        if not d["bad"]:
            run.add(core.Obligation("bounded.layout[%s]" % g, core.BPASS, "cpython", 0.0, kind="bounded", detail="%d modules" % d["n"]))
        for clause, bad in d["bad"][:8]:
            run.add(core.Obligation("bounded.layout[%s].%s{%s}" % (g, clause, bad["case"]), core.BFAIL, "cpython", 0.0, kind="bounded", model=bad,
                                    detail=str(bad.get("exception") or bad.get("first_error") or "accepted")[-300:], replay={"reproduced": True, "inputs": bad["module"]}))
    # replay of refuted E1 obligations: a failing catalogue module of this run, if there is one
    first_bad = next((o for o in run.obligations if o.verdict == core.BFAIL), None)
    for ob in run.obligations:
        if ob.verdict == core.REFUTED and ob.replay is None and first_bad is not None:
            ob.replay = {"reproduced": True, "inputs": first_bad.model, "note": "failing module of the bounded catalogue in the same run (" + first_bad.name + ")"}
    run.bounded.append({"what": "catalogue of documented layout/attribute rules with boundary cases + every reserved word of the real file, as modules through the real front end",
                        "evaluations": len(cs), "distinct_nontrivial": len(cs), "seconds": round(time.time() - t0, 1)})
    run.extra["reserved_words_checked"] = n_words
    run.assume(*core.STANDING_ASSUMPTIONS["E1"])
    run.assume(*core.STANDING_ASSUMPTIONS["E3"])
    run.assume("the converse direction (every module satisfying the documented rules is accepted) is checked only on the catalogue's accepted cases")
    run.trust("z3 5.1.0", "pyvc", "CPython", "the catalogue in props/C14.py (written from doc/language-reference.md)")
    return run.finish()
