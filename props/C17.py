"""C17 - compilation is a pure function of its input files (hash-seed independence part).

Order-independence obligations on the real source (vlib/orderdep.py): every iteration over a
set-typed expression in the compiler must be provably order-insensitive (sorted / fold / accumulate /
singleton rules); a site that is not is REFUTED and replayed by compiling a witness under several
PYTHONHASHSEEDs in fresh processes.  Sites whose independence is a semantic fact (Tarjan SCCs,
fixed-point worklists) are waived with a stated reason and listed as assumptions, never as proved."""
import glob
import hashlib
import json
import os
import subprocess
import sys
import tempfile
import time

from vlib import core, orderdep

HINTS = orderdep.Hints(
    set_attrs=["expected_tokens", "terminals", "nonterminals", "symbols", "conflicts"],
    set_returning=["_find_cycles", "_first", "_closure_of_item", "_gather_expected_back_ends"],
    containers_of_sets=["firsts", "graph", "dependencies", "results", "item_sets", "item_list",
                        "_single_level_closure_of_item_cache", "_closure_of_item_cache", "gotos", "firsts_to_add", "cycles"],
    table_targets=["action", "goto_table", "trimmed_goto", "items", "_item_cache", "firsts", "firsts_to_add"],
    set_names=["cycles"])

# files that take part in compiling an .emb file (dev tools and tests are out of scope)
EXCLUDE = ("_test.py", "enumerate_parse_errors.py", "generate_cached_parser.py", "generate_grammar_md.py", "format.py",
           "format_emb.py", "test_util.py", "one_golden_test.py", "run_one_golden_test.py", "/generated/")

WAIVERS = {
    ("compiler/front_end/dependency_checker.py", "_find_cycles", "graph[node]"):
        "the set of strongly connected components does not depend on DFS order (Tarjan); checked on all small digraphs under permuted orders by the C15 bounded check",
    ("compiler/front_end/dependency_checker.py", "_find_cycles.strong_connect", "graph[node]"):
        "same as _find_cycles",
    ("compiler/front_end/lr1.py", "Grammar._closure_of_item", "self._single_level_closure_of_item_cache[item]"):
        "the closure is a least fixed point, independent of worklist order; item sets are consumed sorted (_parallel_goto) or as frozensets",
    ("compiler/front_end/make_parser.py", "generate_parser", "parser.conflicts"):
        "only reached when the grammar has conflicts; the shipped grammar has none (ground obligation below)",
    ("compiler/front_end/module_ir.py", "_finalize_grammar", "star_symbols"):
        "PRODUCTIONS order: consumed as a set (parser.py), sorted (lr1._parallel_goto/_items), or sorted for doc generation; cached-vs-fresh tables compared under several hash seeds below",
    ("compiler/front_end/module_ir.py", "_finalize_grammar", "plus_symbols"): "as star_symbols",
    ("compiler/front_end/module_ir.py", "_finalize_grammar", "option_symbols"): "as star_symbols",
}

WITNESSES = {
    "make_error_from_parse_error": "struct Foo:\n  0 [+1]  UInt  UInt\n",
    # a syntax error at a place where an expression may start: more than twenty acceptable tokens
    "make_error_from_parse_error#many-expected-tokens": "struct Foo:\n  1 [+]  UInt  y\n",
    "make_error_from_parse_error#condition": "struct Foo:\n  0 [+1]  UInt  x\n  if x == :\n    1 [+1]  UInt  y\n",
    # several C++ reserved words as namespace components: one back-end error each
    "_verify_namespace_attribute": '[(cpp) namespace: "class::int::new::delete::switch::template"]\nstruct Foo:\n  0 [+1]  UInt  x\n',
    "_find_object_dependency_cycles": ('[$default byte_order: "LittleEndian"]\nstruct Foo:\n'
                                       "  a [+1]  UInt  b\n  b [+1]  UInt  a\n  c [+1]  UInt  d\n  d [+1]  UInt  c\n  e [+1]  UInt  f\n  f [+1]  UInt  e\n"),
    # independent cycles all reached from one earlier field (a hub): the traversal order inside the cycle finder follows the
    # iteration order of the hub's edge SET, so an unsorted report would vary with the hash seed
    "_find_object_dependency_cycles#hub": ('[$default byte_order: "LittleEndian"]\nstruct Foo:\n  0 [+alpha0+bravo0+charlie0+delta0+echo0+foxtrot0]  UInt:8[]  hub\n'
                                           + "".join("  %s1 [+1]  UInt  %s0\n  %s0 [+1]  UInt  %s1\n" % (w, w, w, w) for w in ("alpha", "bravo", "charlie", "delta", "echo", "foxtrot"))),
}
CORPUS = ["testdata/condition.emb", "testdata/enum.emb", "testdata/bits.emb", "testdata/parameters.emb", "testdata/virtual_field.emb",
          "testdata/nested_structure.emb", "testdata/imported_genfiles.emb", "testdata/complex_structure.emb"]


class _FileReader:
    """file_reader for glue.parse_emboss_file: names relative to the repository root."""

    def __init__(self, root):
        self.root = root

    def __call__(self, name):
        try:
            with open(os.path.join(self.root, name)) as f:
                return f.read(), None
        except OSError as e:
            return None, [str(e)]


def compile_under_seed(path, seed, extra_args=()):
    out = tempfile.mkdtemp(prefix="c17_", dir=core.BUILD)
    env = dict(os.environ, PYTHONHASHSEED=str(seed), PYTHONPATH=core.REPO)
    r = subprocess.run([sys.executable, os.path.join(core.REPO, "embossc"), "--output-path", out, "--output-file", "result.h", "--import-dir", core.REPO] + list(extra_args) + [path],
                       capture_output=True, text=True, env=env, cwd=core.REPO)
    h = hashlib.sha256()
    h.update(r.stdout.encode())
    h.update(r.stderr.encode())
    for f in sorted(glob.glob(out + "/**/*", recursive=True)):
        if os.path.isfile(f):
            h.update(open(f, "rb").read())
    import shutil
    shutil.rmtree(out, ignore_errors=True)
    return h.hexdigest(), r.returncode, (r.stdout + r.stderr)[-400:]


def seeds_agree(src_text=None, path=None, seeds=(1, 2, 3, 4, 5)):
    d = None
    if src_text is not None:
        d = tempfile.mkdtemp(prefix="c17w_", dir=core.BUILD)
        path = os.path.join(d, "w.emb")
        open(path, "w").write(src_text)
    res = [compile_under_seed(path, s) for s in seeds]
    if d:
        import shutil
        shutil.rmtree(d, ignore_errors=True)
    return len({r[0] for r in res}) == 1, res


def main(args):
    run = core.Run("C17", args.tier, "proof", "./check C17 --tier " + args.tier)
    os.makedirs(core.BUILD, exist_ok=True)
    if args.replay:
        d = json.load(open(args.replay))
        w = (d.get("model") or {}).get("witness")
        if w:
            ok, res = seeds_agree(src_text=w)
            print(json.dumps({"outputs_identical_across_seeds": ok, "outputs": [r[2] for r in res]}, indent=1))
        return 0
    files = []
    for sub in ("compiler/front_end", "compiler/util", "compiler/back_end/cpp", "compiler/back_end/util"):
        for f in sorted(glob.glob(os.path.join(core.REPO, sub, "*.py"))):
            if not any(x in f for x in EXCLUDE):
                files.append(f)
    files.append(os.path.join(core.REPO, "embossc"))
    n_sites = 0
    used_waivers = set()
    for f in files:
        rel = os.path.relpath(f, core.REPO)
        t0 = time.time()
        try:
            res = orderdep.scan_module(f, HINTS)
        except SyntaxError as e:
            run.error("cannot parse %s: %s" % (rel, e))
            continue
        dt = time.time() - t0
        for fn, sites in res.items():
            run.function(rel.replace("/", ".")[:-3] + "." + fn, "order-independence analysis of every set iteration") if sites else None
            for i, s in enumerate(sites):
                n_sites += 1
                name = "order-independence.%s:%s#%d[%s]" % (rel, fn, i, s["expr"])
                key = (rel, fn, s["expr"])
                if s["ok"]:
                    run.add(core.Obligation(name, core.PROVED, "syntactic-rule", dt / max(1, len(sites)), detail="%s  | %s" % (s["why"], s["text"])))
                elif key in WAIVERS:
                    used_waivers.add(key)
                    run.assume("WAIVED %s:%s iteration over %s: %s" % (rel, fn, s["expr"], WAIVERS[key]))
                else:
                    witness = WITNESSES.get(fn.split(".")[-1])
                    rep = None
                    # the function's own witness first, then every witness of the file's topic (syntax errors for util/error.py)
                    cands = ([witness] if witness else []) + [w for k_, w in WITNESSES.items() if "#" in k_ and (rel.endswith("util/error.py") or k_.split("#")[0] == fn.split(".")[-1])]
                    for w_ in cands:
                        ok, outs = seeds_agree(src_text=w_)
                        rep = {"reproduced": not ok, "inputs": w_, "outputs_by_seed": [o[2] for o in outs][:3]}
                        witness = w_
                        if not ok:
                            break
                    run.add(core.Obligation(name, core.REFUTED, "syntactic-rule", dt / max(1, len(sites)),
                                            model={"witness": witness, "site": s}, detail="%s | line %d: %s" % (s["why"], s["line"], s["text"]), replay=rep))
    stale = set(WAIVERS) - used_waivers
    if stale:
        run.error("anchor mismatch: waivers that match no site any more: %s" % sorted(stale)[:3])
    # ground support for the waivers
    import importlib
    mp = importlib.import_module("compiler.front_end.make_parser")
    t0 = time.time()
    p = mp.build_module_parser()
    run.add(core.Obligation("ground.shipped-grammar-is-conflict-free", core.PROVED if not p.conflicts else core.REFUTED, "cpython-ground",
                            time.time() - t0, kind="ground", replay=None if not p.conflicts else {"reproduced": True, "inputs": str(list(p.conflicts)[:2])}))
    # dynamic support (bounded, not counted as proof): real compilations under several hash seeds in fresh processes
    seeds = (1, 2, 3) if args.tier == "quick" else (1, 2, 3, 4, 5, 6, 7, 8)
    corpus = CORPUS if args.tier == "quick" else sorted(glob.glob(os.path.join(core.REPO, "testdata", "*.emb")))
    n_same = 0
    t0 = time.time()
    jobs = [("file", os.path.join(core.REPO, c) if not os.path.isabs(c) else c) for c in corpus] + [("text", w) for w in WITNESSES.values()]
    from concurrent.futures import ThreadPoolExecutor
    def one(j):
        if j[0] == "file":
            return j, seeds_agree(path=j[1], seeds=seeds)
        return j, seeds_agree(src_text=j[1], seeds=seeds)
    with ThreadPoolExecutor(8) as ex:
        results = list(ex.map(one, jobs))
    for j, (ok, res) in results:
        nm = os.path.basename(j[1]) if j[0] == "file" else "witness:" + hashlib.md5(j[1].encode()).hexdigest()[:6]
        run.add(core.Obligation("seeds.identical-output[%s]" % nm, core.BPASS if ok else core.BFAIL, "cpython-subprocess", 0.0, kind="bounded",
                                model=None if ok else {"witness": j[1] if j[0] == "text" else open(j[1]).read()[:2000]},
                                detail="%d hash seeds, fresh processes, stdout+stderr+header hashed" % len(seeds),
                                replay=None if ok else {"reproduced": True, "inputs": nm, "outputs_by_seed": [r[2] for r in res][:3]}))
    run.bounded.append({"what": "embossc on %d inputs under PYTHONHASHSEED in %s, fresh processes" % (len(jobs), list(seeds)),
                        "evaluations": len(jobs) * len(seeds), "distinct_nontrivial": len(jobs), "seconds": round(time.time() - t0, 1)})
    # purity: the compile path uses no ambient source of nondeterminism (syntactic, on the real AST of every scanned file)
    import ast
    DENY_MODULES = {"random", "time", "datetime", "uuid", "secrets", "threading", "multiprocessing", "tempfile", "socket", "getpass", "locale", "platform"}
    DENY_CALLS = {"id", "hash", "listdir", "walk", "scandir", "glob", "iglob", "getpid", "getcwd", "urandom", "getenv", "environ"}
    for f in files:
        rel = os.path.relpath(f, core.REPO)
        try:
            tree = ast.parse(open(f).read(), f)
        except SyntaxError:
            continue
        bad = []
        for n in ast.walk(tree):
            if isinstance(n, ast.Import):
                bad += ["line %d: import %s" % (n.lineno, a.name) for a in n.names if a.name.split(".")[0] in DENY_MODULES]
            elif isinstance(n, ast.ImportFrom) and (n.module or "").split(".")[0] in DENY_MODULES:
                bad.append("line %d: from %s import ..." % (n.lineno, n.module))
            elif isinstance(n, ast.Call):
                nm = n.func.id if isinstance(n.func, ast.Name) else (n.func.attr if isinstance(n.func, ast.Attribute) else None)
                if nm in DENY_CALLS:
                    bad.append("line %d: call of %s()" % (n.lineno, nm))
            elif isinstance(n, ast.Attribute) and n.attr == "environ":
                bad.append("line %d: os.environ" % n.lineno)
        run.add(core.Obligation("purity.no-ambient-nondeterminism[%s]" % rel, core.PROVED if not bad else core.REFUTED, "syntactic-rule", 0.0,
                                model={"uses": bad} if bad else None, detail="; ".join(bad)[:300] or "no clock, randomness, object identity/hash, directory listing or environment read"))
    # repetition within one process (bounded): the same module compiled twice, with another module in between, gives the same header
    t0 = time.time()
    glue = importlib.import_module("compiler.front_end.glue")
    hg = importlib.import_module("compiler.back_end.cpp.header_generator")
    from contracts.bounds import _Reader
    reps_bad = []
    n_rep = 0
    for cfile in corpus[:6]:
        path = os.path.join(core.REPO, cfile) if not os.path.isabs(cfile) else cfile

        def compile_once(pth):
            ir, debug, errors = glue.parse_emboss_file(os.path.relpath(pth, core.REPO), _FileReader(core.REPO))
            if errors:
                return "ERRORS:" + repr(errors)[:200]
            header, errs = hg.generate_header(ir)
            return header
        try:
            first = compile_once(path)
            other = compile_once(os.path.join(core.REPO, CORPUS[0]))
            second = compile_once(path)
            n_rep += 1
            if first != second:
                reps_bad.append(cfile)
        except Exception as ex:     # a crash here is a checker problem (the reader), not a verdict
            run.error("in-process repetition harness failed on %s: %s" % (cfile, ex))
            break
    run.add(core.Obligation("repeat.identical-header-within-one-process", core.BPASS if not reps_bad else core.BFAIL, "cpython", time.time() - t0, kind="bounded",
                            model={"modules": reps_bad} if reps_bad else None, detail="%d modules compiled twice in this process with another module in between" % n_rep,
                            replay=None if not reps_bad else {"reproduced": True, "inputs": reps_bad}))
    run.extra["set_iteration_sites"] = n_sites
    run.extra["files_scanned"] = [os.path.relpath(f, core.REPO) for f in files]
    run.assume("set-typedness: local inference plus the sidecar hints in props/C17.py (attributes/functions known to hold sets); an unhinted set is not seen",
               "dict iteration order is insertion order; insertion-order taint from waived sites is not tracked",
               "process-level caches (glue._cached_modules, module_ir anonymous counter, simple_memoizer) and single- vs two-process equivalence are not covered")
    run.trust("CPython ast", "vlib/orderdep.py rule set")
    return run.finish()
