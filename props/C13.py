"""C13 - expression typing: well-typed modules are accepted, ill-typed ones rejected (E3, finite-domain exhaustive).

The abstraction the type checker reads is finite: operator x argument kinds (integer, boolean, enum A,
enum B, opaque) x arity.  EVERY tuple is built as a real module, compiled by the real front end, and
compared with the documented signature table (language reference, "Operators and functions"):
     accepted  <=>  tuple is in the table;  never an exception;  the error points at the offending line.
Likewise the positional rules (offset / size / array length / condition / [requires] / passed parameter).
Bounded stand-in: exhaustive over this abstraction, not a proof (nothing beyond it is claimed)."""
import importlib
import itertools
import multiprocessing
import time
import traceback

from vlib import core

KINDS = ["int", "bool", "enumA", "enumB", "opaque"]
OPERANDS = {"int": ["xi", "yi", "7"], "bool": ["xb", "yb", "true"], "enumA": ["xa", "ya", "EnumA.VA"], "enumB": ["xe", "EnumB.VB", "xe"],
            "opaque": ["xo", "yo", "xo"]}
HEADER = '''[$default byte_order: "LittleEndian"]
enum EnumA:
  VA = 1
  WA = 2
enum EnumB:
  VB = 1
struct Inner:
  0 [+1]  UInt  q
struct Sized(n: UInt:8):
  0 [+n]  UInt:8[]  data
struct Foo:
@STRUCT_ATTR@  0 [+1]  UInt   xi
  1 [+1]  UInt   yi
  2 [+1]  bits:
    0 [+1]  Flag  xb
    1 [+1]  Flag  yb
  3 [+1]  EnumA  xa
  4 [+1]  EnumA  ya
  5 [+1]  EnumB  xe
  6 [+1]  Inner  xo
  7 [+1]  Inner  yo
'''
BINARY = {"+": "arith", "-": "arith", "*": "arith", "<": "order", "<=": "order", ">": "order", ">=": "order", "==": "eq", "!=": "eq", "&&": "logic", "||": "logic"}


def well_typed_binary(cls, a, b):
    if cls in ("arith", "order"):
        return a == b == "int"
    if cls == "logic":
        return a == b == "bool"
    if cls == "eq":
        return a == b and a in ("int", "bool", "enumA", "enumB")
    raise ValueError(cls)


def cases():
    out = []
    for op, cls in BINARY.items():
        for a, b in itertools.product(KINDS, repeat=2):
            out.append(("%s(%s,%s)" % (op, a, b), "  let v = %s %s %s\n" % (OPERANDS[a][0], op, OPERANDS[b][1]), well_typed_binary(cls, a, b)))
    for c, t, f in itertools.product(KINDS, repeat=3):
        ok = c == "bool" and t == f and t in ("int", "bool", "enumA", "enumB")
        out.append(("?:(%s,%s,%s)" % (c, t, f), "  let v = %s ? %s : %s\n" % (OPERANDS[c][2] if c != "bool" else "xb", OPERANDS[t][0], OPERANDS[f][1]), ok))
    for n in (1, 2, 3):
        for ks in itertools.product(KINDS, repeat=n):
            out.append(("$max(%s)" % ",".join(ks), "  let v = $max(%s)\n" % ", ".join(OPERANDS[k][i] for i, k in enumerate(ks)), all(k == "int" for k in ks)))
    for fn in ("$upper_bound", "$lower_bound"):
        for k in KINDS:
            out.append(("%s(%s)" % (fn, k), "  let v = %s(%s)\n" % (fn, OPERANDS[k][0]), k == "int"))
    for k in KINDS:
        out.append(("$present(%s)" % k, "  let v = $present(%s)\n" % OPERANDS[k][0], True))
    out.append(("$present(non-field)", "  let v = $present(xi + 1)\n", False))
    # positional rules
    for k in KINDS:
        out.append(("offset:%s" % k, "  %s [+1]  UInt  zz\n" % OPERANDS[k][0], k == "int"))
        out.append(("size:%s" % k, "  8 [+%s]  UInt:8[]  zz\n" % OPERANDS[k][0], k == "int"))
        out.append(("array-length:%s" % k, "  8 [+4]  UInt:8[%s]  zz\n" % OPERANDS[k][2], k == "int"))
        # every dimension of a multi-dimensional array is a length (the traversal must reach the inner ArrayTypes too)
        out.append(("array-length-inner:%s" % k, "  8 [+8]  UInt:8[%s][2]  zz\n" % OPERANDS[k][2], k == "int"))
        out.append(("array-length-outer:%s" % k, "  8 [+8]  UInt:8[2][%s]  zz\n" % OPERANDS[k][2], k == "int"))
        out.append(("array-length-innermost-of-3:%s" % k, "  8 [+8]  UInt:8[%s][2][2]  zz\n" % OPERANDS[k][2], k == "int"))
        out.append(("array-length-inner-with-auto-outer:%s" % k, "  8 [+8]  UInt:8[%s][]  zz\n" % OPERANDS[k][2], k == "int"))
        out.append(("condition:%s" % k, "  if %s:\n    8 [+1]  UInt  zz\n" % OPERANDS[k][0], k == "bool"))
        out.append(("requires:%s" % k, "@ATTR@  [requires: %s]\n" % OPERANDS[k][0], k == "bool"))
        out.append(("parameter:%s" % k, "  8 [+4]  Sized(%s)  zz\n" % OPERANDS[k][0], k == "int"))
    # `$next` outside the start of a physical field: not an expression of any documented signature - must be rejected
    # (KF-C13-2: in [requires] and in a parameter argument it currently crashes the type checker)
    out.append(("builtin-position:$next-in-requires", "@ATTR@  [requires: $next == 1]\n", False))
    out.append(("builtin-position:$next-in-parameter", "  8 [+4]  Sized($next)  zz\n", False))
    out.append(("builtin-position:$next-in-size", "  8 [+$next]  UInt:8[]  zz\n", False))
    out.append(("builtin-position:$next-in-offset", "  $next [+1]  UInt  zz\n", True))
    # an ill-typed virtual field that is referenced BEFORE its definition: rejected with a located error like any other
    # (D21: the reference passed a Reference as the file name of the definition's errors and the compiler crashed)
    for k in KINDS:
        if k != "int":
            out.append(("forward-reference:ill-typed-virtual-field(%s)" % k, "  8 [+fwd]  UInt:8[]  zz\n  let fwd = %s + 1\n" % OPERANDS[k][0], False))
    out.append(("forward-reference:well-typed-virtual-field", "  8 [+fwd]  UInt:8[]  zz\n  let fwd = xi + 1\n", True))
    out.append(("forward-reference:ill-typed-through-a-chain", "  let use = mid + 1\n  let mid = fwd2\n  let fwd2 = xb ? 1 : false\n", False))
    # the value of an enum name: a number (D22: `AA = true` was accepted and the header did not compile)
    out.append(("enum-value:bool", "enum Vals:\n  VV = true\n", False))
    out.append(("enum-value:bool-expression", "enum Vals:\n  VV = 1 == 1\n", False))
    out.append(("enum-value:int", "enum Vals:\n  VV = 2 + 3\n", True))
    out.append(("enum-value:other-value-of-the-enum", "enum Vals:\n  VV = WW\n  WW = 7\n", True))
    # same-named enums in two modules are different types
    imp = 'import "other.emb" as oth\n'
    for nm, expr, ok in (("==(Kind,oth.Kind)", "xk == yk", False), ("==(Kind,Kind)", "xk == zk", True), ("==(oth.Kind,oth.Kind)", "yk == oth.Kind.VA", True),
                         ("!=(Kind,oth.Kind)", "xk != yk", False), ("?:(bool,Kind,oth.Kind)", "xb ? xk : yk", False), ("?:(bool,oth.Kind,oth.Kind)", "xb ? yk : oth.Kind.VA", True)):
        out.append(("import:" + nm, "@IMPORT@  let v = %s\n" % expr, ok))
    return out


OTHER_EMB = '[$default byte_order: "LittleEndian"]\nenum Kind:\n  VA = 1\n  VB = 2\n'
IMPORT_MAIN = '''import "other.emb" as oth
[$default byte_order: "LittleEndian"]
enum Kind:
  VA = 1
  VB = 2
struct Foo:
  0 [+1]  Kind      xk
  1 [+1]  oth.Kind  yk
  2 [+1]  Kind      zk
  3 [+1]  bits:
    0 [+1]  Flag    xb
'''


def run_case(case):
    name, body, want = case
    try:
        glue = importlib.import_module("compiler.front_end.glue")
        from contracts.bounds import _Reader
        files = None
        if body.startswith("@ATTR@"):
            src = HEADER.replace("@STRUCT_ATTR@", body[len("@ATTR@"):])
        elif body.startswith("@IMPORT@"):
            src = IMPORT_MAIN + body[len("@IMPORT@"):]
            files = {"w.emb": src, "other.emb": OTHER_EMB}
        else:
            src = HEADER.replace("@STRUCT_ATTR@", "") + body
        ir, debug, errors = glue.parse_emboss_file("w.emb", _Reader(files or {"w.emb": src}))
        accepted = not errors
        loc_ok = True
        msg = ""
        for g in errors or []:
            for m in g:
                if not isinstance(m.source_file, str):
                    # an error that cannot be shown (embossc crashes while formatting it) is not a rejection
                    raise TypeError("ill-formed error message: source_file is %s, not a file name (%r)" % (type(m.source_file).__name__, m.message[:80]))
        if errors:
            first = errors[0][0]
            msg = first.message[:120]
            line = first.location.start.line if first.location and first.location.start else None
            body_first = HEADER.count("\n") + 1 if not body.startswith("@ATTR@") else HEADER[:HEADER.index("@STRUCT_ATTR@")].count("\n") + 1
            if body.startswith("@IMPORT@"):
                body_first = IMPORT_MAIN.count("\n") + 1
            loc_ok = (line is not None and line >= body_first and not first.location.is_synthetic)
        return (name, body, want, accepted, loc_ok, msg, None)
    except BaseException:
        return (name, body, want, None, False, "", traceback.format_exc()[-600:])


def replay_passed_parameters(name):
    """Real front end on a module that passes a value of another enum for an enum parameter."""
    import re
    m = re.search(r"d0=(\w+).*?p0=(\w+)", name)
    src = ('[$default byte_order: "LittleEndian"]\nenum EnumA:\n  VA = 1\nenum EnumB:\n  VB = 2\nstruct Inner(k: EnumA):\n  0 [+1]  UInt  x\n'
           'struct Outer:\n  0 [+1]  EnumB  b\n  1 [+1]  Inner(b)  inner\n')
    glue = importlib.import_module("compiler.front_end.glue")
    from contracts.bounds import _Reader
    ir, debug, errors = glue.parse_emboss_file("w.emb", _Reader({"w.emb": src}))
    return {"reproduced": not errors, "inputs": src, "accepted": not errors, "expected": "rejected: parameter k of Inner is an EnumA, an EnumB was passed"}


def main(args):
    run = core.Run("C13", args.tier, "exploration", "./check C13 --tier " + args.tier)
    # E1 (proof part): the operator signature table, on the real functions, for every operator / arity / operand-kind tuple
    from vlib import pool
    pool.run_targets(run, "contracts.typing", ["_type_check_operation", "positional", "dispatch_and_physical_types", "reference_types"])
    run.function("compiler.front_end.type_check.{_type_check_local_reference,_type_check_constant_reference}",
                 "pyvc: a local reference takes the type of the object of its LAST path element (parameter / virtual: definition checked first / array: opaque / physical); a constant reference to an enum value has the enum's type, "
                 "to a virtual field its definition's type, to a physical field one error with a note")
    run.function("compiler.front_end.type_check.{_type_check_expression,unbounded_expression_type_for_physical_type,_set_expression_type_from_physical_type_reference,_annotate_parameter_type}",
                 "pyvc: every expression variety goes to exactly its checker, typed expressions are left alone; physical definitions map to integer / boolean (prelude Flag only) / enumeration named by the definition itself / opaque; array-typed parameters give one error")
    for ob in run.obligations:
        if ob.verdict == core.REFUTED and ob.name.startswith("positional[rule=passed-parameters"):
            ob.replay = replay_passed_parameters(ob.name)
    run.function("compiler.front_end.type_check.{_type_check_array_size,_type_check_field_location,_type_check_field_existence_condition,_type_check_parameter,_type_check_passed_parameters}",
                 "pyvc: positional rules; a passed parameter must have the declared parameter's type (for enums: the same enum)")
    run.function("compiler.front_end.type_check._type_check_operation (+ _type_check_comparison_operator, _type_check_choice_operator, _type_check_monomorphic_operator, _types_are_compatible, _type_check*)",
                 "pyvc: bodies executed over records that expose only type.which_type / enum name / which_expression: no error <=> documented signature, documented result type")
    run.assume(*core.STANDING_ASSUMPTIONS["E1"])
    cs = cases()
    t0 = time.time()
    with multiprocessing.get_context("fork").Pool(16) as pool:
        res = pool.map(run_case, cs, chunksize=8)
    groups = {}
    for (name, body, want, accepted, loc_ok, msg, exc) in res:
        g = name.split("(")[0].split(":")[0]
        bad = None
        if exc is not None:
            bad = {"case": name, "module_tail": body, "exception": exc}
            clause = "no-exception"
        elif accepted != want:
            bad = {"case": name, "module_tail": body, "accepted": accepted, "documented": want, "first_error": msg}
            clause = "accepted-iff-documented"
        elif not accepted and not loc_ok:
            bad = {"case": name, "module_tail": body, "first_error": msg}
            clause = "error-points-into-the-definition"
        d = groups.setdefault(g, {"n": 0, "bad": []})
        d["n"] += 1
        if bad:
            d["bad"].append((clause, bad))
    for g, d in sorted(groups.items()):
        if not d["bad"]:
            run.add(core.Obligation("bounded.typing[%s]" % g, core.BPASS, "cpython", 0.0, kind="bounded", detail="%d tuples" % d["n"]))
        for clause, bad in d["bad"][:6]:
            run.add(core.Obligation("bounded.typing[%s].%s{%s}" % (g, clause, bad["case"]), core.BFAIL, "cpython", 0.0, kind="bounded", model=bad,
                                    detail=str(bad.get("exception") or bad.get("first_error"))[-300:], replay={"reproduced": True, "inputs": bad["module_tail"]}))
    # replay of refuted E1 obligations: a failing module of the bounded part of this run, if there is one
    first_bad = next((o for o in run.obligations if o.verdict == core.BFAIL), None)
    for ob in run.obligations:
        if ob.verdict == core.REFUTED and ob.replay is None and first_bad is not None:
            ob.replay = {"reproduced": True, "inputs": first_bad.model, "note": "failing module of the bounded part in the same run (" + first_bad.name + ")"}
    run.bounded.append({"what": "every (operator, argument kinds) tuple and positional rule as a real module through the real front end",
                        "evaluations": len(cs), "distinct_nontrivial": len(cs), "seconds": round(time.time() - t0, 1)})
    run.extra["rule"] = "one module per tuple of the finite abstraction (operator x kinds in {int,bool,enumA,enumB,opaque}^arity; positional rules x kinds); all are distinct and non-trivial (each exercises one row of the signature table)"
    run.extra["exhaustive"] = True
    run.function("compiler.front_end.type_check (all _type_check_* functions), via glue.parse_emboss_file", "documented signature table as contract, checked exhaustively over the finite kind abstraction (bounded stand-in)")
    run.assume(*core.STANDING_ASSUMPTIONS["E3"])
    run.assume("the type checker reads of each argument only its kind (integer/boolean/enum identity/opaque) and whether it is a field reference: the abstraction is read off the code, not checked dynamically")
    run.trust("CPython", "the signature table in props/C13.py (written from doc/language-reference.md)")
    return run.finish()
