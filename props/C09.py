"""C09 - the shipped parser tables are the parser of the documented grammar.

Frame lemma (syntactic, on the real AST of lr1.Parser.parse): parse is a function of
(action restricted to {Shift.state, Reduce.rule, Accept, Error.code}, goto, default_errors, tokens).
Ground obligations (evaluated on every run): cached and freshly generated tables agree on all states;
the production set is the one of module_ir and of doc/grammar.md; the token pattern table of
doc/grammar.md is the tokenizer's.  Frame + ground => equal ParseResults for EVERY token sequence."""
import ast
import importlib
import inspect
import os
import re
import time

from vlib import core

ALLOWED_SELF = {"action", "goto", "default_errors"}
ALLOWED_ACTION_ATTRS = {"state", "rule", "code"}
ALLOWED_RULE_ATTRS = {"rhs", "lhs"}
ALLOWED_CALLS = {"list", "set", "len", "isinstance", "state", "Symbol", "Error", "ParseResult", "ParseError", "Reduction",
                 "merge_source_locations", "get", "keys", "append"}
ALLOWED_GLOBALS = {"Shift", "Accept", "Reduce", "Error", "Symbol", "ParseResult", "ParseError", "Reduction", "END_OF_INPUT",
                   "parser_types", "list", "set", "len", "isinstance", "True", "False", "None"}


def frame_lemma(run):
    lr1 = importlib.import_module("compiler.front_end.lr1")
    path = inspect.getsourcefile(lr1)
    if not os.path.abspath(path).startswith(os.path.abspath(core.REPO)):
        raise core.CheckerError("lr1 loaded from %s" % path)
    tree = ast.parse(open(path).read())
    fn = None
    for n in ast.walk(tree):
        if isinstance(n, ast.ClassDef) and n.name == "Parser":
            for m in n.body:
                if isinstance(m, ast.FunctionDef) and m.name == "parse":
                    fn = m
    if fn is None:
        raise core.CheckerError("anchor mismatch: lr1.Parser.parse not found")
    t0 = time.time()
    self_attrs, action_attrs, rule_attrs, calls, globs = set(), set(), set(), set(), set()
    local_names = {a.arg for a in fn.args.args}
    for n in ast.walk(fn):
        if isinstance(n, (ast.Name,)) and isinstance(n.ctx, ast.Store):
            local_names.add(n.id)
        if isinstance(n, ast.FunctionDef) and n is not fn:
            local_names.add(n.name)
        if isinstance(n, ast.comprehension):
            for x in ast.walk(n.target):
                if isinstance(x, ast.Name):
                    local_names.add(x.id)
    stores_to_self = []
    for n in ast.walk(fn):
        if isinstance(n, ast.Attribute):
            if isinstance(n.value, ast.Name) and n.value.id == "self":
                self_attrs.add(n.attr)
                if isinstance(n.ctx, ast.Store):
                    stores_to_self.append(n.attr)
            elif isinstance(n.value, ast.Name) and n.value.id == "next_action":
                action_attrs.add(n.attr)
            elif isinstance(n.value, ast.Attribute) and n.value.attr == "rule":
                rule_attrs.add(n.attr)
        if isinstance(n, ast.Call):
            f = n.func
            calls.add(f.id if isinstance(f, ast.Name) else f.attr if isinstance(f, ast.Attribute) else "?")
        if isinstance(n, ast.Name) and isinstance(n.ctx, ast.Load) and n.id not in local_names:
            globs.add(n.id)
        if isinstance(n, (ast.Global, ast.Nonlocal)):
            globs.add("global-stmt")
    dt = time.time() - t0

    def ob(name, ok, detail):
        run.add(core.Obligation("frame.parse." + name, core.PROVED if ok else core.REFUTED, "ast-read-set", dt / 5, detail=detail, kind="proof",
                                replay={"reproduced": not ok, "inputs": detail}))
    ob("reads-only-action-goto-default_errors", self_attrs <= ALLOWED_SELF, "self attributes read: %s" % sorted(self_attrs))
    ob("no-store-to-self", not stores_to_self, "stores: %s" % stores_to_self)
    ob("action-attrs", action_attrs <= ALLOWED_ACTION_ATTRS, "attributes of next_action: %s" % sorted(action_attrs))
    ob("rule-attrs", rule_attrs <= ALLOWED_RULE_ATTRS, "attributes of .rule: %s" % sorted(rule_attrs))
    ob("calls", calls <= ALLOWED_CALLS, "calls: %s" % sorted(calls))
    ob("globals", globs <= ALLOWED_GLOBALS, "non-local names read: %s" % sorted(globs))
    run.function("compiler.front_end.lr1.Parser.parse", "syntactic frame lemma on the real AST")


def norm_action(a, lr1):
    if isinstance(a, lr1.Shift):
        return ("S", a.state)
    if isinstance(a, lr1.Reduce):
        return ("R", a.rule)
    if isinstance(a, lr1.Accept):
        return ("A",)
    if isinstance(a, lr1.Error):
        return ("E", a.code)
    return ("?", repr(a))


def effective(parser, lr1, state, sym):
    """What parse() does in `state` on `sym` (the frame lemma's view of the tables)."""
    row = parser.action.get(state, {})
    if sym not in row:
        return ("E", parser.default_errors.get(state))
    return norm_action(row[sym], lr1)


def shortest_path_to(parser, lr1, target_state):
    """BFS over shift/goto edges: a symbol sequence leading the automaton to target_state (for the replay)."""
    from collections import deque
    seen = {0: []}
    q = deque([0])
    while q:
        s = q.popleft()
        if s == target_state:
            return seen[s]
        for sym, a in parser.action.get(s, {}).items():
            if isinstance(a, lr1.Shift) and a.state not in seen:
                seen[a.state] = seen[s] + [sym]
                q.append(a.state)
        for sym, t in parser.goto.get(s, {}).items():
            if t not in seen:
                seen[t] = seen[s] + [sym]
                q.append(t)
    return None


def compare_parsers(run, label, cached, fresh, lr1):
    t0 = time.time()
    states = set(cached.action) | set(fresh.action) | set(cached.goto) | set(fresh.goto) | set(cached.default_errors) | set(fresh.default_errors)
    symbols = set()
    for p in (cached, fresh):
        for row in p.action.values():
            symbols |= set(row)
    diffs = []
    n_entries = 0
    for s in states:
        for sym in symbols:
            n_entries += 1
            a, b = effective(cached, lr1, s, sym), effective(fresh, lr1, s, sym)
            if a != b:
                diffs.append(("action", s, sym, a, b))
        # the expected-token set of an error: keys of action[s] that are not Error
        ka = {k for k, v in cached.action.get(s, {}).items() if not isinstance(v, lr1.Error)}
        kb = {k for k, v in fresh.action.get(s, {}).items() if not isinstance(v, lr1.Error)}
        if ka != kb:
            diffs.append(("expected-tokens", s, None, sorted(ka ^ kb), None))
        if cached.goto.get(s, {}) != fresh.goto.get(s, {}):
            diffs.append(("goto", s, None, None, None))
    dt = time.time() - t0
    detail = "%d states x %d symbols = %d effective actions compared" % (len(states), len(symbols), n_entries)
    for kind in ("action", "expected-tokens", "goto"):
        d = [x for x in diffs if x[0] == kind]
        model = None
        rep = None
        if d:
            path = shortest_path_to(fresh, lr1, d[0][1])
            model = {"state": d[0][1], "symbol": d[0][2], "cached": repr(d[0][3]), "fresh": repr(d[0][4]),
                     "symbols_leading_to_state": path, "number_of_differences": len(d)}
            rep = {"reproduced": True, "inputs": "tables differ at state %s" % d[0][1]}
        run.add(core.Obligation("ground.%s.%s-equal" % (label, kind), core.REFUTED if d else core.PROVED, "cpython-ground", dt / 3,
                                model=model, detail=detail, kind="ground", replay=rep))
    ok = set(cached.productions) == set(fresh.productions)
    run.add(core.Obligation("ground.%s.productions-equal" % label, core.PROVED if ok else core.REFUTED, "cpython-ground", 0.0,
                            detail="%d productions" % len(fresh.productions), kind="ground",
                            replay=None if ok else {"reproduced": True, "inputs": repr(set(cached.productions) ^ set(fresh.productions))[:500]}))
    return len(states), len(symbols)


def grammar_md_obligations(run):
    """doc/grammar.md is what generate_grammar_md produces from the real productions and token tables."""
    t0 = time.time()
    gmd = importlib.import_module("compiler.front_end.generate_grammar_md")
    text = gmd.generate_grammar_md()
    with open(os.path.join(core.REPO, "doc", "grammar.md")) as f:
        doc = f.read()
    ok = text == doc
    detail = "generate_grammar_md() output vs doc/grammar.md (%d bytes)" % len(doc)
    if not ok:
        import difflib
        detail += "\n" + "\n".join(list(difflib.unified_diff(doc.splitlines(), text.splitlines(), lineterm="", n=0))[:12])
    run.add(core.Obligation("ground.grammar-md.equals-generated", core.PROVED if ok else core.REFUTED, "cpython-ground", time.time() - t0,
                            detail=detail, kind="ground", replay=None if ok else {"reproduced": True, "inputs": detail[:800]}))
    # independent reading of the document: every production "lhs -> rhs" listed is a real one and vice versa
    module_ir = importlib.import_module("compiler.front_end.module_ir")
    prods = set()
    for p in module_ir.PRODUCTIONS:
        prods.add((p.lhs, tuple(p.rhs)))
    doc_prods = parse_productions_from_md(doc)
    ok2 = doc_prods == {(l, r) for (l, r) in prods}
    missing = sorted(prods - doc_prods)[:3]
    extra = sorted(doc_prods - prods)[:3]
    run.add(core.Obligation("ground.grammar-md.production-set-equal", core.PROVED if ok2 else core.REFUTED, "cpython-ground", 0.0,
                            detail="%d productions in doc, %d in module_ir; missing %s extra %s" % (len(doc_prods), len(prods), missing, extra),
                            kind="ground", replay=None if ok2 else {"reproduced": True, "inputs": "missing %s extra %s" % (missing, extra)}))
    # token tables: the ordered (pattern, symbol) list of the document is the tokenizer's (order = tie priority)
    tok = importlib.import_module("compiler.front_end.tokenizer")
    doc_rules = parse_token_tables_from_md(doc)
    real = [(None, '"' + lit + '"', lit) for lit in tok.LITERAL_TOKEN_PATTERNS]
    real += [(pat.regex.pattern, pat.symbol, None) for pat in tok.REGEX_TOKEN_PATTERNS]
    bad = []
    if len(doc_rules) != len(real):
        bad.append("rule count %d in doc vs %d in tokenizer" % (len(doc_rules), len(real)))
    for i, ((dpat, dsym), (rpat, rsym, lit)) in enumerate(zip(doc_rules, real)):
        want_sym = "`%s`" % rsym if rsym else "*no symbol emitted*"
        if dsym != want_sym:
            bad.append("rule %d: symbol %s vs %s" % (i, dsym, want_sym))
        elif lit is not None:
            if dpat.replace("\\", "") != lit:
                bad.append("rule %d: literal pattern %r does not denote %r" % (i, dpat, lit))
        elif dpat != rpat.replace("|", "\\|"):
            bad.append("rule %d: pattern %r vs %r" % (i, dpat, rpat))
    ok3 = not bad
    run.add(core.Obligation("ground.grammar-md.token-rules-equal-in-order", core.PROVED if ok3 else core.REFUTED, "cpython-ground", 0.0,
                            detail="%d rules compared in order; %s" % (len(real), bad[:3]), kind="ground",
                            replay=None if ok3 else {"reproduced": True, "inputs": "; ".join(bad[:5])}))


def parse_productions_from_md(doc):
    """Reads the code block of productions: `lhs -> a b c`, `|` alternatives, wrapped continuation lines."""
    prods = []
    in_block = False
    lhs = None
    for ln in doc.splitlines():
        if ln.startswith("```"):
            in_block = not in_block
            continue
        if not in_block or ln.startswith("#") or not ln.strip():
            continue
        m = re.match(r"^(\S+)\s+->\s*(.*)$", ln)
        if m:
            lhs = m.group(1)
            prods.append([lhs, m.group(2).split()])
            continue
        m2 = re.match(r"^\s+\|\s*(.*)$", ln)
        if m2 and lhs is not None:
            prods.append([lhs, m2.group(1).split()])
        elif lhs is not None and prods:
            prods[-1][1] += ln.split()      # wrapped right-hand side
    return {(l, tuple(x for x in r if x != "<empty>")) for (l, r) in prods}


def parse_token_tables_from_md(doc):
    """Ordered [(pattern, symbol-cell)] of the `Pattern | Symbol` table; `\\|` in a cell is a literal `|`."""
    rules = []
    for ln in doc.splitlines():
        m = re.match(r"^`(.*?)`\s+\|\s+(`[^`]+`|\*no symbol emitted\*)\s*$", ln)
        if m:
            rules.append((m.group(1), m.group(2)))
    return rules


def main(args):
    run = core.Run("C09", args.tier, "proof", "./check C09 --tier " + args.tier)
    if args.replay:
        import json
        print(open(args.replay).read())
        return 0
    lr1 = importlib.import_module("compiler.front_end.lr1")
    cached_parser = importlib.import_module("compiler.front_end.generated.cached_parser")
    make_parser = importlib.import_module("compiler.front_end.make_parser")
    parser_mod = importlib.import_module("compiler.front_end.parser")
    frame_lemma(run)
    # E1: Parser.mark_error, the step that attaches an error message (code) to the state/terminal an example fails in
    from vlib import pool
    n0 = len(run.obligations)
    pool.run_targets(run, "contracts.lr1_table", ["mark_error"])
    for ob in run.obligations[n0:]:
        if ob.verdict == core.REFUTED and ob.replay is None:
            ob.replay = {"reproduced": False, "note": "the ground comparison of the cached and the freshly generated tables below is the replay on real data"}
    run.function("compiler.front_end.lr1.Parser.mark_error", "pyvc: the code is recorded for exactly the (state, terminal) - or the default of the state for ANY_TOKEN - in which the example fails at the stated token; "
                 "a different existing code is never overwritten; unexpected outcomes record nothing; no other entry is written")
    run.assume(*core.STANDING_ASSUMPTIONS["E1"])
    run.assume("mark_error: Parser.parse is replaced by its outcome (success, or an error at a token in a state); tokens are compared by identity")
    t0 = time.time()
    fresh_m, fresh_e = make_parser.build_module_parser(), make_parser.build_expression_parser()
    gen_s = time.time() - t0
    ns, nsym = compare_parsers(run, "module-parser", cached_parser.module_parser(), fresh_m, lr1)
    ns2, nsym2 = compare_parsers(run, "expression-parser", cached_parser.expression_parser(), fresh_e, lr1)
    # the parser embossc actually loads is the cached one (production test passes)
    mism = parser_mod.module_parser_cache_mismatch()
    ok = mism == (set(), set())
    run.add(core.Obligation("ground.loader.uses-cached-parser", core.PROVED if ok else core.REFUTED, "cpython-ground", 0.0,
                            detail="parser.module_parser_cache_mismatch() = %r" % (mism,), kind="ground",
                            replay=None if ok else {"reproduced": True, "inputs": repr(mism)[:500]}))
    loaded = parser_mod.module_parser()
    ok = loaded.action == cached_parser.module_parser().action and loaded.goto == cached_parser.module_parser().goto
    run.add(core.Obligation("ground.loader.loaded-tables-are-cached-tables", core.PROVED if ok else core.REFUTED, "cpython-ground", 0.0, kind="ground",
                            replay=None if ok else {"reproduced": True, "inputs": "parser.module_parser() differs from cached_parser.module_parser()"}))
    grammar_md_obligations(run)
    run.extra.update({"states_module_parser": ns, "symbols": nsym, "states_expression_parser": ns2, "fresh_generation_s": round(gen_s, 2),
                      "exhaustive": True})
    run.assume(*core.STANDING_ASSUMPTIONS["G"])
    run.assume("frame + ground => equality of ParseResult for every token sequence is a two-line paper argument (DESIGN 3/C09)",
               "parse_tree construction (Reduction, merge_source_locations) is a pure function of the popped children and the rule")
    run.trust("CPython", "ast read-set analysis in props/C09.py")
    return run.finish()
