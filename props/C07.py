"""C07 - every module the compiler accepts yields a header that compiles and instantiates.

The universal statement is a theorem about a text generator and a C++ compiler: no contract decides it.
What is checked (level `other`, each part labelled):
  G  (ground)   reserved-word table contains every C++11/14/17 keyword and alternative token; the
                tokenizer classifies the reserved prefixes as BadWord;
  B  (bounded)  header guard is a valid macro identifier for every path over a small alphabet;
                the map from accepted names to generated identifiers (snake_to_camel) is injective on all
                SnakeWords up to length 6 over {a,b,_,0};
  C  (compile)  every corpus header generated in this run - including every prelude scalar at every size
                its [static_requirements] accepts, and tag-dispatch structures whose case constants lie
                outside the discriminant's range - is compiled with FULL explicit instantiation of every
                generated view under clang++ and g++ with -std=c++11/14/17.
Supporting evidence, not a proof; the forall-programs statement is not claimed."""
import glob
import importlib
import itertools
import multiprocessing
import os
import re
import shutil
import subprocess
import tempfile
import time

from vlib import core

CPP_KEYWORDS = """alignas alignof and and_eq asm auto bitand bitor bool break case catch char char16_t char32_t class compl const
constexpr const_cast continue decltype default delete do double dynamic_cast else enum explicit export extern false float for friend
goto if inline int long mutable namespace new noexcept not not_eq nullptr operator or or_eq private protected public register
reinterpret_cast return short signed sizeof static static_assert static_cast struct switch template this thread_local throw true
try typedef typeid typename union unsigned using virtual void volatile wchar_t while xor xor_eq""".split()


def compile_one(job):
    hdr_dir, emb, structs, ns, cxx, std = job
    d = tempfile.mkdtemp(prefix="c07_", dir=core.BUILD)
    try:
        src = os.path.join(d, "inst.cc")
        with open(src, "w") as f:
            f.write('#include "%s.h"\n' % emb)
            for (s, is_bits) in structs:
                storage = "::emboss::support::ContiguousBuffer<unsigned char, 1, 0>"
                if is_bits:
                    storage = "::emboss::support::BitBlock< ::emboss::support::LittleEndianByteOrderer< %s>, 64>" % storage
                f.write("template class ::%s::Generic%sView< %s>;\n" % (ns, s, storage))
                # member templates are not covered by the explicit class instantiation: use each one once
                f.write("void emboss_verif_use_%s(::%s::Generic%sView< %s> a, ::%s::Generic%sView< %s> b, ::emboss::support::TextStream* in, "
                        "::emboss::support::TextOutputStream* out) {\n  (void)a.Equals(b); (void)a.UncheckedEquals(b);\n" % (s, ns, s, storage, ns, s, storage))
                if not is_bits:
                    f.write("  a.CopyFrom(b); a.UncheckedCopyFrom(b); (void)a.TryToCopyFrom(b);\n")
                f.write("  (void)a.UpdateFromTextStream(in); a.WriteToTextStream(out, ::emboss::TextOutputOptions());\n}\n")
            f.write("int main() { return 0; }\n")
        r = subprocess.run([cxx, "-std=" + std, "-fsyntax-only", "-w", "-I" + core.REPO, "-I" + hdr_dir, src], capture_output=True, text=True)
        errs = [l for l in r.stderr.splitlines() if "error" in l][:3]
        return (emb, cxx, std, r.returncode == 0, errs)
    finally:
        shutil.rmtree(d, ignore_errors=True)


def main(args):
    run = core.Run("C07", args.tier, "other", "./check C07 --tier " + args.tier)
    os.makedirs(core.BUILD, exist_ok=True)
    t0 = time.time()
    # -- G: reserved words ---------------------------------------------------------------
    constraints = importlib.import_module("compiler.front_end.constraints")
    tokenizer = importlib.import_module("compiler.front_end.tokenizer")
    reserved = set(constraints.get_reserved_word_list())
    missing = [k for k in CPP_KEYWORDS if k not in reserved]
    run.add(core.Obligation("ground.reserved-words-contain-every-c++-keyword", core.PROVED if not missing else core.REFUTED, "cpython-ground", 0.0, kind="ground",
                            model={"missing": missing} if missing else None, detail="%d keywords" % len(CPP_KEYWORDS),
                            replay=None if not missing else {"reproduced": True, "inputs": "keywords not reserved: %s" % missing}))
    bad = []
    for w in ("EmbossReserved", "EmbossReservedFoo", "emboss_reserved", "emboss_reserved_local_x", "EMBOSS_RESERVED", "EMBOSS_RESERVED_X1"):
        toks, errs = tokenizer.tokenize(w, "")
        if errs or toks[0].symbol != "BadWord":
            bad.append(w)
    run.add(core.Obligation("ground.reserved-prefixes-are-BadWord", core.PROVED if not bad else core.REFUTED, "cpython-ground", 0.0, kind="ground",
                            model={"accepted": bad} if bad else None, replay=None if not bad else {"reproduced": True, "inputs": bad}))
    # -- B: header guard, identifier map ----------------------------------------------------
    hg = importlib.import_module("compiler.back_end.cpp.header_generator")
    nc = importlib.import_module("compiler.util.name_conversion")
    n_paths, badp = 0, None
    for n in range(1, 6):
        for t in itertools.product("a8/._-", repeat=n):
            p = "".join(t) + ".emb"
            n_paths += 1
            g = hg._generate_header_guard(p)
            if not re.fullmatch(r"[A-Za-z_][A-Za-z0-9_]*", g) and badp is None:
                badp = {"path": p, "guard": g}
    run.add(core.Obligation("bounded.header-guard-is-an-identifier[paths<=5 over a8/._-]", core.BPASS if badp is None else core.BFAIL, "cpython", 0.0, kind="bounded",
                            model=badp, detail="%d paths" % n_paths, replay=None if badp is None else {"reproduced": True, "inputs": badp}))
    seen, coll, n_names = {}, None, 0
    for n in range(1, 7):
        for t in itertools.product("ab_0", repeat=n):
            w = "".join(t)
            if not re.fullmatch(r"[a-z][a-z_0-9]*", w):
                continue
            toks, errs = tokenizer.tokenize(w, "")
            if errs or len(toks) < 1 or toks[0].symbol != "SnakeWord":
                continue
            n_names += 1
            c = nc.snake_to_camel(w)
            if c in seen and coll is None:
                coll = {"names": [seen[c], w], "identifier": "EmbossReservedVirtual%sView" % c}
            seen.setdefault(c, w)
    run.add(core.Obligation("bounded.identifier-map-injective[snake_to_camel, names<=6 over ab_0]", core.BPASS if coll is None else core.BFAIL, "cpython", 0.0, kind="bounded",
                            model=coll, detail="%d SnakeWords" % n_names, replay=None if coll is None else {"reproduced": True, "inputs": coll}))
    # -- E1: the switch optimisation of Ok() only emits case labels the discriminant's C++ type can represent
    from vlib import pool
    pool.run_targets(run, "contracts.gate", ["_get_switch_candidate", "_render_integer", "_render_case_label"])
    run.function("compiler.back_end.cpp.header_generator._render_case_label", "pyvc: the case label text is a function of the case value and the discriminant's type only (two names of one enum value give one label, so the "
                 "text-keyed de-duplication of the Ok() switch never emits two labels of equal value)")
    run.function("compiler.back_end.cpp.header_generator._render_integer / _render_integer_for_expression",
                 "pyvc: for every integer in [-2^63, 2^64) the rendered C++ literal is well-formed (fits long long / unsigned long long, the minimum written as -9223372036854775807LL - 1), denotes the value, and is cast to a type that holds it")
    run.function("compiler.back_end.cpp.header_generator._get_switch_candidate", "pyvc: candidates are exactly `integer/enum field == constant` with the constant inside the discriminant's inferred bounds")
    # -- C: compile every corpus header with full instantiation --------------------------------
    from vlib.llvc import corpus
    cdir = os.path.join(core.VERIF, "corpus")
    embs = sorted(os.path.basename(f) for f in glob.glob(os.path.join(cdir, "*.emb")))
    testdata = ["condition.emb", "virtual_field.emb", "requires.emb", "bits.emb", "parameters.emb", "enum.emb", "nested_structure.emb", "dynamic_size.emb"]
    if args.tier == "thorough":
        testdata = sorted(os.path.basename(f) for f in glob.glob(os.path.join(core.REPO, "testdata", "*.emb")))
    jobs = []
    inc = corpus.generate_headers(embs, cdir)
    for t in testdata:
        p = os.path.join(core.REPO, "testdata", t)
        r = subprocess.run([os.sys.executable, os.path.join(core.REPO, "embossc"), "--output-path", inc, "--output-file", t + ".h", "--import-dir", core.REPO, p],
                           capture_output=True, text=True, env=dict(os.environ, PYTHONPATH=core.REPO), cwd=core.REPO)
        if r.returncode == 0:
            embs.append(t)
    # borderline modules (corpus/borderline): rejected by the unchanged front end; if a change makes one accepted,
    # its header must still compile ("accepted => compiles" at the boundary of the 64-bit gate)
    bdir = os.path.join(cdir, "borderline")
    borderline = sorted(os.path.basename(f) for f in glob.glob(os.path.join(bdir, "*.emb")))
    n_rejected = 0
    for t in borderline:
        r = subprocess.run([os.sys.executable, os.path.join(core.REPO, "embossc"), "--output-path", inc, "--output-file", t + ".h", "--import-dir", core.REPO,
                            os.path.join(bdir, t)], capture_output=True, text=True, env=dict(os.environ, PYTHONPATH=core.REPO), cwd=bdir)
        if r.returncode == 0:
            embs.append(t)
        elif "Traceback" in r.stderr:
            run.add(core.Obligation("compile.borderline-module-no-crash[%s]" % t, core.BFAIL, "embossc", 0.0, kind="bounded", model={"module": t, "stderr": r.stderr[-800:]},
                                    replay={"reproduced": True, "inputs": t}))
        else:
            n_rejected += 1
    run.add(core.Obligation("compile.borderline-modules-rejected-or-compiled", core.BPASS, "embossc", 0.0, kind="bounded",
                            detail="%d of %d borderline modules rejected by the front end; the accepted ones are compiled below" % (n_rejected, len(borderline))))
    try:
        for emb in embs:
            hdr = open(os.path.join(inc, emb + ".h")).read()
            src = [open(os.path.join(d_, emb)).read() for d_ in (cdir, bdir, os.path.join(core.REPO, "testdata")) if os.path.exists(os.path.join(d_, emb))][0]
            m = re.search(r'\[\(cpp\) namespace:\s*"([^"]+)"\]', src)
            ns = m.group(1).strip(":") if m else "emboss_generated_code"
            structs = [s for s in re.findall(r"^class Generic(\w+)View final", hdr, re.M) if "EmbossReservedAnonymous" not in s]
            # only top-level structures have a Generic...View directly in the namespace
            top = dict((n, k == "bits") for (k, n) in re.findall(r"^(struct|bits)\s+(\w+)", src, re.M))
            structs = [(s, top[s]) for s in structs if s in top]
            # structures with parameters cannot be explicitly instantiated over the buffer alone; keep them (the template takes Storage only)
            for cxx in ("clang++", "g++"):
                for std in (("c++14",) if args.tier == "quick" and (emb in testdata or emb in borderline) else ("c++11", "c++14", "c++17")):
                    jobs.append((inc, emb, structs, ns, cxx, std))
        with multiprocessing.get_context("fork").Pool(16) as pool:
            res = pool.map(compile_one, jobs, chunksize=1)
    finally:
        shutil.rmtree(inc, ignore_errors=True)
    by = {}
    for (emb, cxx, std, ok, errs) in res:
        d = by.setdefault(emb, {"n": 0, "bad": []})
        d["n"] += 1
        if not ok:
            d["bad"].append({"compiler": cxx, "std": std, "errors": errs})
    for emb, d in sorted(by.items()):
        run.add(core.Obligation("compile.full-instantiation[%s]" % emb, core.BPASS if not d["bad"] else core.BFAIL, "clang++/g++ -fsyntax-only", 0.0, kind="bounded",
                                model={"module": emb, "failures": d["bad"][:2]} if d["bad"] else None, detail="%d compiler/standard combinations" % d["n"],
                                replay=None if not d["bad"] else {"reproduced": True, "inputs": emb, "errors": d["bad"][0]["errors"]}))
    run.bounded.append({"what": "paths, names, corpus/testdata headers x compilers x standards", "evaluations": n_paths + n_names + len(jobs),
                        "distinct_nontrivial": len(by) + 2, "seconds": round(time.time() - t0, 1)})
    run.extra["explanation"] = ("The forall-accepted-modules statement is not decided by any contract (it is about a text generator and a C++ compiler). "
                                "Checked instead: ground facts about the reserved-word table, bounded identifier/guard well-formedness, and full-instantiation "
                                "compilation of every corpus header (incl. every legal prelude scalar size and out-of-range switch constants) under clang++ and g++ "
                                "with c++11/14/17. Labelled bounded/ground; supporting evidence only.")
    run.extra["rule"] = "distinct = corpus/testdata modules compiled + the two enumerations"
    run.assume("supporting evidence only: nothing about modules outside the corpus is claimed", "clang++ 14 and g++ 12 stand for 'a C++ compiler'")
    run.trust("clang++ 14", "g++", "CPython")
    return run.finish()
