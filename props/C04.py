"""C04 - checked view operations never leave the buffer or hit undefined behaviour.

Layer 1 (E2a): for every scalar-view wrapper of C02/C03 (all types, widths, containers, orders,
symbolic offsets, symbolic buffer length incl. empty/truncated, arbitrary contents) no ubsantrap and
no __assert_fail is reachable, every load/store lies inside the backing region, no poison reaches a
use.  Layer 2 (E1): the 64-bit gate of constraints.py."""
from vlib.llvc import viewcheck


def main(args):
    def keep(n):
        return bool(viewcheck.SAFETY.search(n)) or n.endswith(".cover") or n.endswith(".returns-cover")
    import os, shutil
    from vlib import core
    from vlib.llvc import corpus
    from corpus import specs
    inc = corpus.generate_headers(sorted({s.emb for s in specs.ALL.values()}), os.path.join(core.VERIF, "corpus"))
    try:
        from contracts import cpp_arith, cpp_array, text_codec
        extra_jobs = cpp_arith.jobs(args.tier) + cpp_array.jobs(args.tier) + text_codec.jobs(args.tier)
        for j in extra_jobs:
            j["only_safety"] = True
        more = (extra_jobs + corpus.read_jobs("corpus.specs", list(specs.ALL), inc, only_safety=True) + corpus.vwrite_jobs("corpus.specs", inc, only_safety=True)
                + corpus.c20_jobs("corpus.specs", [n for n, s in specs.ALL.items() if getattr(s, "c20", True)], inc, only_safety=True))
        r = viewcheck.run("C04", args, ["UInt", "Int", "Bcd", "Flag", "Float", "Enum"], ["read", "write"], keep=keep, enum_subset_in_quick=True, only_safety=True, more_jobs=more,
                          functions=["every function under contract in C02 and C03 (same wrappers, safety obligations)",
                                     "emboss_arithmetic.h templates, GenericArrayView, DecodeInteger / WriteIntegerToTextStream (safety obligations of the C01/C20/C06 wrappers)",
                                     "generated views of the corpus structures: Ok/IsComplete/SizeIsKnown/has_x/x().Ok/Read/CouldWriteValue/TryToWrite/Equals/TryToCopyFrom harnesses (safety obligations)"])
    finally:
        shutil.rmtree(inc, ignore_errors=True)
    if isinstance(r, int):
        return r
    # Layer 2 (E1): the 64-bit gate and IntermediateT selection
    from vlib import pool, core
    from contracts import gate
    pool.run_targets(r, "contracts.gate", [t for t in gate.TARGETS if t != "_cpp_integer_type_for_enum"])
    for f in ("compiler.front_end.constraints._bounds_can_fit_64_bit_unsigned", "compiler.front_end.constraints._bounds_can_fit_64_bit_signed",
              "compiler.front_end.constraints._bounds_can_fit_any_64_bit_integer_type", "compiler.front_end.constraints._integer_bounds_errors",
              "compiler.front_end.constraints._integer_bounds_errors_for_expression", "compiler.back_end.cpp.header_generator._cpp_integer_type_for_range"):
        r.function(f, "pyvc: body executed symbolically against sidecar contract (contracts/gate.py)")
    r.assume(*core.STANDING_ASSUMPTIONS["E1"])
    r.assume("layer 3 (C05 soundness + gate => the requires of the arithmetic templates) is a paper composition")
    r.assume("text output / UpdateFromText: only the integer codec (DecodeInteger, WriteIntegerToTextStream) is under contract; the token reader and the per-structure text methods (std::string, std::vector, stream templates) are not",
             "pointer formation beyond a region without dereference (ContiguousBuffer::GetOffsetStorage) is not checked: the observation point is the sanitizers")
    r.extra["not_covered"] = ["programs outside the corpus", "text I/O above the integer codec (ReadToken, per-structure UpdateFromTextStream / WriteToTextStream)"]
    return r.finish()
