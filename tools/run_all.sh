#!/bin/bash
# tools/run_all.sh [tier]: run every registered check on the current tree and summarise (refreshes evidence/).
cd /verif
TIER="${1:-quick}"
git -C /repo diff --quiet || { echo "/repo has uncommitted changes"; exit 9; }
for id in $(python3 -c "import json; print(' '.join(c['property_id'] for c in json.load(open('MANIFEST.json'))['checks']))"); do
  /usr/bin/time -f "%e s" ./check $id --tier $TIER > build/run_all_$id.log 2>&1
  echo "$id exit=$? $(grep 'tier=' build/run_all_$id.log | tail -1 | cut -c1-170) [$(tail -1 build/run_all_$id.log)]"
done
