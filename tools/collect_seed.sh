#!/bin/bash
# tools/collect_seed.sh <ID> <name> <needs> <caught_by>: store a validated seed under /verif/seeded/<name>/
ID="$1"; NAME="$2"; NEEDS="$3"; CAUGHT="$4"; WT="/tmp/wt/${5:-$ID}"
D=/verif/seeded/$NAME; mkdir -p $D
cp $WT/SEED/patch.diff $D/patch.diff
for f in $WT/SEED/*; do case "$f" in */build|*/patch.diff|*.log) ;; *) cp -r "$f" $D/ ;; esac; done
python3 - "$ID" "$NAME" "$NEEDS" "$CAUGHT" <<'PY'
import json, sys
pid, name, needs, caught = sys.argv[1:5]
json.dump({"property": pid, "name": name, "needs_to_manifest": needs,
           "confirmed": "tools/validate_seed.sh: demo exits non-zero with the patch and 0 without; pinned suite with the patch: 1069 passed (same 1 failed / 2 errors as the untouched tree)",
           "detected_by": caught, "source": "independent sub-agent given only the property text and a scratch worktree"},
          open("/verif/seeded/%s/meta.json" % name, "w"), indent=1)
PY
echo stored $D
