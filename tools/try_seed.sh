#!/bin/bash
# tools/try_seed.sh <patch.diff> <ID> [<ID>...]: apply a seeded change to /repo, run the checks, always undo.
P="$1"; shift
cd /repo || exit 9
git diff --quiet || { echo "/repo has uncommitted changes"; exit 9; }
git apply "$P" || { echo "patch does not apply"; exit 9; }
trap 'git -C /repo checkout -- . ; git -C /repo clean -fdq compiler runtime 2>/dev/null' EXIT
cd /verif
for id in "$@"; do
  # the evidence file of a run on a SEEDED tree must never stay behind (it would be committed as if it were a record of /repo)
  cp evidence/$id.json /tmp/try_seed_evidence_$id.json 2>/dev/null
  ./check "$id" --tier "${TIER:-quick}" > /tmp/try_seed_$id.log 2>&1
  rc=$?
  if [ -f /tmp/try_seed_evidence_$id.json ]; then mv /tmp/try_seed_evidence_$id.json evidence/$id.json; else rm -f evidence/$id.json; fi
  echo "== $id exit $rc : $(grep -c '^VIOLATION' /tmp/try_seed_$id.log) VIOLATION lines"
  grep '^VIOLATION' /tmp/try_seed_$id.log | head -3 | cut -c1-250
  tail -1 /tmp/try_seed_$id.log | cut -c1-250
done
