#!/bin/bash
# tools/validate_seed.sh <ID> [<worktree>]: confirm a sub-agent's seeded change in its scratch worktree:
# demo fails with the patch, passes without; the pinned suite still passes with it.
ID="$1"; WT="${2:-/tmp/wt/$ID}"
cd "$WT" || exit 9
git checkout -q -- . 2>/dev/null; git apply SEED/patch.diff || { echo "patch does not apply"; exit 9; }
bash SEED/demo.sh > SEED/demo_with.log 2>&1; W=$?
SUITE=$(/venv/bin/python -m pytest -q -p no:cacheprovider --timeout=900 --continue-on-collection-errors 2>&1 | tail -1)
git apply -R SEED/patch.diff
bash SEED/demo.sh > SEED/demo_without.log 2>&1; WO=$?
git apply SEED/patch.diff
echo "$ID demo_with_patch_exit=$W demo_without_patch_exit=$WO suite_with_patch: $SUITE"
