"""Reference specifications of the corpus structures, written by hand from doc/language-reference.md
(NOT derived from the compiler's IR).  See vlib/llvc/corpus.py for the DSL."""
from vlib.llvc.corpus import Struct, F, V, UInt, Int, Bcd, Flag, Enum, Bytes, M, MB, choice, maximum

NS = "corpus::basic"

Plain = Struct("Plain", NS, emb="basic.emb", fields=[
    F("a", 0, 1, UInt()),
    F("b", 1, 2, UInt()),
    F("c", 3, 2, Int()),
    F("d", 5, 4, UInt(), order="BE"),
])

Cond = Struct("Cond", NS, emb="basic.emb", fields=[
    F("tag", 0, 1, UInt()),
    F("one", 1, 2, UInt(), cond=lambda f: f.tag == 1),
    F("big", 1, 1, Int(), cond=lambda f: f.tag > 10),
    F("tail", 4, 1, UInt(), cond=lambda f: (f.tag == 1) | (f.tag == 2)),
])

Dyn = Struct("Dyn", NS, emb="basic.emb", fields=[
    F("off", 0, 1, UInt()),
    F("len", 1, 1, UInt()),
    F("at_off", lambda f: f.off, 2, UInt()),
    F("payload", 2, lambda f: f.len, Bytes(), cond=lambda f: f.len > 2),
])

Virt = Struct("Virt", NS, emb="basic.emb", fields=[
    F("x", 0, 1, UInt()),
    F("y", 1, 1, Int()),
    V("sum", lambda f: f.x + f.y),
    V("twice", lambda f: f.x * 2),
    V("is_big", lambda f: f.x > 100, boolean=True),
    V("pick", lambda f: choice(f.is_big, f.x - 100, f.x)),
    V("mx", lambda f: maximum(f.x, 17, f.y)),
    V("k", lambda f: M(True, 7)),
    V("ub", lambda f: M(True, 258)),            # $upper_bound(x + 3) with x: UInt:8 is 255 + 3
    F("z", 2, 1, UInt(), cond=lambda f: f.sum > 0),
    V("shifted", lambda f: f.x + 100, writable=("transform", lambda v: v - 100, "x")),
    V("alias_x", lambda f: f.x, writable=("alias", "x")),
])

Kleene = Struct("Kleene", NS, emb="basic.emb", fields=[
    F("a", 0, 1, UInt()),
    F("b", 1, 1, UInt()),
    F("c", 2, 2, UInt(), cond=lambda f: (f.a == 1) | (f.b == 1)),
    F("d", 4, 1, UInt(), cond=lambda f: (f.a == 1) & (f.b == 1)),
    V("either", lambda f: (f.a == 1) | (f.b == 1), boolean=True),
    V("both", lambda f: (f.a > 5) & (f.b > 5), boolean=True),
])

Absent = Struct("Absent", NS, emb="basic.emb", fields=[
    F("a", 0, 1, UInt()),
    F("b", 1, 1, UInt(), cond=lambda f: f.a > 10),
    F("c", 2, 1, UInt(), cond=lambda f: (f.a == 1) | (f.b == 1)),
    F("d", 3, 1, UInt(), cond=lambda f: (f.a == 2) & (f.b == 1)),
])

Checked = Struct("Checked", NS, emb="basic.emb", fields=[
    F("small", 0, 1, UInt(), requires=lambda this, f: this <= 9),
    F("digits", 1, 1, Bcd()),
    F("plain", 2, 2, UInt()),
])

NS2 = "corpus::more"

WithBits = Struct("WithBits", NS2, emb="more.emb", fields=[
    F("head", 0, 1, UInt()),
    # the anonymous `bits` at 1 [+2]: the container counts towards the size, its members are hoisted as aliases
    F("anon", 1, 2, Bytes(), observe=False),
    F("low", 1, 2, UInt(), bits=(0, 3), contribute=False),
    F("mid", 1, 2, Int(), bits=(3, 5), contribute=False),
    F("flag", 1, 2, Flag(), bits=(8, 1), contribute=False),
    F("high", 1, 2, UInt(), bits=(9, 7), contribute=False),
    F("named", 3, 1, Bytes(), observe=False),
    F("nib_lo", 3, 1, UInt(), bits=(0, 4), contribute=False, path=["named", "nib_lo"]),
    F("nib_hi", 3, 1, Int(), bits=(4, 4), contribute=False, path=["named", "nib_hi"]),
    V("combo", lambda f: f.low + f.nib_lo),
])

Param = Struct("Param", NS2, emb="more.emb", params=[("n", "::std::uint8_t")], fields=[
    F("first", 0, 1, UInt()),
    F("tail", lambda f: f.n, 1, UInt(), cond=lambda f: f.n > 3),
    V("twice_n", lambda f: f.n * 2),
])

Nested = Struct("Nested", NS2, emb="more.emb", fields=[
    F("kind", 0, 1, UInt()),
    F("inner", 1, 3, Bytes(), observe=False),
    F("inner_a", 1, 1, UInt(), contribute=False, path=["inner", "a"]),
    F("inner_b", 2, 2, UInt(), order="BE", contribute=False, path=["inner", "b"]),
    V("total", lambda f: f.inner_a + f.inner_b),
    F("extra", 4, 1, UInt(), cond=lambda f: f.inner_a == 7),
])

Req = Struct("Req", NS2, emb="more.emb", requires=lambda f: f.lo <= f.hi, fields=[
    F("lo", 0, 1, UInt()),
    F("hi", 1, 1, UInt()),
])

Next = Struct("Next", NS2, emb="more.emb", fields=[
    F("a", 0, 1, UInt()),
    F("b", 1, 2, UInt()),        # $next after a: 0 + 1
    F("c", 3, 1, UInt()),        # $next after b: 1 + 2
])

EnumField = Struct("EnumField", NS2, emb="more.emb", fields=[
    F("color", 0, 2, Enum("::corpus::more::Color")),
    F("blue", 2, 1, UInt(), cond=lambda f: f.color == 300),
    V("is_red", lambda f: f.color == 1, boolean=True),
])
CondAnon = Struct("CondAnon", NS2, emb="more.emb", fields=[
    F("tag", 0, 1, UInt()),
    F("body", 1, 1, UInt()),
    F("anon", 2, 1, Bytes(), observe=False, cond=lambda f: f.tag == 1),
    F("lo", 2, 1, UInt(), bits=(0, 4), contribute=False, cond=lambda f: f.tag == 1),
    F("hi", 2, 1, UInt(), bits=(4, 4), contribute=False, cond=lambda f: f.tag == 1),
    V("body_alias", lambda f: f.body, cond=lambda f: f.tag == 2),
])
# (WithBits and Nested: Equals over named containers / nested structures = equality of their scalar members)

Dyn.c20 = False       # array field: element-wise Equals needs loop invariants, not unrolling (not covered)
ALL = {"Plain": Plain, "Cond": Cond, "Dyn": Dyn, "Virt": Virt, "Kleene": Kleene, "Absent": Absent, "Checked": Checked,
       "WithBits": WithBits, "Param": Param, "Nested": Nested, "Req": Req, "Next": Next, "EnumField": EnumField, "CondAnon": CondAnon}


# ---------------------------------------------------------------------------
# enums (corpus/enums.emb): ordered (declared name, value) pairs exactly as written; the expected C++
# underlying type is stated independently (declared signedness, smallest of 8/16/32/64 >= maximum_bits)
from vlib.llvc.corpus import EnumSpec

ENUM_Kind = EnumSpec("Kind", "corpus::enums", "uint64_t",
                     [("ALPHA", 1), ("BETA", 2), ("ALSO_BETA", 2), ("ALPHABET", 26), ("BIG", 4294967296)], "enums.emb")
ENUM_Signed = EnumSpec("Signed", "corpus::enums", "int16_t",
                       [("MINUS_ONE", -1), ("LOW", -32768), ("HIGH", 32767), ("ZERO", 0)], "enums.emb")
ENUM_Wide = EnumSpec("Wide", "corpus::enums", "uint64_t", [("TOP", 18446744073709551615), ("NONE", 0)], "enums.emb")
ENUMS = {"Kind": ENUM_Kind, "Signed": ENUM_Signed, "Wide": ENUM_Wide}
