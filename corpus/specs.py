"""Reference specifications of the corpus structures, written by hand from doc/language-reference.md
(NOT derived from the compiler's IR).  See vlib/llvc/corpus.py for the DSL."""
from vlib.llvc.corpus import Struct, F, V, UInt, Int, Bcd, Flag, Enum, Bytes, M, MB, choice, maximum

NS = "corpus::basic"

Plain = Struct("Plain", NS, emb="basic.emb", fields=[
    F("a", 0, 1, UInt()),
    F("b", 1, 2, UInt()),
    F("c", 3, 2, Int()),
    F("d", 5, 4, UInt(), order="BE"),
])

Cond = Struct("Cond", NS, emb="basic.emb", fields=[
    F("tag", 0, 1, UInt()),
    F("one", 1, 2, UInt(), cond=lambda f: f.tag == 1),
    F("big", 1, 1, Int(), cond=lambda f: f.tag > 10),
    F("tail", 4, 1, UInt(), cond=lambda f: (f.tag == 1) | (f.tag == 2)),
])

Dyn = Struct("Dyn", NS, emb="basic.emb", fields=[
    F("off", 0, 1, UInt()),
    F("len", 1, 1, UInt()),
    F("at_off", lambda f: f.off, 2, UInt()),
    F("payload", 2, lambda f: f.len, Bytes(), cond=lambda f: f.len > 2),
])

Virt = Struct("Virt", NS, emb="basic.emb", fields=[
    F("x", 0, 1, UInt()),
    F("y", 1, 1, Int()),
    V("sum", lambda f: f.x + f.y),
    V("twice", lambda f: f.x * 2),
    V("is_big", lambda f: f.x > 100, boolean=True),
    V("pick", lambda f: choice(f.is_big, f.x - 100, f.x)),
    V("mx", lambda f: maximum(f.x, 17, f.y)),
    V("k", lambda f: M(True, 7)),
    V("ub", lambda f: M(True, 258)),            # $upper_bound(x + 3) with x: UInt:8 is 255 + 3
    F("z", 2, 1, UInt(), cond=lambda f: f.sum > 0),
    V("shifted", lambda f: f.x + 100, writable=("transform", lambda v: v - 100, "x")),
    V("alias_x", lambda f: f.x, writable=("alias", "x")),
])

Kleene = Struct("Kleene", NS, emb="basic.emb", fields=[
    F("a", 0, 1, UInt()),
    F("b", 1, 1, UInt()),
    F("c", 2, 2, UInt(), cond=lambda f: (f.a == 1) | (f.b == 1)),
    F("d", 4, 1, UInt(), cond=lambda f: (f.a == 1) & (f.b == 1)),
    V("either", lambda f: (f.a == 1) | (f.b == 1), boolean=True),
    V("both", lambda f: (f.a > 5) & (f.b > 5), boolean=True),
])

Absent = Struct("Absent", NS, emb="basic.emb", fields=[
    F("a", 0, 1, UInt()),
    F("b", 1, 1, UInt(), cond=lambda f: f.a > 10),
    F("c", 2, 1, UInt(), cond=lambda f: (f.a == 1) | (f.b == 1)),
    F("d", 3, 1, UInt(), cond=lambda f: (f.a == 2) & (f.b == 1)),
])

Checked = Struct("Checked", NS, emb="basic.emb", fields=[
    F("small", 0, 1, UInt(), requires=lambda this, f: this <= 9),
    F("digits", 1, 1, Bcd()),
    F("plain", 2, 2, UInt()),
])

Dyn.c20 = False       # array field: element-wise Equals needs loop invariants, not unrolling (not covered)
ALL = {"Plain": Plain, "Cond": Cond, "Dyn": Dyn, "Virt": Virt, "Kleene": Kleene, "Absent": Absent, "Checked": Checked}


# ---------------------------------------------------------------------------
# enums (corpus/enums.emb): ordered (declared name, value) pairs exactly as written; the expected C++
# underlying type is stated independently (declared signedness, smallest of 8/16/32/64 >= maximum_bits)
from vlib.llvc.corpus import EnumSpec

ENUM_Kind = EnumSpec("Kind", "corpus::enums", "uint64_t",
                     [("ALPHA", 1), ("BETA", 2), ("ALSO_BETA", 2), ("ALPHABET", 26), ("BIG", 4294967296)], "enums.emb")
ENUM_Signed = EnumSpec("Signed", "corpus::enums", "int16_t",
                       [("MINUS_ONE", -1), ("LOW", -32768), ("HIGH", 32767), ("ZERO", 0)], "enums.emb")
ENUM_Wide = EnumSpec("Wide", "corpus::enums", "uint64_t", [("TOP", 18446744073709551615), ("NONE", 0)], "enums.emb")
ENUMS = {"Kind": ENUM_Kind, "Signed": ENUM_Signed, "Wide": ENUM_Wide}
