// Bounded stand-in for the structure-level sentence of C06: UpdateFromText(WriteToString(view, options)) into a zeroed
// buffer of the same size succeeds and yields a view that Equals the original, for enumerated buffers and every
// re-readable option set.  Run natively (ASan+UBSan) by props/C06.py; prints one line per failure.
#include "text_rt.emb.h"
#include <cstdio>
#include <cstdlib>
#include <cstring>
#include <string>
#include <vector>
#include <cstdint>

static uint64_t rng_state;
static uint64_t rnd() { rng_state ^= rng_state << 13; rng_state ^= rng_state >> 7; rng_state ^= rng_state << 17; return rng_state; }
static long g_trips = 0, g_fail = 0, g_skipped = 0;

static long g_known = 0;
template <class MakeFn>
static void roundtrip(const char* name, MakeFn make, const std::vector<unsigned char>& buf, bool has_multi_element_array = false) {
  std::vector<unsigned char> src(buf);
  auto v = make(src.data(), src.size());
  if (!v.Ok()) { ++g_skipped; return; }
  for (int base : {2, 10, 16}) for (int grouping = 0; grouping < 2; ++grouping) for (int multiline = 0; multiline < 2; ++multiline)
    for (int comments = 0; comments < (multiline ? 2 : 1); ++comments) {   // a comment runs to the end of the line: only multi-line output with comments is re-readable
      ::emboss::TextOutputOptions o = ::emboss::TextOutputOptions().WithNumericBase(base).WithDigitGrouping(grouping != 0).Multiline(multiline != 0).WithComments(comments != 0);
      if (multiline) o = o.WithIndent("  ");
      std::string text = ::emboss::WriteToString(v, o);
      std::vector<unsigned char> dst(buf.size(), 0);
      auto w = make(dst.data(), dst.size());
      bool ok = ::emboss::UpdateFromText(w, text);
      ++g_trips;
      if (!ok || !w.Ok() || !v.Equals(w) || !w.Equals(v)) {
        if (multiline && has_multi_element_array) {
          // category of its own: multi-line output puts no comma between array elements (see known_findings.json KF-C06-1)
          if (g_known++ == 0) { printf("FAIL-MULTILINE-ARRAY %s base=%d grouping=%d comments=%d buffer=", name, base, grouping, comments); for (unsigned char c : buf) printf("%02x", c); printf("\n"); }
          continue;
        }
        ++g_fail;
        if (g_fail <= 5) {
          printf("FAIL %s base=%d grouping=%d multiline=%d comments=%d update=%d ok=%d buffer=", name, base, grouping, multiline, comments, ok, (int)w.Ok());
          for (unsigned char c : buf) printf("%02x", c);
          printf(" text=%s\n", text.c_str());
        }
      }
    }
}

// Float fields: NaN != NaN, so the restored BYTES are compared (sign, exponent, payload of NaNs included).
static void float_roundtrip(const std::vector<unsigned char>& buf) {
  std::vector<unsigned char> src(buf);
  auto v = corpus::textrt::MakeFloatsView(src.data(), src.size());
  if (!v.Ok()) { ++g_skipped; return; }
  for (int base : {2, 10, 16}) for (int grouping = 0; grouping < 2; ++grouping) for (int multiline = 0; multiline < 2; ++multiline)
    for (int comments = 0; comments < (multiline ? 2 : 1); ++comments) {
      ::emboss::TextOutputOptions o = ::emboss::TextOutputOptions().WithNumericBase(base).WithDigitGrouping(grouping != 0).Multiline(multiline != 0).WithComments(comments != 0);
      if (multiline) o = o.WithIndent("  ");
      std::string text = ::emboss::WriteToString(v, o);
      std::vector<unsigned char> dst(buf.size(), 0);
      auto w = corpus::textrt::MakeFloatsView(dst.data(), dst.size());
      bool ok = ::emboss::UpdateFromText(w, text);
      ++g_trips;
      if (!ok || dst != buf) {
        ++g_fail;
        if (g_fail <= 5) {
          printf("FAIL Floats base=%d grouping=%d multiline=%d comments=%d update=%d buffer=", base, grouping, multiline, comments, ok);
          for (unsigned char c : buf) printf("%02x", c);
          printf(" restored=");
          for (unsigned char c : dst) printf("%02x", c);
          printf(" text=%s\n", text.c_str());
        }
      }
    }
}

int main(int argc, char** argv) {
  rng_state = argc > 1 ? strtoull(argv[1], 0, 10) * 2654435761u + 88172645463325252ull : 88172645463325252ull;
  int n_random = argc > 2 ? atoi(argv[2]) : 200;
  auto mk_scalars = [](unsigned char* p, size_t n) { return corpus::textrt::MakeScalarsView(p, n); };
  auto mk_shapes = [](unsigned char* p, size_t n) { return corpus::textrt::MakeShapesView(p, n); };
  const uint64_t edge64[] = {0, 1, 0x7f, 0x80, 0xff, 0x7fff, 0x8000, 0xffff, 0x7fffffffull, 0x80000000ull, 0xffffffffull, 0x7fffffffffffffffull,
                             0x8000000000000000ull, 0x8000000000000001ull, 0xffffffffffffffffull, 0xdeadbeefcafef00dull};
  const unsigned char smalls[] = {0xfd, 0x00, 0x05};
  for (int i = 0; i < 16 + n_random; ++i) {
    std::vector<unsigned char> b(36, 0);
    for (auto& c : b) c = (unsigned char)rnd();
    uint64_t e = edge64[i % 16], f = edge64[(i * 7 + 3) % 16];
    if (i < 64) { memcpy(&b[7], &e, 8); memcpy(&b[15], &f, 8); memcpy(&b[24], &e, 8); memcpy(&b[3], &f, 4); b[0] = (unsigned char)e; b[1] = (unsigned char)(f >> 8); b[2] = (unsigned char)f; }
    b[23] = smalls[i % 3];
    b[32] = (unsigned char)(((rnd() % 10) << 4) | (rnd() % 10)); b[33] = (unsigned char)(((rnd() % 10) << 4) | (rnd() % 10));
    b[35] = 0;   // [text_output: "Skip"]: not emitted, so not restored
    roundtrip("Scalars", mk_scalars, b);
  }
  for (int i = 0; i < 16 + n_random; ++i) {
    std::vector<unsigned char> b(15, 0);
    for (auto& c : b) c = (unsigned char)rnd();
    b[0] = (unsigned char)(i % 6); b[1] = (unsigned char)((i / 6) % 4);
    // bytes no field covers are not restored by text: keep them zero so that the raw comparison below is meaningful too
    roundtrip("Shapes", mk_shapes, b, true);
  }
  {
    const uint32_t e32[] = {0u, 0x80000000u, 0x3f800000u, 0xbf800000u, 0x7f800000u, 0xff800000u, 0x7fc00000u, 0xffc00000u, 0x7fc00001u, 0x7f800001u, 0xffbfffffu, 0x00000001u, 0x007fffffu, 0x00800000u, 0x7f7fffffu, 0x3eaaaaabu};
    const uint64_t e64[] = {0ull, 0x8000000000000000ull, 0x3ff0000000000000ull, 0xbff0000000000000ull, 0x7ff0000000000000ull, 0xfff0000000000000ull, 0x7ff8000000000000ull, 0xfff8000000000001ull,
                            0x7ff0000000000001ull, 0xfff7ffffffffffffull, 0x0000000000000001ull, 0x000fffffffffffffull, 0x0010000000000000ull, 0x7fefffffffffffffull, 0x3fd5555555555555ull, 0x400921fb54442d18ull};
    for (int i = 0; i < 16 * 16 + n_random; ++i) {
      std::vector<unsigned char> b(16, 0);
      uint32_t a = i < 256 ? e32[i % 16] : (uint32_t)rnd(), c = i < 256 ? e32[(i / 16) % 16] : (uint32_t)rnd();
      uint64_t d = i < 256 ? e64[(i * 5 + i / 16) % 16] : rnd();
      memcpy(&b[0], &a, 4); memcpy(&b[4], &d, 8); memcpy(&b[12], &c, 4);
      float_roundtrip(b);
    }
  }
  auto mk_nesting = [](unsigned char* p, size_t n) { return corpus::textrt::MakeNestingView(p, n); };
  for (int i = 0; i < 16 + n_random; ++i) {
    std::vector<unsigned char> b(9, 0);
    for (auto& c : b) c = (unsigned char)rnd();
    b[0] = (unsigned char)(i % 4);
    if (b[0] >= 2) { b[5] = 0; b[6] = 0; } else { b[5 + (1 - b[0])] = 0; }   // bytes no present field covers stay zero
    roundtrip("Nesting", mk_nesting, b);
  }
  printf("TRIPS %ld FAILURES %ld MULTILINE-ARRAY-FAILURES %ld NOT-OK-BUFFERS %ld\n", g_trips, g_fail, g_known, g_skipped);
  return g_fail ? 1 : 0;
}
