#!/bin/bash
# Offline setup: create the scratch directory and check the tools the checks rely on.
set -e
cd "$(dirname "$0")"
mkdir -p build evidence
for t in python3-vt clang++ opt z3 cvc5; do command -v $t >/dev/null || { echo "missing tool $t"; exit 1; }; done
python3-vt -c "import z3, sympy; assert z3.get_version_string().startswith('5.'), z3.get_version_string()"
echo setup ok
