"""Runs named targets of a contract module in a process pool (z3 objects never cross processes)."""
import importlib
import multiprocessing
import os
import sys
import time
import traceback

from vlib import core

NPROC = int(os.environ.get("VERIF_JOBS", "16"))


def _worker(job):
    modname, tname, table = job
    sys.setrecursionlimit(20000)
    t0 = time.time()
    try:
        mod = importlib.import_module(modname)
        res = getattr(mod, table)[tname]()
        obs, covered = res if isinstance(res, tuple) else (res, None)
        return (tname, "ok", obs, covered, time.time() - t0)
    except core.CheckerError as e:
        return (tname, "checker-error", "%s: %s" % (type(e).__name__, e), None, time.time() - t0)
    except BaseException as e:
        return (tname, "crash", traceback.format_exc()[-1500:], None, time.time() - t0)


def run_targets(run, modname, names, table="TARGETS", require_cover=True):
    jobs = [(modname, n, table) for n in names]
    ctx = multiprocessing.get_context("fork")
    with ctx.Pool(min(NPROC, max(1, len(jobs)))) as pool:
        results = pool.map(_worker, jobs, chunksize=1)
    timing = {}
    for tname, status, payload, covered, secs in results:
        timing[tname] = round(secs, 2)
        if status != "ok":
            run.error("target %s: %s %s" % (tname, status, payload))
            continue
        if not payload:
            run.error("target %s generated zero obligations" % tname)
        if require_cover and covered is not None and covered == 0:
            run.error("target %s: precondition covered by no feasible path (vacuous contract)" % tname)
        run.extend(payload)
    run.extra.setdefault("target_seconds", {}).update(timing)
    return results
