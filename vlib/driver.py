import importlib
import os
import sys

sys.setrecursionlimit(20000)


def main():
    if len(sys.argv) < 2:
        print("usage: check <ID>|selftest [--tier quick|thorough] [--replay path]")
        sys.exit(3)
    what = sys.argv[1]
    if what == "selftest":
        from vlib import selftest
        sys.exit(selftest.main(sys.argv[2:]))
    try:
        mod = importlib.import_module("props." + what)
    except ModuleNotFoundError as e:
        print("no check for %s (%s)" % (what, e))
        sys.exit(3)
    from vlib import core
    core.main_wrapper(what, mod.main)


main()
