"""Ghost-witness finder for divisibility goals (untrusted oracle; z3 checks its output).

Path equalities are oriented into definitions (a variable with unit coefficient
is solved for), substituted into the goal, and the goal is divided by the modulus
with sympy.  The quotient, translated back to a z3 term, is the witness K of
`x == K*m`."""
import sympy
import z3


class NotPoly(Exception):
    pass


def to_sympy(e, syms):
    e = z3.simplify(e) if False else e
    if z3.is_int_value(e):
        return sympy.Integer(e.as_long())
    k = e.decl().kind()
    ch = e.children()
    if z3.is_const(e) and k == z3.Z3_OP_UNINTERPRETED:
        n = e.decl().name()
        if n not in syms:
            syms[n] = (sympy.Symbol(n.replace("!", "__")), e)
        return syms[n][0]
    if k == z3.Z3_OP_ADD:
        return sum((to_sympy(c, syms) for c in ch), sympy.Integer(0))
    if k == z3.Z3_OP_SUB:
        r = to_sympy(ch[0], syms)
        for c in ch[1:]:
            r = r - to_sympy(c, syms)
        return r
    if k == z3.Z3_OP_MUL:
        r = sympy.Integer(1)
        for c in ch:
            r = r * to_sympy(c, syms)
        return r
    if k == z3.Z3_OP_UMINUS:
        return -to_sympy(ch[0], syms)
    if k == z3.Z3_OP_POWER and z3.is_int_value(ch[1]):
        return to_sympy(ch[0], syms) ** ch[1].as_long()
    raise NotPoly(str(e)[:80])


def to_z3(p, syms):
    inv = {s: z for (s, z) in syms.values()}
    p = sympy.expand(p)

    def rec(t):
        if t.is_Integer:
            return z3.IntVal(int(t))
        if t.is_Symbol:
            return inv[t]
        if t.is_Add:
            return z3.Sum([rec(a) for a in t.args])
        if t.is_Mul:
            r = None
            for a in t.args:
                ra = rec(a)
                r = ra if r is None else r * ra
            return r
        if t.is_Pow and t.exp.is_Integer and int(t.exp) >= 0:
            b = rec(t.base)
            r = z3.IntVal(1)
            for _ in range(int(t.exp)):
                r = r * b
            return r
        raise NotPoly(str(t))
    return rec(p)


def _age(sym):
    n = str(sym)
    if "__" in n:
        try:
            return int(n.rsplit("__", 1)[1])
        except ValueError:
            return 0
    return -1


def substitution(ctx, syms, newest=True, extra_first=()):
    """Orients the path's equalities into a substitution {sympy symbol -> polynomial}."""
    sigma = {}

    def apply(p):
        # iterate to a fixed point (definitions are acyclic by construction)
        for _ in range(50):
            p2 = sympy.expand(p.subs(sigma, simultaneous=True)) if sigma else sympy.expand(p)
            if p2 == p:
                return p2
            p = p2
        return p

    eqs = [("eq", l, r) for (l, r) in extra_first]
    for (l, r) in ctx.eqs:
        if z3.is_const(l) and l.decl().kind() == z3.Z3_OP_UNINTERPRETED:
            eqs.append(("def", l, r))
        else:
            eqs.append(("eq", l, r))
    # keep creation order stable: defs and eqs are interleaved by fresh index where available
    for kind, l, r in eqs:
        try:
            pl, pr = to_sympy(l, syms), to_sympy(r, syms)
        except NotPoly:
            continue
        if kind == "def" and pl.is_Symbol and pl not in sigma:
            rhs = apply(pr)
            if pl not in rhs.free_symbols:
                sigma[pl] = rhs
                for k in list(sigma):
                    if k != pl:
                        sigma[k] = sympy.expand(sigma[k].subs(pl, rhs))
                continue
        P = apply(pl - pr)
        if P == 0:
            continue
        cands = []
        for s in P.free_symbols:
            if s in sigma:
                continue
            poly = sympy.Poly(P, s)
            if poly.degree() == 1:
                c = poly.coeff_monomial(s)
                if c in (1, -1):
                    rest = poly.coeff_monomial(1)
                    cands.append((_age(s), str(s), s, -rest / c))
        if not cands:
            continue
        cands.sort(key=lambda t: (t[0], t[1]))
        _, _, s, sol = cands[-1] if newest else cands[0]
        sol = sympy.expand(sol)
        sigma[s] = sol
        for k in list(sigma):
            if k != s:
                sigma[k] = sympy.expand(sigma[k].subs(s, sol))
    return sigma, apply


def exact_quotient(ctx, x, m):
    syms = {}
    try:
        px, pm = to_sympy(x, syms), to_sympy(m, syms)
    except NotPoly:
        return None
    sigma, apply = substitution(ctx, syms)
    px, pm = apply(px), apply(pm)
    if pm == 0:
        return None
    if px == 0:
        return z3.IntVal(0)
    q = sympy.cancel(px / pm)
    num, den = sympy.fraction(sympy.together(q))
    if sympy.expand(den) not in (1, -1):
        return None
    q = sympy.expand(num / den)
    if not q.is_polynomial():
        return None
    # integer coefficients only
    if any(not c.is_Integer for c in sympy.Poly(q, *sorted(q.free_symbols, key=str)).coeffs()) if q.free_symbols else not q.is_Integer:
        return None
    try:
        return to_z3(q, syms)
    except NotPoly:
        return None


def find_quotient(ctx, x, m):
    return exact_quotient(ctx, x, m)


def known_multiples(ctx, x, y):
    """If x == y*K follows from the oriented path equalities, returns [K] after z3 has
    confirmed pc => x == y*K (so the Euclid-uniqueness instance q == K, r == 0 is sound)."""
    try:
        K = exact_quotient(ctx, x, y)
    except Exception:
        return []
    if K is None:
        return []
    ctx.solver.push()
    ctx.solver.add(x != y * K)
    r = ctx.solver.check()
    ctx.solver.pop()
    if r == z3.unsat:
        return [K]
    return []


def known_division(ctx, x, y, positive=True):
    """Generalised Euclid lemma: if pc => x == y*K + c and 0 <= c < y (resp. y < c <= 0) then
    x // y == K and x % y == c.  K, c are found by polynomial division under two orientation
    strategies; z3 confirms the side conditions, so the finder stays untrusted."""
    for newest in (True, False):
        syms = {}
        try:
            px, py = to_sympy(x, syms), to_sympy(y, syms)
            if newest:
                sigma, apply = substitution(ctx, syms, newest)
            else:
                # name the divisor: Y == y, Y is never eliminated, older variables are
                Y = z3.Int("Y!999999")
                sigma, apply = substitution(ctx, syms, newest, extra_first=[(Y, y)])
                py = to_sympy(Y, syms)
            px, py = apply(px), apply(py)
            if py == 0 or not py.free_symbols:
                continue
            gens = sorted(py.free_symbols, key=str) + sorted(px.free_symbols - py.free_symbols, key=str)
            Q, R = sympy.div(sympy.Poly(px, *gens), sympy.Poly(py, *gens))
            Q, R = Q.as_expr(), R.as_expr()
            if any(not cf.is_Integer for cf in sympy.Poly(Q, *gens).coeffs() + sympy.Poly(R, *gens).coeffs()):
                continue
            K, cc = to_z3(Q, syms), to_z3(R, syms)
            if not newest:
                K, cc = z3.substitute(K, (Y, y)), z3.substitute(cc, (Y, y))
        except Exception:
            continue
        ctx.solver.push()
        rng = z3.And(cc >= 0, cc < y) if positive else z3.And(cc <= 0, cc > y)
        ctx.solver.add(z3.Not(z3.And(x == y * K + cc, rng)))
        r = ctx.solver.check()
        ctx.solver.pop()
        if r == z3.unsat:
            return z3.simplify(K), z3.simplify(cc)
    return None
