"""E1 pyvc: symbolic execution of real Python source into verification conditions.

The function under contract is located in the module file under $VERIF_REPO, the
file is re-read and re-parsed with `ast` on every run.  Execution is path
splitting (fork on kind, on every `if`, short-circuit operator and conditional
expression); each path is a pure integer/boolean formula.

Values on a path:
  * native Python values (ints, bools, None, str, tuples, lists, dicts, enum
    members, function objects of the real imported module) when concrete;
  * SInt(z3 Int), SBool(z3 Bool)            symbolic scalars;
  * SNumStr(z3 Int)                         the canonical decimal string str(n);
  * SRec(typename, fields)                  an IR record (mutable, identity).
Anything outside the subset raises Unsupported -> checker error, never skipped.
"""
import ast
import importlib
import inspect
import operator
import os
import sys
import time
import textwrap

import z3

from vlib import core, smt


class Unsupported(core.CheckerError):
    pass


class PathEnd(Exception):
    """The current path terminated (raise reached, infeasible, or explicit)."""


class _Return(Exception):
    def __init__(self, value):
        self.value = value


class _Break(Exception):
    pass


class _Continue(Exception):
    pass


class PyRaise(Exception):
    """A Python exception raised by the code under verification on this path."""

    def __init__(self, exc_type, where, msg=""):
        self.exc_type = exc_type
        self.where = where
        self.msg = msg


# ---------------------------------------------------------------------------
# values


class SInt:
    __slots__ = ("t",)

    def __init__(self, t):
        self.t = t

    def __repr__(self):
        return "SInt(%s)" % self.t


class SBool:
    __slots__ = ("t",)

    def __init__(self, t):
        self.t = t

    def __repr__(self):
        return "SBool(%s)" % self.t


class SNumStr:
    """str(n) for the integer term n (canonical decimal, what int() inverts)."""
    __slots__ = ("t",)

    def __init__(self, t):
        self.t = t

    def __repr__(self):
        return "SNumStr(%s)" % self.t


class SRec:
    """An IR record.  Unset fields are absent from .f; reading one is Unsupported
    unless the record's type declares a default."""

    def __init__(self, typename, fields=None, defaults=None):
        object.__setattr__(self, "typename", typename)
        object.__setattr__(self, "f", dict(fields or {}))
        object.__setattr__(self, "defaults", defaults or {})

    def __repr__(self):
        return "SRec(%s,%s)" % (self.typename, sorted(self.f))


def is_sym(v):
    return isinstance(v, (SInt, SBool, SNumStr))


def zint(v):
    """z3 Int term of an int-kinded value."""
    if isinstance(v, SInt):
        return v.t
    if isinstance(v, bool):
        return z3.IntVal(1 if v else 0)
    if isinstance(v, int):
        return z3.IntVal(int(v))          # int(): an IntEnum member prints as its name
    if isinstance(v, SBool):
        return z3.If(v.t, z3.IntVal(1), z3.IntVal(0))
    raise Unsupported("not an int value: %r" % (v,))


def zbool(v):
    if isinstance(v, SBool):
        return v.t
    if isinstance(v, bool):
        return z3.BoolVal(v)
    raise Unsupported("not a bool value: %r" % (v,))


def is_intlike(v):
    return isinstance(v, (SInt, SBool)) or (isinstance(v, int))


def is_strlike(v):
    return isinstance(v, (SNumStr, str))


def mk_int(t):
    t = z3.simplify(t)
    if z3.is_int_value(t):
        return t.as_long()
    return SInt(t)


def mk_bool(t):
    t = z3.simplify(t)
    if z3.is_true(t):
        return True
    if z3.is_false(t):
        return False
    return SBool(t)


def _canonical_decimal(s):
    try:
        return str(int(s)) == s
    except ValueError:
        return False


# ---------------------------------------------------------------------------
# path context


class Ctx:
    def __init__(self, engine, decisions):
        self.engine = engine
        self.decisions = list(decisions)
        self.pos = 0
        self.alternatives = []
        self.pc = []
        self.solver = z3.Solver()
        self.solver.set("timeout", 4000)
        self.labels = []
        self.results = []          # (clause, verdict, backend, seconds, model, detail)
        self.fresh_n = 0
        self.defs = []             # oriented equalities for the witness finder: (z3 var, z3 expr)
        self.eqs = []              # other polynomial equalities (lhs, rhs)
        self.covered = False
        self.trace = []
        self.case_vars = {}

    # -- fresh symbols ---------------------------------------------------
    def fresh_int(self, hint="t"):
        self.fresh_n += 1
        return z3.Int("%s!%d" % (hint, self.fresh_n))

    def fresh_bool(self, hint="b"):
        self.fresh_n += 1
        return z3.Bool("%s!%d" % (hint, self.fresh_n))

    # -- assumptions -----------------------------------------------------
    def assume(self, cond):
        if isinstance(cond, bool):
            if not cond:
                raise PathEnd()
            return
        self.pc.append(cond)
        self.solver.add(cond)
        if z3.is_eq(cond) and z3.is_int(cond.arg(0)):
            self.eqs.append((cond.arg(0), cond.arg(1)))

    def _assume_raw(self, cond):
        self.pc.append(cond)
        self.solver.add(cond)

    def define(self, var, expr):
        """var == expr, remembered as an oriented definition for the witness finder."""
        self._assume_raw(var == expr)
        self.defs.append((var, expr))
        self.eqs.append((var, expr))

    def equation(self, lhs, rhs):
        self._assume_raw(lhs == rhs)
        self.eqs.append((lhs, rhs))

    def one_of(self, var, terms):
        """var equals one of terms (remembered for local case splits in divisibility goals)."""
        self._assume_raw(z3.Or([var == t for t in terms]))
        self.case_vars[var.get_id()] = (var, list(terms))

    def feasible(self, extra=None):
        self.solver.push()
        if extra is not None:
            self.solver.add(extra)
        r = self.solver.check()
        self.solver.pop()
        return r != z3.unsat

    # -- forking ---------------------------------------------------------
    def choice(self, label, options):
        """n-ary contract-level choice (kind split); recorded in the path label."""
        if self.pos < len(self.decisions):
            i = self.decisions[self.pos]
        else:
            i = 0
            for j in range(len(options) - 1, 0, -1):
                self.alternatives.append(self.decisions[:self.pos] + [j])
            self.decisions.append(0)
        self.pos += 1
        if label is not None:
            self.labels.append("%s=%s" % (label, options[i] if isinstance(options[i], str) else i))
        return options[i]

    def branch(self, cond):
        """Fork on a (possibly symbolic) boolean; returns the Python bool taken on this path."""
        if isinstance(cond, SBool):
            cond = cond.t
        if not z3.is_expr(cond):
            return bool(cond)
        cond = z3.simplify(cond)
        if z3.is_true(cond):
            return True
        if z3.is_false(cond):
            return False
        if self.pos < len(self.decisions):
            d = bool(self.decisions[self.pos])
        else:
            ft = self.feasible(cond)
            ff = self.feasible(z3.Not(cond))
            if ft and ff:
                self.alternatives.append(self.decisions[:self.pos] + [0])
                d = True
            elif ft:
                d = True
            elif ff:
                d = False
            else:
                raise PathEnd()
            self.decisions.append(1 if d else 0)
        self.pos += 1
        self.assume(cond if d else z3.Not(cond))
        return d

    # -- obligations -----------------------------------------------------
    def oblige(self, clause, goal, detail=""):
        """Proof obligation pc => goal on this path."""
        t0 = time.time()
        if isinstance(goal, SBool):
            goal = goal.t
        if not z3.is_expr(goal):
            if goal:
                self.results.append((clause, core.PROVED, "syntactic", 0.0, None, detail))
            else:
                # concrete falsity on a feasible path: refuted, model = any model of pc
                m = self._model_of_pc()
                self.results.append((clause, core.REFUTED, "syntactic", time.time() - t0, m, detail))
            return
        goal = z3.simplify(goal)
        if z3.is_true(goal):
            self.results.append((clause, core.PROVED, "syntactic", 0.0, None, detail))
            return
        self.solver.push()
        self.solver.add(z3.Not(goal))
        r = self.solver.check()
        model = None
        if r == z3.sat:
            model = smt.model_to_dict(self.solver.model())
        self.solver.pop()
        if r == z3.unsat:
            self.results.append((clause, core.PROVED, "z3-5.1(py)", time.time() - t0, None, detail))
            self.assume(goal)
            return
        if r == z3.sat:
            self.results.append((clause, core.REFUTED, "z3-5.1(py)", time.time() - t0, model, detail + " goal=" + str(goal)[:300]))
            self.assume(goal)
            return
        ans, model, backend, secs = smt.check_unsat(self.pc + [z3.Not(goal)])
        v = {"unsat": core.PROVED, "sat": core.REFUTED}.get(ans, core.UNKNOWN)
        self.results.append((clause, v, backend, time.time() - t0, model, detail + " goal=" + str(goal)[:300]))
        self.assume(goal)

    def oblige_divides(self, clause, m, x, detail=""):
        """Obligation  exists K. x == K*m  (m > 0 known), discharged with an explicit witness.
        Variables introduced by one_of() are split locally (one sub-obligation per case)."""
        ids = set(e.get_id() for e in _int_consts([x == m]))
        for vid, (v, terms) in self.case_vars.items():
            if vid in ids:
                for t in terms:
                    if not self.feasible(v == t):
                        continue
                    self.solver.push()
                    npc, neq = len(self.pc), len(self.eqs)
                    self.solver.add(v == t)
                    self.pc.append(v == t)
                    self.eqs.append((v, t))
                    try:
                        self.oblige_divides(clause, z3.substitute(m, (v, t)), z3.substitute(x, (v, t)), detail)
                    finally:
                        self.solver.pop()
                        del self.pc[npc:]
                        del self.eqs[neq:]
                return
        self._oblige_divides(clause, m, x, detail)

    def _oblige_divides(self, clause, m, x, detail=""):
        t0 = time.time()
        from vlib import witness
        x = z3.simplify(x)
        m = z3.simplify(m)
        if z3.is_int_value(x) and z3.is_int_value(m) and m.as_long() != 0:
            ok = x.as_long() % m.as_long() == 0
            self.results.append((clause, core.PROVED if ok else core.REFUTED, "syntactic", 0.0,
                                 None if ok else self._model_of_pc(), detail))
            return
        K = None
        try:
            K = witness.find_quotient(self, x, m)
        except Exception as e:  # the finder is an untrusted oracle
            detail += " [witness finder: %s]" % e
        if K is not None:
            self.solver.push()
            self.solver.add(x != K * m)
            r = self.solver.check()
            self.solver.pop()
            if r == z3.unsat:
                self.results.append((clause, core.PROVED, "z3-5.1(py)+witness", time.time() - t0, None,
                                     detail + " K=" + str(K)[:200]))
                return
            if r == z3.unknown:
                ans, _, backend, _ = smt.check_unsat(self.pc + [x != K * m])
                if ans == "unsat":
                    self.results.append((clause, core.PROVED, backend + "+witness", time.time() - t0, None,
                                         detail + " K=" + str(K)[:200]))
                    return
        # no witness: look for a refutation over a bounded box (sat is easy when values are small)
        vs = _int_consts(self.pc + [x == m])
        for box in (8, 40, 400):
            s = z3.Solver()
            s.set("timeout", 8000)
            for a in self.pc:
                s.add(a)
            for v in vs:
                s.add(v >= -box, v <= box)
            q = z3.Int("q!ref")
            rr = z3.Int("r!ref")
            s.add(x == m * q + rr, rr > 0, rr < m)
            r = s.check()
            if r == z3.sat:
                self.results.append((clause, core.REFUTED, "z3-5.1(py)", time.time() - t0,
                                     smt.model_to_dict(s.model()), detail + " not divisible: x=%s m=%s" % (str(x)[:150], str(m)[:80])))
                return
        self.results.append((clause, core.UNKNOWN, "z3-5.1(py)", time.time() - t0, None,
                             detail + " no witness and no bounded refutation for %s | %s" % (str(m)[:80], str(x)[:150])))

    def _model_of_pc(self):
        self.solver.push()
        r = self.solver.check()
        m = smt.model_to_dict(self.solver.model()) if r == z3.sat else None
        self.solver.pop()
        return m

    def label(self):
        return ",".join(self.labels)


def _int_consts(exprs):
    seen = {}
    todo = list(exprs)
    visited = set()
    while todo:
        e = todo.pop()
        if e.get_id() in visited:
            continue
        visited.add(e.get_id())
        if z3.is_const(e) and e.decl().kind() == z3.Z3_OP_UNINTERPRETED and z3.is_int(e):
            seen[e.get_id()] = e
        todo.extend(e.children())
    return list(seen.values())


# ---------------------------------------------------------------------------
# the interpreter


class FunctionInfo:
    def __init__(self, qualname, module, node, src_file):
        self.qualname = qualname
        self.module = module
        self.node = node
        self.src_file = src_file


_module_cache = {}


def load_function(dotted):
    """compiler.front_end.expression_bounds._add -> FunctionInfo with a freshly parsed AST.

    The module is imported from $VERIF_REPO (PYTHONPATH is set by ./check) for its
    globals; the *body* that is executed symbolically is the AST parsed here from the
    file on disk, never the code object."""
    modname, fname = dotted.rsplit(".", 1)
    cls = None
    try:
        mod = importlib.import_module(modname)
    except ModuleNotFoundError:
        modname2, cls = modname.rsplit(".", 1)
        mod = importlib.import_module(modname2)
    path = inspect.getsourcefile(mod)
    if not os.path.abspath(path).startswith(os.path.abspath(core.REPO)):
        raise core.CheckerError("module %s loaded from %s, not from %s" % (modname, path, core.REPO))
    if path not in _module_cache:
        with open(path) as f:
            _module_cache[path] = ast.parse(f.read(), path)
    tree = _module_cache[path]
    body = tree.body
    if cls:
        for n in body:
            if isinstance(n, ast.ClassDef) and n.name == cls:
                body = n.body
                break
        else:
            raise core.CheckerError("anchor mismatch: class %s not found in %s" % (cls, path))
    for n in body:
        if isinstance(n, ast.FunctionDef) and n.name == fname:
            return FunctionInfo(dotted, mod, n, path)
    raise core.CheckerError("anchor mismatch: function %s not found in %s" % (dotted, path))


class Engine:
    """Holds the contract table (callee object -> spec) and inline set."""

    def __init__(self):
        self.specs = {}      # id(real function object) -> spec callable(ctx, interp, *args, **kw)
        self.spec_names = {}
        self.inline = {}     # id(real function object) -> dotted name
        self.reader_like = set()   # functions modelled as identity
        self.loop_invariants = {}

    def contract(self, real_obj, spec, name=None):
        self.specs[id(real_obj)] = spec
        self.spec_names[id(real_obj)] = name or getattr(real_obj, "__name__", str(real_obj))

    def identity(self, real_obj):
        self.reader_like.add(id(real_obj))

    def inline_fn(self, real_obj, dotted):
        self.inline[id(real_obj)] = dotted

    # -- exploring all paths of a harness -------------------------------
    def explore(self, harness, max_paths=20000):
        """harness(ctx) runs one path.  Returns list of finished Ctx."""
        work = [[]]
        done = []
        while work:
            dec = work.pop()
            ctx = Ctx(self, dec)
            try:
                harness(ctx)
            except PathEnd:
                pass
            work.extend(ctx.alternatives)
            done.append(ctx)
            if len(done) > max_paths:
                raise core.CheckerError("path explosion (> %d paths)" % max_paths)
        return done


class Interp:
    """Executes one function body on one path."""

    def __init__(self, ctx, info, depth=0):
        self.ctx = ctx
        self.info = info
        self.env = {}
        self.depth = depth
        self.globals = info.module.__dict__

    # -- entry -------------------------------------------------------------
    def call(self, args, kwargs=None):
        node = self.info.node
        a = node.args
        if a.vararg or a.kwarg or a.kwonlyargs or a.posonlyargs:
            raise Unsupported("signature of %s" % self.info.qualname)
        names = [x.arg for x in a.args]
        defaults = a.defaults
        kwargs = dict(kwargs or {})
        if len(args) > len(names):
            raise Unsupported("too many arguments for %s" % self.info.qualname)
        for n, v in zip(names, args):
            self.env[n] = v
        for i, n in enumerate(names[len(args):], start=len(args)):
            if n in kwargs:
                self.env[n] = kwargs.pop(n)
            else:
                di = i - (len(names) - len(defaults))
                if di < 0:
                    raise Unsupported("missing argument %s for %s" % (n, self.info.qualname))
                self.env[n] = self.eval(defaults[di])
        if kwargs:
            raise Unsupported("unexpected kwargs %s" % sorted(kwargs))
        try:
            self.block(node.body)
        except _Return as r:
            return r.value
        return None

    # -- statements --------------------------------------------------------
    def block(self, stmts):
        for s in stmts:
            self.stmt(s)

    def stmt(self, s):
        m = getattr(self, "s_" + type(s).__name__, None)
        if m is None:
            raise Unsupported("statement %s at %s:%d" % (type(s).__name__, self.info.qualname, s.lineno))
        return m(s)

    def s_Expr(self, s):
        if isinstance(s.value, ast.Constant) and isinstance(s.value.value, str):
            return
        self.eval(s.value)

    def s_Pass(self, s):
        pass

    def s_Delete(self, s):
        for t in s.targets:
            if isinstance(t, ast.Name):
                self.env.pop(t.id, None)
            elif isinstance(t, ast.Subscript):
                obj = self.eval(t.value)
                if isinstance(t.slice, ast.Slice):
                    lo = self.eval(t.slice.lower) if t.slice.lower else None
                    hi = self.eval(t.slice.upper) if t.slice.upper else None
                    if is_sym(lo) or is_sym(hi) or not isinstance(obj, list):
                        raise Unsupported("symbolic del slice at line %d" % s.lineno)
                    del obj[lo:hi]
                else:
                    idx = self.eval(t.slice)
                    if is_sym(idx) or not isinstance(obj, (list, dict)):
                        raise Unsupported("symbolic del index at line %d" % s.lineno)
                    del obj[idx]
            else:
                raise Unsupported("del target at line %d" % s.lineno)

    def s_Return(self, s):
        raise _Return(self.eval(s.value) if s.value is not None else None)

    def s_Break(self, s):
        raise _Break()

    def s_Continue(self, s):
        raise _Continue()

    def s_Assign(self, s):
        v = self.eval(s.value)
        for t in s.targets:
            self.assign(t, v)

    def s_AugAssign(self, s):
        cur = self.eval(_as_load(s.target))
        v = self.binop(type(s.op), cur, self.eval(s.value), s)
        self.assign(s.target, v)

    def s_AnnAssign(self, s):
        if s.value is not None:
            self.assign(s.target, self.eval(s.value))

    def assign(self, t, v):
        if isinstance(t, ast.Name):
            self.env[t.id] = v
        elif isinstance(t, (ast.Tuple, ast.List)):
            seq = self.as_sequence(v, t)
            if len(seq) != len(t.elts):
                self.raise_py("ValueError", t, "unpack %d into %d" % (len(seq), len(t.elts)))
            for tt, vv in zip(t.elts, seq):
                self.assign(tt, vv)
        elif isinstance(t, ast.Attribute):
            obj = self.eval(t.value)
            if not isinstance(obj, SRec):
                raise Unsupported("attribute store on %r at line %d" % (obj, t.lineno))
            obj.f[t.attr] = v
        elif isinstance(t, ast.Subscript):
            obj = self.eval(t.value)
            idx = self.eval(t.slice)
            if isinstance(obj, (list, dict)) and not is_sym(idx):
                obj[idx] = v
            elif isinstance(obj, GDict) and not is_sym(idx):
                obj.present[idx] = True
                obj.entries[idx] = v
            else:
                raise Unsupported("subscript store at line %d" % t.lineno)
        else:
            raise Unsupported("assignment target %s" % type(t).__name__)

    def s_If(self, s):
        if self.truth(self.eval(s.test)):
            self.block(s.body)
        else:
            self.block(s.orelse)

    def s_Assert(self, s):
        c = self.eval(s.test)
        t = self.truth_term(c)
        self.ctx.oblige("%s.assert" % self.short(), t,
                        detail="assert at %s:%d" % (self.short(), s.lineno))
        # past the assert the condition holds (otherwise Python has raised AssertionError): a definitely false condition
        # ends the path, a symbolic one becomes a hypothesis of the rest of the path
        if not z3.is_expr(t):
            if not t:
                raise PathEnd()
        else:
            self.ctx.assume(t)

    def s_Try(self, s):
        if s.finalbody or s.orelse:
            raise Unsupported("try with else / finally at line %d" % s.lineno)
        try:
            self.block(s.body)
        except PyRaise as r:
            for h in s.handlers:
                names = []
                if h.type is not None:
                    for t in (h.type.elts if isinstance(h.type, ast.Tuple) else [h.type]):
                        names.append(t.id if isinstance(t, ast.Name) else getattr(t, "attr", "?"))
                if h.type is None or r.exc_type in names or "Exception" in names or "BaseException" in names:
                    if h.name:
                        self.env[h.name] = GObj("exception:%s" % r.exc_type)
                    self.block(h.body)
                    return
            raise

    def s_Raise(self, s):
        name = "Exception"
        if s.exc is not None:
            e = s.exc
            if isinstance(e, ast.Call):
                e = e.func
            if isinstance(e, ast.Name):
                name = e.id
            elif isinstance(e, ast.Attribute):
                name = e.attr
        self.raise_py(name, s)

    def raise_py(self, exc_name, node, msg=""):
        raise PyRaise(exc_name, "%s:%d" % (self.short(), getattr(node, "lineno", 0)), msg)

    def s_For(self, s):
        it = self.eval(s.iter)
        seq = self.as_sequence(it, s)
        broke = False
        for v in list(seq):
            self.assign(s.target, v)
            try:
                self.block(s.body)
            except _Break:
                broke = True
                break
            except _Continue:
                continue
        if not broke:
            self.block(s.orelse)

    def s_While(self, s):
        bound = 64
        n = 0
        while self.truth(self.eval(s.test)):
            n += 1
            if n > bound:
                raise Unsupported("while loop without invariant exceeded %d iterations at line %d" % (bound, s.lineno))
            try:
                self.block(s.body)
            except _Break:
                return
            except _Continue:
                continue
        self.block(s.orelse)

    def short(self):
        return self.info.qualname.split(".")[-1]

    # -- expressions -------------------------------------------------------
    def eval(self, e):
        m = getattr(self, "e_" + type(e).__name__, None)
        if m is None:
            raise Unsupported("expression %s at %s:%d" % (type(e).__name__, self.info.qualname, e.lineno))
        return m(e)

    def e_Constant(self, e):
        return e.value

    def e_Name(self, e):
        if e.id in self.env:
            return self.env[e.id]
        if e.id in self.globals:
            return self.globals[e.id]
        import builtins
        if hasattr(builtins, e.id):
            return getattr(builtins, e.id)
        self.raise_py("NameError", e, e.id)

    def e_Tuple(self, e):
        return tuple(self.eval_elts(e.elts))

    def e_List(self, e):
        return list(self.eval_elts(e.elts))

    def eval_elts(self, elts):
        out = []
        for x in elts:
            if isinstance(x, ast.Starred):
                out.extend(self.as_sequence(self.eval(x.value), x))
            else:
                out.append(self.eval(x))
        return out

    def e_Dict(self, e):
        d = {}
        for k, v in zip(e.keys, e.values):
            kk = self.eval(k)
            if is_sym(kk) or isinstance(kk, SRec):
                raise Unsupported("symbolic dict key at line %d" % e.lineno)
            d[kk] = self.eval(v)
        return d

    def e_Attribute(self, e):
        obj = self.eval(e.value)
        return self.getattr(obj, e.attr, e)

    def getattr(self, obj, name, node):
        if isinstance(obj, SRec):
            if name in obj.f:
                return obj.f[name]
            if name in obj.defaults:
                d = obj.defaults[name]
                v = d(obj) if callable(d) else d
                obj.f[name] = v
                return v
            if name in ("has_field", "HasField", "CopyFrom", "which_type", "which_expression"):
                return _BoundRec(obj, name)
            raise Unsupported("read of undeclared field %s.%s at %s:%d" % (obj.typename, name, self.info.qualname, node.lineno))
        if isinstance(obj, (PStr, SNumStr)) and name in ("split", "strip"):
            ps = obj if isinstance(obj, PStr) else PStr([obj])
            return _BoundGhost(ps, name, (lambda interp, o, sep=None: o.split(interp, sep)) if name == "split" else (lambda interp, o: o.strip(interp)))
        if isinstance(obj, GStr):
            if name in obj.ops:
                return _BoundGhost(obj, name, obj.ops[name])
            raise Unsupported("method %s of a ghost string at line %d" % (name, node.lineno))
        if isinstance(obj, GObj):
            if name in obj.attrs:
                return obj.attrs[name]
            if name in obj.methods:
                return _BoundGhost(obj, name, obj.methods[name])
            raise Unsupported("attribute %s of ghost object %s at line %d" % (name, obj.label, node.lineno))
        if isinstance(obj, GDict):
            if name == "get" and "get" not in obj.attrs:
                return _BoundGDictGet(obj)
            if name not in obj.attrs:
                raise Unsupported("attribute %s of ghost dict %s at line %d" % (name, obj.label, node.lineno))
            return obj.attrs[name]
        if is_sym(obj):
            raise Unsupported("attribute %s of symbolic scalar at line %d" % (name, node.lineno))
        if isinstance(obj, tuple) and name in getattr(obj, "_fields", ()):
            return getattr(obj, name)          # field of a namedtuple
        if isinstance(obj, (list, dict, str, tuple, set, frozenset)):
            return _BoundNative(obj, name)
        try:
            return getattr(obj, name)
        except AttributeError:
            self.raise_py("AttributeError", node, name)

    def e_Subscript(self, e):
        obj = self.eval(e.value)
        if isinstance(obj, (PStr, SNumStr)):
            ps = obj if isinstance(obj, PStr) else PStr([obj])
            if isinstance(e.slice, ast.Slice):
                if e.slice.lower is None and e.slice.step is None and e.slice.upper is not None and self.eval(e.slice.upper) == -1:
                    return ps.drop_last(self)
                raise Unsupported("slice of a formatted string other than s[:-1] at line %d" % e.lineno)
            if self.eval(e.slice) == -1:
                return ps.last_char(self)
            raise Unsupported("index of a formatted string other than s[-1] at line %d" % e.lineno)
        if isinstance(e.slice, ast.Slice) and isinstance(obj, GStr) and "slice" in obj.ops and e.slice.step is None:
            return obj.ops["slice"](self, obj, self.eval(e.slice.lower) if e.slice.lower is not None else None,
                                    self.eval(e.slice.upper) if e.slice.upper is not None else None)
        if isinstance(e.slice, ast.Slice) and isinstance(obj, GStr):
            if e.slice.upper is not None or e.slice.step is not None or e.slice.lower is None or "suffix" not in obj.ops:
                raise Unsupported("slice of a ghost string other than s[i:] at line %d" % e.lineno)
            return obj.ops["suffix"](self, obj, self.eval(e.slice.lower))
        if isinstance(e.slice, ast.Slice):
            lo = self.eval(e.slice.lower) if e.slice.lower else None
            hi = self.eval(e.slice.upper) if e.slice.upper else None
            st = self.eval(e.slice.step) if e.slice.step else None
            if any(is_sym(x) for x in (lo, hi, st)) or not isinstance(obj, (list, tuple, str)):
                raise Unsupported("symbolic slice at line %d" % e.lineno)
            return obj[lo:hi:st]
        idx = self.eval(e.slice)
        if isinstance(obj, GDict):
            if is_sym(idx) or idx not in obj.entries:
                raise Unsupported("subscript %r of a ghost dict that does not specify it (line %d)" % (idx, e.lineno))
            # reading a key that may be absent is a KeyError obligation
            pres = obj.present.get(idx, True)
            if pres is not True:
                if pres is False or not self.ctx.branch(pres):
                    self.raise_py("KeyError", e, repr(idx))
            return obj.entries[idx]
        if isinstance(obj, dict):
            if is_sym(idx):
                raise Unsupported("symbolic dict index at line %d" % e.lineno)
            try:
                return obj[idx]
            except (KeyError, TypeError):
                self.raise_py("KeyError", e, repr(idx))
        if isinstance(obj, (list, tuple, str)):
            if is_sym(idx):
                raise Unsupported("symbolic sequence index at line %d" % e.lineno)
            try:
                return obj[idx]
            except IndexError:
                self.raise_py("IndexError", e, repr(idx))
        raise Unsupported("subscript of %r at line %d" % (type(obj).__name__, e.lineno))

    def e_UnaryOp(self, e):
        v = self.eval(e.operand)
        if isinstance(e.op, ast.Not):
            t = self.truth_term(v)
            return mk_bool(z3.Not(t)) if z3.is_expr(t) else (not t)
        if isinstance(e.op, ast.USub):
            if is_sym(v):
                if not is_intlike(v):
                    self.raise_py("TypeError", e, "unary minus on str")
                return mk_int(-zint(v))
            if isinstance(v, str):
                self.raise_py("TypeError", e, "unary minus on str")
            return -v
        if isinstance(e.op, ast.UAdd):
            return v
        raise Unsupported("unary op %s" % type(e.op).__name__)

    def e_BinOp(self, e):
        return self.binop(type(e.op), self.eval(e.left), self.eval(e.right), e)

    def binop(self, op, a, b, node):
        if not is_sym(a) and not is_sym(b):
            if isinstance(a, SRec) or isinstance(b, SRec):
                raise Unsupported("binop on record")
            try:
                return _NATIVE_BINOPS[op](a, b)
            except ZeroDivisionError:
                self.raise_py("ZeroDivisionError", node)
            except TypeError:
                self.raise_py("TypeError", node)
            except KeyError:
                raise Unsupported("binary operator %s" % op.__name__)
        if op is ast.Mod and isinstance(a, str):
            raise Unsupported("string formatting with symbolic operand at line %d" % node.lineno)
        if is_strlike(a) or is_strlike(b):
            if op is ast.Add and is_strlike(a) and is_strlike(b):
                raise Unsupported("symbolic string concatenation at line %d" % node.lineno)
            self.raise_py("TypeError", node, "str in arithmetic")
        if a is None or b is None:
            self.raise_py("TypeError", node, "None in arithmetic")
        x, y = zint(a), zint(b)
        if op is ast.Add:
            return mk_int(x + y)
        if op is ast.Sub:
            return mk_int(x - y)
        if op is ast.Mult:
            return mk_int(x * y)
        if op in (ast.FloorDiv, ast.Mod):
            q, r = self.divmod(x, y, node)
            return mk_int(q if op is ast.FloorDiv else r)
        if op is ast.Pow:
            if isinstance(b, int) and not isinstance(b, bool) and 0 <= b <= 8:
                t = z3.IntVal(1)
                for _ in range(b):
                    t = t * x
                return mk_int(t)
            if isinstance(a, int) and a in (2, 10):
                return self.pow_uf(a, y, node)
            raise Unsupported("pow with symbolic exponent at line %d" % node.lineno)
        raise Unsupported("symbolic binary operator %s at line %d" % (op.__name__, node.lineno))

    def pow_uf(self, base, y, node):
        """base ** y with symbolic y: uninterpreted function with recurrence/monotonicity facts."""
        if not self.ctx.branch(y >= 0):
            raise Unsupported("negative exponent gives float at line %d" % node.lineno)
        f = z3.Function("pow%d" % base, z3.IntSort(), z3.IntSort())
        t = f(y)
        self.ctx.assume(t >= 1)
        self.ctx.assume(z3.Implies(y >= 1, t == base * f(y - 1)))
        self.ctx.assume(z3.Implies(y >= 1, f(y - 1) >= 1))
        self.ctx.assume(z3.Implies(y == 0, t == 1))
        self.ctx.assume(t > y)
        self.ctx.pow_terms = getattr(self.ctx, "pow_terms", [])
        for (b0, y0, t0) in self.ctx.pow_terms:
            if b0 == base:
                self.ctx.assume(z3.Implies(y0 <= y, t0 <= t))
                self.ctx.assume(z3.Implies(y <= y0, t <= t0))
                self.ctx.assume(z3.Implies(y0 < y, base * t0 <= t))
                self.ctx.assume(z3.Implies(y < y0, base * t <= t0))
        self.ctx.pow_terms.append((base, y, t))
        return mk_int(t)

    def divmod(self, x, y, node):
        """Python floor division/modulo: x = y*q + r, r has the sign of y, |r| < |y|."""
        c = self.ctx
        y = z3.simplify(y)
        x = z3.simplify(x)
        if z3.is_int_value(y) and y.as_long() != 0 and z3.is_int_value(x):
            return z3.IntVal(x.as_long() // y.as_long()), z3.IntVal(x.as_long() % y.as_long())
        if z3.is_int_value(y):
            yv = y.as_long()
            if yv == 0:
                self.raise_py("ZeroDivisionError", node)
            # constant modulus: linear, give it to the solver but with python semantics
            q = c.fresh_int("q")
            r = c.fresh_int("r")
            c.equation(x, yv * q + r)
            if yv > 0:
                c.assume(z3.And(r >= 0, r < yv))
            else:
                c.assume(z3.And(r <= 0, r > yv))
            return q, r
        if c.branch(y == 0):
            self.raise_py("ZeroDivisionError", node)
        pos = c.branch(y > 0)
        # Euclid uniqueness lemma (proved by z3 at start-up, see selfcheck_lemmas): if x == y*K
        # follows from the path then x // y == K and x % y == 0.
        from vlib import witness
        for k in witness.known_multiples(c, x, y):
            return z3.simplify(k), z3.IntVal(0)
        kd = witness.known_division(c, x, y, pos)
        if kd is not None:
            return kd
        q = c.fresh_int("q")
        r = c.fresh_int("r")
        c.equation(x, y * q + r)
        if pos:
            c.assume(z3.And(r >= 0, r < y))
        else:
            c.assume(z3.And(r <= 0, r > y))
        return q, r

    def e_BoolOp(self, e):
        # short-circuit with forking; result is the deciding operand (Python semantics)
        is_and = isinstance(e.op, ast.And)
        v = None
        for i, sub in enumerate(e.values):
            v = self.eval(sub)
            if i == len(e.values) - 1:
                return v
            t = self.truth(v)
            if is_and and not t:
                return v
            if not is_and and t:
                return v
        return v

    def e_IfExp(self, e):
        if self.truth(self.eval(e.test)):
            return self.eval(e.body)
        return self.eval(e.orelse)

    def e_Compare(self, e):
        left = self.eval(e.left)
        result = None
        for op, rn in zip(e.ops, e.comparators):
            right = self.eval(rn)
            r = self.compare(type(op), left, right, e)
            if len(e.ops) == 1:
                return r
            # chained: short-circuit
            if not self.truth(r):
                return False if not is_sym(r) else r
            result = r
            left = right
        return True

    def compare(self, op, a, b, node):
        if op is ast.Is:
            return self.identical(a, b)
        if op is ast.IsNot:
            return self.negate(self.identical(a, b))
        if op is ast.In or op is ast.NotIn:
            if isinstance(b, GDict):
                if is_sym(a) or a not in b.present:
                    raise Unsupported("membership test of %r in a ghost dict that does not specify it (line %d)" % (a, node.lineno))
                r = b.present[a]
            elif isinstance(b, str):
                # substring test (NOT membership among the characters)
                if not isinstance(a, str):
                    raise Unsupported("`in` with a str on the right and %r on the left (line %d)" % (a, node.lineno))
                r = a in b
            elif isinstance(b, dict):
                if is_sym(a):
                    raise Unsupported("symbolic key in dict test")
                r = a in b
            else:
                seq = self.as_sequence(b, node)
                terms = [self.equal(a, x) for x in seq]
                if all(isinstance(t, bool) for t in terms):
                    r = any(terms)
                else:
                    r = mk_bool(z3.Or([zbool(t) for t in terms]))
            if op is ast.NotIn:
                return self.negate(r)
            return r
        if op is ast.Eq:
            return self.equal(a, b)
        if op is ast.NotEq:
            return self.negate(self.equal(a, b))
        # ordering
        if not is_sym(a) and not is_sym(b):
            try:
                return _NATIVE_CMP[op](a, b)
            except TypeError:
                self.raise_py("TypeError", node, "ordering")
        if is_strlike(a) or is_strlike(b) or a is None or b is None:
            if is_strlike(a) and is_strlike(b):
                # Python orders strings lexicographically, which pyvc does not model: the result is an
                # unconstrained boolean (sound over-approximation; a refutation that depends on it is
                # confirmed or dismissed by the CPython replay of the counter-model)
                return mk_bool(self.ctx.fresh_bool("strorder!line%d" % getattr(node, "lineno", 0)))
            self.raise_py("TypeError", node, "ordering str/int")
        x, y = zint(a), zint(b)
        return mk_bool({ast.Lt: x < y, ast.LtE: x <= y, ast.Gt: x > y, ast.GtE: x >= y}[op])

    def negate(self, r):
        if isinstance(r, SBool):
            return mk_bool(z3.Not(r.t))
        return not r

    def identical(self, a, b):
        if a is None or b is None:
            return a is None and b is None
        if is_sym(a) or is_sym(b):
            # `x is True` / `x is False` on the value model: only a bool can be identical to a bool
            if isinstance(b, bool) and not isinstance(a, bool):
                a, b = b, a
            if isinstance(a, bool):
                if isinstance(b, SBool):
                    return mk_bool(b.t if a else z3.Not(b.t))
                return False
            raise Unsupported("`is` on symbolic values")
        if isinstance(a, bool) or isinstance(b, bool):
            return isinstance(a, bool) and isinstance(b, bool) and a == b
        return a is b

    def equal(self, a, b):
        """Python == on the value model."""
        if a is DIGIT or b is DIGIT:
            o = b if a is DIGIT else a
            if isinstance(o, str) and len(o) == 1 and not o.isdigit():
                return False
            raise Unsupported("comparison of a digit of a formatted integer with %r" % (o,))
        if isinstance(a, GStr) or isinstance(b, GStr):
            if a is b:
                return True
            g, o = (a, b) if isinstance(a, GStr) else (b, a)
            if "eq" not in g.ops:
                raise Unsupported("== on a ghost string whose contract does not define it")
            return g.ops["eq"](self, g, o)
        if isinstance(a, SRec) or isinstance(b, SRec):
            if a is b:
                return True
            if not (isinstance(a, SRec) and isinstance(b, SRec)):
                return False          # a dataclass instance never equals a value of another type
            raise Unsupported("== on records")
        if isinstance(a, (tuple, list)) and isinstance(b, (tuple, list)) and not isinstance(a, PSet) and not isinstance(b, PSet):
            # element-wise, so that symbolic values nested in concrete containers are compared symbolically
            if isinstance(a, tuple) is not isinstance(b, tuple) or len(a) != len(b):
                return False
            terms = [self.equal(x, y) for x, y in zip(a, b)]
            if all(isinstance(t, bool) for t in terms):
                return all(terms)
            return mk_bool(z3.And([zbool(t) for t in terms]))
        if not is_sym(a) and not is_sym(b):
            return a == b
        # symbolic cases
        if isinstance(a, SNumStr) or isinstance(b, SNumStr):
            if isinstance(b, SNumStr) and not isinstance(a, SNumStr):
                a, b = b, a
            if isinstance(b, SNumStr):
                return mk_bool(a.t == b.t)
            if isinstance(b, str):
                if _canonical_decimal(b):
                    return mk_bool(a.t == int(b))
                return False
            return False  # str vs non-str
        if isinstance(a, str) or isinstance(b, str) or a is None or b is None:
            return False
        if isinstance(a, (tuple, list)) or isinstance(b, (tuple, list)):
            if type(a) is not type(b) or len(a) != len(b):
                return False
            terms = [self.equal(x, y) for x, y in zip(a, b)]
            if all(isinstance(t, bool) for t in terms):
                return all(terms)
            return mk_bool(z3.And([zbool(t) for t in terms]))
        if is_intlike(a) and is_intlike(b):
            if (isinstance(a, (SBool, bool)) and isinstance(b, (SBool, bool))):
                return mk_bool(zbool(a) == zbool(b))
            return mk_bool(zint(a) == zint(b))
        return False

    def truth_term(self, v):
        """z3 Bool (or Python bool) for bool(v)."""
        if isinstance(v, SBool):
            return v.t
        if isinstance(v, SInt):
            return v.t != 0
        if isinstance(v, SNumStr):
            return True
        if isinstance(v, SRec):
            return True
        if isinstance(v, GDict):
            return v.truthy.t if isinstance(v.truthy, SBool) else v.truthy
        if isinstance(v, GStr):
            return v.length > 0
        if isinstance(v, GObj):
            return True if v.truthy is None else v.truthy
        return bool(v)

    def truth(self, v):
        return self.ctx.branch(self.truth_term(v))

    def as_sequence(self, v, node):
        if isinstance(v, (list, tuple)):
            return v
        if isinstance(v, (range, dict, set, frozenset)):
            return list(v)
        if isinstance(v, str):
            return list(v)
        raise Unsupported("iteration over %r at line %d" % (type(v).__name__, getattr(node, "lineno", 0)))

    # comprehensions
    def _comp(self, e, elt_fn):
        out = []

        def rec(gi):
            if gi == len(e.generators):
                out.append(elt_fn())
                return
            g = e.generators[gi]
            if g.is_async:
                raise Unsupported("async comprehension")
            for v in list(self.as_sequence(self.eval(g.iter), e)):
                self.assign(g.target, v)
                if all(self.truth(self.eval(c)) for c in g.ifs):
                    rec(gi + 1)

        saved = dict(self.env)
        rec(0)
        # comprehension variables do not leak (py3)
        for k in list(self.env):
            if k not in saved:
                del self.env[k]
            else:
                self.env[k] = saved[k]
        return out

    def e_ListComp(self, e):
        return self._comp(e, lambda: self.eval(e.elt))

    def _concrete_set(self, items, node):
        for x in items:
            if is_sym(x) or isinstance(x, (SRec, GDict, GObj, GStr, list, dict, set)):
                raise Unsupported("set display / comprehension with a symbolic or unhashable element at line %d" % node.lineno)
        return set(items)

    def e_Set(self, e):
        return self._concrete_set(self.eval_elts(e.elts), e)

    def e_SetComp(self, e):
        return self._concrete_set(self._comp(e, lambda: self.eval(e.elt)), e)

    def e_GeneratorExp(self, e):
        return self._comp(e, lambda: self.eval(e.elt))

    def e_JoinedStr(self, e):
        pieces = []
        for v in e.values:
            if isinstance(v, ast.Constant):
                pieces.append(str(v.value))
                continue
            if not isinstance(v, ast.FormattedValue) or v.format_spec is not None or v.conversion not in (-1, 115):
                raise Unsupported("f-string with a conversion or format spec at line %d" % e.lineno)
            x = self.eval(v.value)
            pieces.append(self.to_str(x, e))
        return PStr.make(pieces)

    def to_str(self, x, node):
        """str(x) on the value model."""
        if isinstance(x, (str, SNumStr, PStr)):
            return x
        if isinstance(x, SInt):
            return SNumStr(x.t)
        if isinstance(x, bool) or x is None:
            return str(x)
        if isinstance(x, int):
            return str(x)
        if isinstance(x, GObj) and "__str__" in x.methods:
            return x.methods["__str__"](self, x)
        hooks = getattr(self.ctx.engine, "str_of", {})
        if isinstance(x, SRec) and x.typename in hooks:
            return hooks[x.typename](self, x)
        raise Unsupported("str() of %r at line %d" % (x, getattr(node, "lineno", 0)))

    def e_Lambda(self, e):
        return _Closure(self, e)

    def e_NamedExpr(self, e):
        v = self.eval(e.value)
        self.assign(e.target, v)
        return v

    def s_FunctionDef(self, s):
        if s.decorator_list or s.args.kwonlyargs or s.args.kwarg or s.args.defaults:
            raise Unsupported("nested def with decorators / keyword-only / default arguments at line %d" % s.lineno)
        self.env[s.name] = _Closure(self, s)

    def e_Call(self, e):
        fn = self.eval(e.func)
        args = self.eval_elts(e.args)
        kwargs = {}
        for k in e.keywords:
            if k.arg is None:
                d = self.eval(k.value)
                if not isinstance(d, dict) or isinstance(d, GDict) or any(not isinstance(x, str) for x in d):
                    raise Unsupported("**kwargs call with something other than a dict with concrete string keys")
                kwargs.update(d)
                continue
            kwargs[k.arg] = self.eval(k.value)
        return self.apply(fn, args, kwargs, e)

    def apply(self, fn, args, kwargs, node):
        eng = self.ctx.engine
        if isinstance(fn, _BoundRec):
            return fn.call(self, args, kwargs, node)
        if isinstance(fn, (_BoundNative, _BoundGDictGet, _BoundGhost)):
            return fn.call(self, args, kwargs, node)
        if isinstance(fn, _Closure):
            return fn.call(args)
        if id(fn) in eng.specs:
            return eng.specs[id(fn)](self, *args, **kwargs)
        if id(fn) in eng.reader_like:
            return args[0]
        if id(fn) in eng.inline:
            info = load_function(eng.inline[id(fn)])
            if self.depth > 40:
                raise Unsupported("inline recursion too deep")
            return Interp(self.ctx, info, self.depth + 1).call(args, kwargs)
        b = _BUILTINS.get(id(fn))
        if b is not None:
            return b(self, node, *args, **kwargs)
        import types
        if isinstance(fn, types.FunctionType) and fn.__name__ == "<lambda>" and getattr(fn, "__module__", None) and self.info.qualname.startswith(fn.__module__ + "."):
            # a lambda of the same module that was created natively (e.g. an entry of a module-level table): interpreted from
            # its source, located by line number and parameter names
            path = inspect.getsourcefile(fn)
            tree = _module_cache.get(path)
            if tree is None:
                with open(path) as f:
                    tree = _module_cache[path] = ast.parse(f.read(), path)
            want = list(fn.__code__.co_varnames[:fn.__code__.co_argcount + (1 if fn.__code__.co_flags & 0x04 else 0)])
            cands = [n for n in ast.walk(tree) if isinstance(n, ast.Lambda) and n.lineno == fn.__code__.co_firstlineno
                     and [a.arg for a in n.args.args] + ([n.args.vararg.arg] if n.args.vararg else []) == want]
            if len(cands) == 1 and not fn.__closure__:
                sub = Interp(self.ctx, self.info, self.depth + 1)
                sub.env = {}
                return _Closure(sub, cands[0]).call(args)
            raise Unsupported("native lambda at %s:%d cannot be located unambiguously in the source" % (path, fn.__code__.co_firstlineno))
        if isinstance(fn, types.FunctionType) and getattr(fn, "__module__", None) and self.info.qualname.startswith(fn.__module__ + ".") \
                and fn.__qualname__.count(".") <= 1 and "<" not in fn.__qualname__:
            # a helper of the same module that has no contract of its own (e.g. one extracted by a refactoring) is
            # executed from its body, like any other statement of the function under verification
            eng.auto_inlined = getattr(eng, "auto_inlined", set()) | {fn.__module__ + "." + fn.__qualname__}
            if self.depth > 40:
                raise Unsupported("inline recursion too deep")
            return Interp(self.ctx, load_function(fn.__module__ + "." + fn.__qualname__), self.depth + 1).call(args, kwargs)
        raise Unsupported("call to %r without contract at %s:%d" % (getattr(fn, "__qualname__", fn), self.info.qualname, node.lineno))


class _Closure:
    def __init__(self, interp, node):
        self.interp = interp
        self.node = node
        self.env = dict(interp.env)

    def call(self, args):
        sub = Interp(self.interp.ctx, self.interp.info, self.interp.depth + 1)
        sub.env = dict(self.env)
        names = [a.arg for a in self.node.args.args]
        va = self.node.args.vararg
        if len(names) > len(args) or (len(names) < len(args) and va is None):
            raise Unsupported("lambda arity")
        sub.env.update(zip(names, args))
        if va is not None:
            sub.env[va.arg] = tuple(args[len(names):])
        if isinstance(self.node, ast.FunctionDef):
            # a nested def: late binding of the enclosing scope is approximated by the scope at definition time plus
            # the definition itself (recursion); sufficient for helpers that only read enclosing names assigned before
            sub.env.setdefault(self.node.name, self)
            try:
                sub.block(self.node.body)
            except _Return as r:
                return r.value
            return None
        return sub.eval(self.node.body)


class _BoundRec:
    def __init__(self, rec, name):
        self.rec = rec
        self.name = name

    def call(self, interp, args, kwargs, node):
        if self.name in ("has_field", "HasField"):
            fld = args[0]
            key = "has:" + fld
            if key in self.rec.f:
                return self.rec.f[key]
            if fld in self.rec.f:
                return self.rec.f[fld] is not None
            if key in self.rec.defaults:
                return self.rec.defaults[key]
            # A ghost node must not be narrower than the real node: a field that the real IR class has but the contract
            # did not mention may be set or not - its presence is an unconstrained symbolic boolean, so the postcondition
            # has to hold either way (reading the field's VALUE stays unsupported).
            if isinstance(fld, str) and _is_real_ir_field(self.rec.typename, fld):
                b = SBool(interp.ctx.fresh_bool("has_field(%s.%s)" % (self.rec.typename, fld)))
                self.rec.f[key] = b
                return b
            raise Unsupported("has_field(%s) on %s undeclared" % (fld, self.rec.typename))
        if self.name == "CopyFrom":
            other = args[0]
            if not isinstance(other, SRec):
                raise Unsupported("CopyFrom non-record")
            self.rec.f.clear()
            self.rec.f.update(copy_rec(other).f)
            return None
        raise Unsupported("record method %s" % self.name)


def _is_real_ir_field(typename, fld):
    try:
        import importlib
        ir_data = importlib.import_module("compiler.util.ir_data")
        ir_data_fields = importlib.import_module("compiler.util.ir_data_fields")
        cls = getattr(ir_data, typename, None)
        return cls is not None and fld in ir_data_fields.field_specs(cls)
    except Exception:
        return False


def copy_rec(v):
    if isinstance(v, SRec):
        return SRec(v.typename, {k: copy_rec(x) for k, x in v.f.items()}, v.defaults)
    if isinstance(v, list):
        return [copy_rec(x) for x in v]
    return v


class _BoundGhost:
    def __init__(self, obj, name, fn):
        self.obj, self.name, self.fn = obj, name, fn

    def call(self, interp, args, kwargs, node):
        return self.fn(interp, self.obj, *args, **kwargs)


class _BoundGDictGet:
    def __init__(self, d):
        self.d = d

    def call(self, interp, args, kwargs, node):
        key = args[0]
        default = args[1] if len(args) > 1 else kwargs.get("default")
        if is_sym(key) or key not in self.d.present:
            raise Unsupported("get(%r) on a ghost dict that does not specify it (line %d)" % (key, node.lineno))
        pres = self.d.present[key]
        if pres is True or (pres is not False and interp.ctx.branch(pres)):
            return self.d.entries[key]
        return default


class _BoundNative:
    def __init__(self, obj, name):
        self.obj = obj
        self.name = name

    def call(self, interp, args, kwargs, node):
        o, n = self.obj, self.name
        if isinstance(o, list) and n == "append":
            o.append(args[0])
            return None
        if isinstance(o, list) and n == "extend":
            o.extend(interp.as_sequence(args[0], node))
            return None
        if isinstance(o, PSet) and n == "add":
            o.add_elem(args[0])
            return None
        if isinstance(o, set) and n == "add":
            if is_sym(args[0]) or isinstance(args[0], SRec):
                raise Unsupported("set.add of a symbolic value at line %d" % node.lineno)
            o.add(args[0])
            return None
        if isinstance(o, dict) and n == "get":
            k = args[0]
            if is_sym(k):
                raise Unsupported("symbolic dict.get key")
            return o.get(k, args[1] if len(args) > 1 else None)
        if isinstance(o, dict) and not isinstance(o, GDict) and n == "setdefault":
            k = args[0]
            if is_sym(k):
                raise Unsupported("symbolic dict.setdefault key")
            return o.setdefault(k, args[1] if len(args) > 1 else None)
        if isinstance(o, dict) and n in ("items", "keys", "values"):
            return list(getattr(o, n)())
        if isinstance(o, dict) and n == "copy":
            return dict(o)
        if isinstance(o, list) and n == "copy":
            return list(o)
        if isinstance(o, set) and n in ("update", "add", "discard") and not any(is_sym(a) for a in args):
            # a native set of concrete (hashable) elements
            if n == "update":
                for a in args:
                    o.update(interp.as_sequence(a, node))
            else:
                getattr(o, n)(*args)
            return None
        if isinstance(o, str) and n == "format":
            if any(is_sym(a) or isinstance(a, (SRec, PStr)) for a in args):
                if getattr(interp.ctx.engine, "precise_format", False) and not kwargs:
                    # opt-in (contracts about rendered text): positional fields without conversion or format spec become
                    # pieces of a piecewise string
                    import string
                    pieces, auto = [], 0
                    for lit, field, spec, conv in string.Formatter().parse(o):
                        pieces.append(lit)
                        if field is None:
                            continue
                        if spec or conv or not (field == "" or field.isdigit()):
                            raise Unsupported("str.format field {%s!%s:%s} with symbolic arguments" % (field, conv, spec))
                        idx = auto if field == "" else int(field)
                        auto += 1
                        pieces.append(interp.to_str(args[idx], node))
                    return PStr.make(pieces)
                return "<formatted>"
            return o.format(*args, **kwargs)
        if isinstance(o, str) and n in ("join",):
            seq = interp.as_sequence(args[0], node)
            if any(is_sym(a) for a in seq):
                raise Unsupported("join of symbolic strings")
            if any(isinstance(a, list) for a in seq):
                # opaque text pieces (a contract models rendered text as a list of pieces): joining concatenates the pieces
                out = []
                for a in seq:
                    out.extend(a if isinstance(a, list) else [a])
                return out
            return o.join(seq)
        if isinstance(o, str) and n in ("startswith", "endswith", "lower", "upper", "strip", "split", "title", "capitalize", "rstrip", "lstrip", "replace"):
            if any(is_sym(a) for a in args):
                raise Unsupported("symbolic str method arg")
            return getattr(o, n)(*args)
        raise Unsupported("method %s of %s at line %d" % (n, type(o).__name__, node.lineno))


def _as_load(t):
    import copy
    t2 = copy.copy(t)
    t2.ctx = ast.Load()
    return t2


_NATIVE_BINOPS = {
    ast.Add: operator.add, ast.Sub: operator.sub, ast.Mult: operator.mul,
    ast.FloorDiv: operator.floordiv, ast.Mod: operator.mod, ast.Pow: operator.pow,
    ast.BitAnd: operator.and_, ast.BitOr: operator.or_, ast.LShift: operator.lshift,
    ast.RShift: operator.rshift, ast.BitXor: operator.xor,
}
_NATIVE_CMP = {ast.Lt: operator.lt, ast.LtE: operator.le, ast.Gt: operator.gt, ast.GtE: operator.ge}


# ---------------------------------------------------------------------------
# builtins


def _b_int(interp, node, v=0, *rest):
    if rest:
        raise Unsupported("int() with base")
    if isinstance(v, SNumStr):
        return mk_int(v.t)
    if isinstance(v, PStr):
        if any(isinstance(q, str) and any(not (ch.isdigit() or ch.isspace() or ch in "+-_") for ch in q) for q in v.pieces):
            interp.raise_py("ValueError", node, "int(%r)" % (v,))
        raise Unsupported("int() of a formatted string that is not a single integer: %r" % (v,))
    if isinstance(v, (SInt, SBool)):
        return mk_int(zint(v))
    if isinstance(v, str):
        try:
            return int(v)
        except ValueError:
            interp.raise_py("ValueError", node, "int(%r)" % v)
    if isinstance(v, (int, bool)):
        return int(v)
    if v is None or isinstance(v, SRec):
        interp.raise_py("TypeError", node, "int(None)")
    raise Unsupported("int(%r)" % (v,))


def _b_str(interp, node, v=""):
    if isinstance(v, SInt):
        return SNumStr(v.t)
    if isinstance(v, SNumStr):
        return v
    if isinstance(v, SBool):
        raise Unsupported("str(bool)")
    if isinstance(v, SRec):
        return "<record>"
    return str(v)


def _b_abs(interp, node, v):
    if isinstance(v, SInt):
        if interp.ctx.branch(v.t >= 0):
            return v
        return mk_int(-v.t)
    if is_strlike(v):
        interp.raise_py("TypeError", node, "abs(str)")
    return abs(v)


def _minmax(is_max):
    def f(interp, node, *args, **kw):
        if kw:
            raise Unsupported("min/max with key")
        seq = list(args)
        if len(seq) == 1:
            seq = list(interp.as_sequence(seq[0], node))
        if not seq:
            interp.raise_py("ValueError", node, "empty max")
        if any(is_strlike(x) or x is None for x in seq):
            if all(isinstance(x, str) for x in seq):
                return (max if is_max else min)(seq)
            interp.raise_py("TypeError", node, "max of str/int")
        if not any(is_sym(x) for x in seq):
            return (max if is_max else min)(seq)
        ts = [zint(x) for x in seq]
        c = interp.ctx
        m = c.fresh_int("max" if is_max else "min")
        c.assume(z3.And([(m >= t) if is_max else (m <= t) for t in ts]))
        c.one_of(m, ts)
        return SInt(m)
    return f


def _b_len(interp, node, v):
    if isinstance(v, GStr):
        return mk_int(v.length)
    if isinstance(v, PSet) and v.has_symbolic() and len(v) > 1:
        raise Unsupported("len() of a set with symbolic elements at line %d" % node.lineno)
    if isinstance(v, (list, tuple, dict, str, set, frozenset)):
        return len(v)
    raise Unsupported("len(%r)" % type(v).__name__)


def _b_all(interp, node, seq):
    for x in interp.as_sequence(seq, node):
        if not interp.truth(x):
            return False
    return True


def _b_any(interp, node, seq):
    for x in interp.as_sequence(seq, node):
        if interp.truth(x):
            return True
    return False


def _b_isinstance(interp, node, v, t):
    if is_sym(v):
        if isinstance(v, SInt):
            py = int
        elif isinstance(v, SBool):
            py = bool
        else:
            py = str
        return issubclass(py, t) if not isinstance(t, tuple) else any(issubclass(py, x) for x in t)
    if isinstance(v, SRec):
        names = [x.__name__ for x in (t if isinstance(t, tuple) else (t,))]
        return v.typename in names
    return isinstance(v, t)


def _b_tuple(interp, node, v=()):
    return tuple(interp.as_sequence(v, node))


def _b_list(interp, node, v=()):
    return list(interp.as_sequence(v, node))


def _b_range(interp, node, *a):
    if any(is_sym(x) for x in a):
        raise Unsupported("symbolic range")
    return list(range(*a))


def _b_bool(interp, node, v=False):
    t = interp.truth_term(v)
    return mk_bool(t) if z3.is_expr(t) else bool(t)


def _b_sorted(interp, node, v, **kw):
    seq = interp.as_sequence(v, node)
    if any(is_sym(x) for x in seq):
        raise Unsupported("sorted of symbolic values")
    key = kw.pop("key", None)
    reverse = kw.pop("reverse", False)
    if kw or is_sym(reverse) or (key is not None and key not in (sorted, len, str, tuple, list)):
        raise Unsupported("sorted with a key that is not one of the builtins sorted/len/str/tuple/list")
    return sorted(seq, key=key, reverse=bool(reverse))


def _cmp_op(astop):
    def f(interp, node, a, b):
        return interp.compare(astop, a, b, node)
    return f


def _b_and_(interp, node, a, b):
    if isinstance(a, (SBool, bool)) and isinstance(b, (SBool, bool)):
        if not is_sym(a) and not is_sym(b):
            return a & b
        return mk_bool(z3.And(zbool(a), zbool(b)))
    raise Unsupported("operator.and_ on non-bools")


def _b_or_(interp, node, a, b):
    if isinstance(a, (SBool, bool)) and isinstance(b, (SBool, bool)):
        if not is_sym(a) and not is_sym(b):
            return a | b
        return mk_bool(z3.Or(zbool(a), zbool(b)))
    raise Unsupported("operator.or_ on non-bools")


def _binop_fn(astop):
    def f(interp, node, a, b):
        return interp.binop(astop, a, b, node)
    return f


class GDict:
    """A dict of which a contract fixes only what the code may observe: for each (concrete) key whether it is present
    (a Python bool or an SBool), the entry stored under it, and the dict's truthiness (empty or not)."""

    def __init__(self, present, entries, truthy=True, label="dict", attrs=None):
        self.present, self.entries, self.truthy, self.label = dict(present), dict(entries), truthy, label
        self.attrs = dict(attrs or {})       # attributes of a dict subclass instance (e.g. symbol_resolver._Scope)

    def __repr__(self):
        a = {k: (v.f if isinstance(v, SRec) else v) for k, v in self.attrs.items() if k in ("canonical_name", "alias")}
        return "GDict<%s keys=%s%s>" % (self.label, sorted(self.entries), (" " + repr(a)) if a else "")


class _DigitChar:
    """One character of the decimal rendering of a non-negative integer: equal to no non-digit character."""

    def __repr__(self):
        return "<digit>"


DIGIT = _DigitChar()


class PStr:
    """A piecewise string: concrete str pieces and SNumStr pieces (the decimal rendering of an integer term), as built by an
    f-string.  Operations that rely on an SNumStr piece consisting of digits only (indexing, split, strip) generate the
    obligation that its integer is non-negative (a sign would be a '-' character)."""

    def __init__(self, pieces):
        out = []
        for p in pieces:
            if isinstance(p, PStr):
                ps = p.pieces
            else:
                ps = [p]
            for q in ps:
                if isinstance(q, str):
                    if not q:
                        continue
                    if out and isinstance(out[-1], str):
                        out[-1] += q
                        continue
                elif not isinstance(q, SNumStr):
                    raise Unsupported("piece %r in a formatted string" % (q,))
                out.append(q)
        self.pieces = out

    def __repr__(self):
        return "PStr(%r)" % (self.pieces,)

    @staticmethod
    def make(pieces):
        p = PStr(pieces)
        if not p.pieces:
            return ""
        if len(p.pieces) == 1:
            return p.pieces[0]
        return p

    def _digits(self, interp, piece):
        interp.ctx.oblige("%s.formatted-integer-is-non-negative" % interp.short(), piece.t >= 0, detail="an integer rendered into a string that is later split / indexed must not carry a sign")

    def last_char(self, interp):
        q = self.pieces[-1]
        if isinstance(q, str):
            return q[-1]
        self._digits(interp, q)
        return DIGIT

    def drop_last(self, interp):
        q = self.pieces[-1]
        if not isinstance(q, str):
            raise Unsupported("s[:-1] where the last character belongs to a formatted integer")
        return PStr.make(self.pieces[:-1] + [q[:-1]])

    def split(self, interp, sep):
        if not isinstance(sep, str) or len(sep) != 1 or sep.isdigit():
            raise Unsupported("split of a formatted string on %r" % (sep,))
        parts, cur = [], []
        for q in self.pieces:
            if isinstance(q, str):
                bits = q.split(sep)
                cur.append(bits[0])
                for b in bits[1:]:
                    parts.append(PStr.make(cur))
                    cur = [b]
            else:
                if sep == "-":
                    self._digits(interp, q)
                cur.append(q)
        parts.append(PStr.make(cur))
        return parts

    def strip(self, interp):
        ps = list(self.pieces)
        if isinstance(ps[0], str):
            ps[0] = ps[0].lstrip()
        if isinstance(ps[-1], str):
            ps[-1] = ps[-1].rstrip()
        return PStr.make(ps)


class GStr:
    """A string of which a contract fixes only what the code may observe: its length (a z3 Int), and - through callbacks -
    the result of the operations the contract allows (suffix slicing, startswith).  `tag` identifies the string for the
    contract (e.g. ("suffix", offset term) or ("match", j, offset term))."""

    def __init__(self, length, tag=None, ops=None):
        self.length, self.tag, self.ops = length, tag, ops or {}

    def __repr__(self):
        return "GStr%r" % (self.tag,)


class GObj:
    """An opaque object with contract-defined methods: methods[name](interp, *args) -> value."""

    def __init__(self, label, methods=None, attrs=None, truthy=None):
        self.label, self.methods, self.attrs = label, dict(methods or {}), dict(attrs or {})
        self.truthy = truthy            # None: always true (a plain object); a z3 Bool: the result of its __bool__ / __len__

    def __repr__(self):
        return "GObj(%s)" % self.label


class PSet(list):
    """A Python set in the value model: the elements in insertion order.  Concrete elements are kept unique; symbolic
    elements may be equal to one another (membership `x in S` is the disjunction of the element equalities), so the
    length of a set that holds symbolic elements is not defined here (Unsupported)."""

    def add_elem(self, v):
        if not (is_sym(v) or isinstance(v, SRec)):
            if any((not is_sym(x)) and (not isinstance(x, SRec)) and x == v for x in self):
                return
        self.append(v)

    def has_symbolic(self):
        return any(is_sym(x) for x in self)


def _b_set(interp, node, *args):
    out = PSet()
    if args:
        for a in interp.as_sequence(args[0], node):
            out.add_elem(a)
    return out


def _b_zip(interp, node, *seqs):
    return list(zip(*[interp.as_sequence(x, node) for x in seqs]))


def _b_enumerate(interp, node, seq, start=0):
    return list(enumerate(interp.as_sequence(seq, node), start))


def _b_getattr(interp, node, obj, name, *default):
    if not isinstance(name, str) or default:
        raise Unsupported("getattr with a symbolic name or a default")
    return interp.getattr(obj, name, node)


def _b_reversed(interp, node, v):
    return list(reversed(interp.as_sequence(v, node)))


_BUILTINS = {
    id(getattr): _b_getattr, id(reversed): _b_reversed,
    id(zip): _b_zip, id(enumerate): _b_enumerate, id(set): _b_set, id(int): _b_int, id(str): _b_str, id(abs): _b_abs, id(max): _minmax(True), id(min): _minmax(False),
    id(len): _b_len, id(all): _b_all, id(any): _b_any, id(isinstance): _b_isinstance, id(tuple): _b_tuple,
    id(list): _b_list, id(range): _b_range, id(bool): _b_bool, id(sorted): _b_sorted,
    id(operator.eq): _cmp_op(ast.Eq), id(operator.ne): _cmp_op(ast.NotEq), id(operator.lt): _cmp_op(ast.Lt),
    id(operator.le): _cmp_op(ast.LtE), id(operator.gt): _cmp_op(ast.Gt), id(operator.ge): _cmp_op(ast.GtE),
    id(operator.and_): _b_and_, id(operator.or_): _b_or_,
    id(operator.add): _binop_fn(ast.Add), id(operator.sub): _binop_fn(ast.Sub), id(operator.mul): _binop_fn(ast.Mult),
}


# ---------------------------------------------------------------------------
# running a contract


def run_body(ctx, dotted, args, kwargs=None, exc_ok=()):
    """Executes the real body of `dotted` on this path.  A Python exception raised by the
    code is an obligation ("raise unreachable") unless its type is in exc_ok, in which case
    ('raised', type) is returned."""
    info = load_function(dotted)
    it = Interp(ctx, info)
    try:
        return ("ok", it.call(list(args), kwargs))
    except PyRaise as r:
        if r.exc_type in exc_ok:
            return ("raised", r.exc_type)
        # reaching a raise on a feasible path violates exception freedom
        ctx.oblige("%s.no-raise" % dotted.split(".")[-1], False,
                   detail="%s raised at %s %s" % (r.exc_type, r.where, r.msg))
        raise PathEnd()


def collect(paths, prefix):
    """Aggregates per-path results into one Obligation per (label, clause)."""
    agg = {}
    for c in paths:
        lab = c.label()
        for (clause, verdict, backend, secs, model, detail) in c.results:
            key = "%s[%s].%s" % (prefix, lab, clause) if lab else "%s.%s" % (prefix, clause)
            a = agg.get(key)
            if a is None:
                a = agg[key] = core.Obligation(key, verdict, backend, secs, model, detail)
                a._n = 1
            else:
                a._n += 1
                a.seconds += secs
                rank = {core.PROVED: 0, core.UNKNOWN: 1, core.REFUTED: 2}
                if rank[verdict] > rank[a.verdict]:
                    a.verdict, a.backend, a.model, a.detail = verdict, backend, model, detail
    return list(agg.values())
