"""Parser for the subset of LLVM 14 textual IR that clang -O2 emits for the harness wrappers.

What is dropped (DESIGN 2.2): metadata (!tbaa, !nosanitize, ...), parameter/return attributes
(noundef, nonnull, zeroext ...), llvm.lifetime.*, debug info, fast-math flags."""
import re


class IRError(Exception):
    pass


# -- types ----------------------------------------------------------------------


class Ty:
    pass


class IntTy(Ty):
    def __init__(self, bits):
        self.bits = bits

    def __repr__(self):
        return "i%d" % self.bits


class PtrTy(Ty):
    def __init__(self, to):
        self.to = to

    def __repr__(self):
        return "%r*" % (self.to,)


class FloatTy(Ty):
    def __init__(self, bits):
        self.bits = bits

    def __repr__(self):
        return {32: "float", 64: "double"}[self.bits]


class VoidTy(Ty):
    def __repr__(self):
        return "void"


class ArrTy(Ty):
    def __init__(self, n, el):
        self.n, self.el = n, el

    def __repr__(self):
        return "[%d x %r]" % (self.n, self.el)


class StructTy(Ty):
    def __init__(self, fields, packed=False, name=None):
        self.fields, self.packed, self.name = fields, packed, name

    def __repr__(self):
        return self.name or "{%s}" % ", ".join(map(repr, self.fields))


class FnTy(Ty):
    def __init__(self, ret, params):
        self.ret, self.params = ret, params

    def __repr__(self):
        return "%r (%s)" % (self.ret, ", ".join(map(repr, self.params)))


class LabelTy(Ty):
    def __repr__(self):
        return "label"


class OpaqueTy(Ty):
    def __repr__(self):
        return "opaque"


def sizeof(t):
    """ABI size in bytes (x86-64 data layout)."""
    if isinstance(t, IntTy):
        b = (t.bits + 7) // 8
        a = alignof(t)
        return (b + a - 1) // a * a
    if isinstance(t, PtrTy):
        return 8
    if isinstance(t, FloatTy):
        return t.bits // 8
    if isinstance(t, ArrTy):
        return t.n * sizeof(t.el)
    if isinstance(t, StructTy):
        off = 0
        for f in t.fields:
            if not t.packed:
                a = alignof(f)
                off = (off + a - 1) // a * a
            off += sizeof(f)
        if not t.packed:
            a = alignof(t)
            off = (off + a - 1) // a * a
        return off
    raise IRError("sizeof %r" % (t,))


def alignof(t):
    if isinstance(t, IntTy):
        b = (t.bits + 7) // 8
        a = 1
        while a < b:
            a *= 2
        return min(a, 8) if t.bits <= 64 else 16
    if isinstance(t, PtrTy):
        return 8
    if isinstance(t, FloatTy):
        return t.bits // 8
    if isinstance(t, ArrTy):
        return alignof(t.el)
    if isinstance(t, StructTy):
        if t.packed:
            return 1
        return max([alignof(f) for f in t.fields] or [1])
    raise IRError("alignof %r" % (t,))


def field_offset(t, i):
    off = 0
    for j, f in enumerate(t.fields):
        if not t.packed:
            a = alignof(f)
            off = (off + a - 1) // a * a
        if j == i:
            return off
        off += sizeof(f)
    raise IRError("field index")


# -- values ---------------------------------------------------------------------


class Val:
    pass


class Local(Val):
    def __init__(self, name):
        self.name = name

    def __repr__(self):
        return "%" + self.name


class Global(Val):
    def __init__(self, name):
        self.name = name

    def __repr__(self):
        return "@" + self.name


class ConstInt(Val):
    def __init__(self, v):
        self.v = v

    def __repr__(self):
        return str(self.v)


class ConstNull(Val):
    pass


class ConstUndef(Val):
    pass


class ConstZero(Val):
    pass


class ConstFloat(Val):
    def __init__(self, text):
        self.text = text


class ConstExpr(Val):
    def __init__(self, op, args, ty=None, extra=None):
        self.op, self.args, self.ty, self.extra = op, args, ty, extra


class ConstAgg(Val):
    def __init__(self, elems):
        self.elems = elems   # list of (type, Val)


class ConstBytes(Val):
    def __init__(self, data):
        self.data = data


# -- tokenizer ------------------------------------------------------------------

_TOK = re.compile(r'''
    \s+ |
    (?P<str>c?"(?:[^"\\]|\\.)*") |
    (?P<local>%[-a-zA-Z$._0-9]+|%"[^"]*") |
    (?P<glob>@[-a-zA-Z$._0-9]+|@"[^"]*") |
    (?P<meta>![-a-zA-Z$._0-9]*) |
    (?P<attr>\#\d+) |
    (?P<num>-?\d+(?:\.\d+(?:e[+-]?\d+)?)?|0x[0-9A-Fa-f]+) |
    (?P<word>[a-zA-Z_][a-zA-Z0-9_.]*) |
    (?P<punct><\{|\}>|\.\.\.|[()\[\]{}<>,=*:])
''', re.X)


def tokenize(line):
    out = []
    pos = 0
    n = len(line)
    while pos < n:
        if line[pos] == ";":
            break
        m = _TOK.match(line, pos)
        if not m:
            raise IRError("cannot tokenize at %r" % line[pos:pos + 40])
        pos = m.end()
        k = m.lastgroup
        if k is None:
            continue
        out.append((k, m.group(k)))
    return out


class P:
    def __init__(self, toks, mod):
        self.t = toks
        self.i = 0
        self.mod = mod

    def peek(self, k=0):
        return self.t[self.i + k] if self.i + k < len(self.t) else (None, None)

    def next(self):
        tok = self.peek()
        self.i += 1
        return tok

    def accept(self, text):
        if self.peek()[1] == text:
            self.i += 1
            return True
        return False

    def expect(self, text):
        if not self.accept(text):
            raise IRError("expected %r, got %r in %r" % (text, self.peek(), " ".join(t[1] for t in self.t)[:200]))

    def at_end(self):
        return self.i >= len(self.t)

    # types
    def type(self):
        k, v = self.next()
        if k == "word":
            if re.fullmatch(r"i\d+", v):
                t = IntTy(int(v[1:]))
            elif v == "void":
                t = VoidTy()
            elif v == "float":
                t = FloatTy(32)
            elif v == "double":
                t = FloatTy(64)
            elif v == "label":
                t = LabelTy()
            elif v == "ptr":
                t = PtrTy(IntTy(8))
            elif v == "opaque":
                t = OpaqueTy()
            elif v == "metadata":
                t = OpaqueTy()
            else:
                raise IRError("type word %r" % v)
        elif k == "local":
            name = v[1:].strip('"')
            t = self.mod.named_type(name)
        elif v == "[":
            n = int(self.next()[1])
            self.expect("x")
            el = self.type()
            self.expect("]")
            t = ArrTy(n, el)
        elif v == "{":
            fs = []
            if not self.accept("}"):
                while True:
                    fs.append(self.type())
                    if self.accept("}"):
                        break
                    self.expect(",")
            t = StructTy(fs)
        elif v == "<{":
            fs = []
            if not self.accept("}>"):
                while True:
                    fs.append(self.type())
                    if self.accept("}>"):
                        break
                    self.expect(",")
            t = StructTy(fs, packed=True)
        elif v == "<":
            raise IRError("vector types are not supported (compile with -fno-vectorize)")
        else:
            raise IRError("type token %r" % (v,))
        while True:
            if self.accept("*"):
                t = PtrTy(t)
            elif self.peek()[1] == "(":
                # function type
                self.next()
                ps = []
                if not self.accept(")"):
                    while True:
                        if self.accept("..."):
                            pass
                        else:
                            ps.append(self.type())
                            self.skip_attrs()
                        if self.accept(")"):
                            break
                        self.expect(",")
                t = FnTy(t, ps)
            else:
                break
        return t

    ATTRS = {"noundef", "nonnull", "zeroext", "signext", "nocapture", "readonly", "readnone", "writeonly", "noalias",
             "returned", "immarg", "inreg", "nofree", "nest", "swiftself", "align", "dereferenceable",
             "dereferenceable_or_null", "sret", "byval"}

    def skip_attrs(self):
        while True:
            k, v = self.peek()
            if k == "word" and v in self.ATTRS:
                self.next()
                if self.peek()[1] == "(":
                    depth = 0
                    while True:
                        kk, vv = self.next()
                        if vv == "(":
                            depth += 1
                        elif vv == ")":
                            depth -= 1
                            if depth == 0:
                                break
                elif v == "align" and self.peek()[0] == "num":
                    self.next()
            else:
                return

    # values
    def value(self, ty):
        k, v = self.next()
        if k == "local":
            return Local(v[1:].strip('"'))
        if k == "glob":
            return Global(v[1:].strip('"'))
        if k == "num":
            if isinstance(ty, FloatTy):
                return ConstFloat(v)
            if v.startswith("0x"):
                return ConstFloat(v)
            return ConstInt(int(v))
        if k == "word":
            if v == "true":
                return ConstInt(1)
            if v == "false":
                return ConstInt(0)
            if v == "null":
                return ConstNull()
            if v in ("undef", "poison"):
                return ConstUndef()
            if v == "zeroinitializer":
                return ConstZero()
            if v in ("inttoptr", "ptrtoint", "bitcast", "trunc", "zext", "sext", "addrspacecast"):
                self.expect("(")
                st = self.type()
                sv = self.value(st)
                self.expect("to")
                dt = self.type()
                self.expect(")")
                return ConstExpr(v, [(st, sv)], dt)
            if v == "getelementptr":
                self.accept("inbounds")
                self.expect("(")
                base_t = self.type()
                self.expect(",")
                args = []
                while True:
                    t = self.type()
                    args.append((t, self.value(t)))
                    if self.accept(")"):
                        break
                    self.expect(",")
                return ConstExpr("getelementptr", args, None, base_t)
            if v in ("add", "sub", "mul", "and", "or", "xor", "shl", "lshr", "ashr"):
                while self.peek()[1] in ("nuw", "nsw", "exact"):
                    self.next()
                self.expect("(")
                t1 = self.type()
                v1 = self.value(t1)
                self.expect(",")
                t2 = self.type()
                v2 = self.value(t2)
                self.expect(")")
                return ConstExpr(v, [(t1, v1), (t2, v2)], t1)
            if v == "icmp":
                pred = self.next()[1]
                self.expect("(")
                t1 = self.type()
                v1 = self.value(t1)
                self.expect(",")
                t2 = self.type()
                v2 = self.value(t2)
                self.expect(")")
                return ConstExpr("icmp", [(t1, v1), (t2, v2)], IntTy(1), pred)
            raise IRError("constant word %r" % v)
        if k == "str":
            return ConstBytes(_unescape(v))
        if v == "[" or v == "{" or v == "<{":
            close = {"[": "]", "{": "}", "<{": "}>"}[v]
            elems = []
            if not self.accept(close):
                while True:
                    t = self.type()
                    elems.append((t, self.value(t)))
                    if self.accept(close):
                        break
                    self.expect(",")
            return ConstAgg(elems)
        raise IRError("value token %r" % (v,))

    def typed_value(self):
        t = self.type()
        self.skip_attrs()
        return t, self.value(t)


def _unescape(s):
    s = s[2:-1] if s.startswith("c") else s[1:-1]
    out = bytearray()
    i = 0
    while i < len(s):
        if s[i] == "\\":
            if s[i + 1] == "\\":
                out.append(92)
                i += 2
            else:
                out.append(int(s[i + 1:i + 3], 16))
                i += 3
        else:
            out.append(ord(s[i]))
            i += 1
    return bytes(out)


# -- instructions ------------------------------------------------------------------


class Instr:
    def __init__(self, op, res=None, ty=None, **kw):
        self.op, self.res, self.ty = op, res, ty
        self.__dict__.update(kw)

    def __repr__(self):
        return "<%s %s>" % (self.op, self.res)


class Block:
    def __init__(self, name):
        self.name = name
        self.instrs = []
        self.term = None


class Function:
    def __init__(self, name, ret, params):
        self.name, self.ret, self.params = name, ret, params
        self.blocks = []
        self.bmap = {}


class Module:
    def __init__(self):
        self.types = {}
        self.pending_types = {}
        self.globals = {}
        self.functions = {}
        self.declared = set()

    def named_type(self, name):
        if name in self.types:
            return self.types[name]
        if name in self.pending_types:
            toks = self.pending_types.pop(name)
            st = StructTy([], name="%" + name)
            self.types[name] = st
            p = P(toks, self)
            t = p.type()
            if isinstance(t, StructTy):
                st.fields, st.packed = t.fields, t.packed
            else:
                self.types[name] = t
            return self.types[name]
        raise IRError("unknown named type %%%s" % name)


BINOPS = {"add", "sub", "mul", "udiv", "sdiv", "urem", "srem", "shl", "lshr", "ashr", "and", "or", "xor"}
CASTS = {"trunc", "zext", "sext", "ptrtoint", "inttoptr", "bitcast", "fptoui", "fptosi", "uitofp", "sitofp", "fpext",
         "fptrunc", "addrspacecast"}


def parse_instr(p):
    res = None
    if p.peek()[0] == "local" and p.peek(1)[1] == "=":
        res = p.next()[1][1:].strip('"')
        p.next()
    k, op = p.next()
    if op in ("tail", "musttail", "notail"):
        k, op = p.next()
    if op in BINOPS:
        flags = set()
        while p.peek()[1] in ("nuw", "nsw", "exact"):
            flags.add(p.next()[1])
        t = p.type()
        a = p.value(t)
        p.expect(",")
        b = p.value(t)
        return Instr(op, res, t, a=a, b=b, flags=flags)
    if op == "icmp":
        pred = p.next()[1]
        t = p.type()
        a = p.value(t)
        p.expect(",")
        b = p.value(t)
        return Instr("icmp", res, IntTy(1), pred=pred, opty=t, a=a, b=b)
    if op == "fcmp":
        while p.peek()[1] in ("fast", "nnan", "ninf", "nsz", "arcp", "contract", "afn", "reassoc"):
            p.next()
        pred = p.next()[1]
        t = p.type()
        a = p.value(t)
        p.expect(",")
        b = p.value(t)
        return Instr("fcmp", res, IntTy(1), pred=pred, opty=t, a=a, b=b)
    if op in CASTS:
        st = p.type()
        v = p.value(st)
        p.expect("to")
        dt = p.type()
        return Instr(op, res, dt, src_ty=st, a=v)
    if op == "select":
        ct, c = p.typed_value()
        p.expect(",")
        t, a = p.typed_value()
        p.expect(",")
        t2, b = p.typed_value()
        return Instr("select", res, t, c=c, a=a, b=b)
    if op == "phi":
        t = p.type()
        inc = []
        while True:
            p.expect("[")
            v = p.value(t)
            p.expect(",")
            lab = p.next()[1][1:].strip('"')
            p.expect("]")
            inc.append((v, lab))
            if not p.accept(","):
                break
        return Instr("phi", res, t, incoming=inc)
    if op == "br":
        if p.peek()[1] == "label":
            p.next()
            return Instr("br", None, None, cond=None, targets=[p.next()[1][1:].strip('"')])
        t, c = p.typed_value()
        p.expect(",")
        p.expect("label")
        a = p.next()[1][1:].strip('"')
        p.expect(",")
        p.expect("label")
        b = p.next()[1][1:].strip('"')
        return Instr("br", None, None, cond=c, targets=[a, b])
    if op == "switch":
        t, v = p.typed_value()
        p.expect(",")
        p.expect("label")
        default = p.next()[1][1:].strip('"')
        p.expect("[")
        cases = []
        while not p.accept("]"):
            ct = p.type()
            cv = p.value(ct)
            p.expect(",")
            p.expect("label")
            cases.append((cv.v, p.next()[1][1:].strip('"')))
        return Instr("switch", None, t, a=v, default=default, cases=cases)
    if op == "ret":
        t = p.type()
        if isinstance(t, VoidTy):
            return Instr("ret", None, t, a=None)
        return Instr("ret", None, t, a=p.value(t))
    if op == "unreachable":
        return Instr("unreachable")
    if op == "load":
        p.accept("volatile")
        t = p.type()
        p.expect(",")
        pt, ptr = p.typed_value()
        align = 1
        if p.accept(","):
            if p.accept("align"):
                align = int(p.next()[1])
        return Instr("load", res, t, ptr=ptr, align=align)
    if op == "store":
        p.accept("volatile")
        t, v = p.typed_value()
        p.expect(",")
        pt, ptr = p.typed_value()
        align = 1
        if p.accept(","):
            if p.accept("align"):
                align = int(p.next()[1])
        return Instr("store", None, t, a=v, ptr=ptr, align=align)
    if op == "alloca":
        t = p.type()
        n = 1
        align = alignof(t)
        while p.accept(","):
            if p.accept("align"):
                align = int(p.next()[1])
            else:
                nt, nv = p.typed_value()
                n = nv
        return Instr("alloca", res, PtrTy(t), el=t, n=n, align=align)
    if op == "getelementptr":
        inb = p.accept("inbounds")
        bt = p.type()
        p.expect(",")
        pt, ptr = p.typed_value()
        idx = []
        while p.accept(","):
            idx.append(p.typed_value())
        return Instr("getelementptr", res, None, base_ty=bt, ptr=ptr, ptr_ty=pt, idx=idx, inbounds=inb)
    if op == "extractvalue":
        t, v = p.typed_value()
        idx = []
        while p.accept(","):
            idx.append(int(p.next()[1]))
        return Instr("extractvalue", res, None, agg_ty=t, a=v, idx=idx)
    if op == "insertvalue":
        t, v = p.typed_value()
        p.expect(",")
        et, ev = p.typed_value()
        idx = []
        while p.accept(","):
            idx.append(int(p.next()[1]))
        return Instr("insertvalue", res, t, a=v, el=ev, el_ty=et, idx=idx)
    if op == "freeze":
        t, v = p.typed_value()
        return Instr("freeze", res, t, a=v)
    if op == "call":
        while p.peek()[1] in ("fast", "nnan", "ninf", "nsz", "arcp", "contract", "afn", "reassoc", "fastcc", "ccc"):
            p.next()
        p.skip_attrs()
        rt = p.type()
        if isinstance(rt, FnTy):
            rt = rt.ret
        k, callee = p.next()
        if k != "glob":
            raise IRError("indirect call")
        callee = callee[1:].strip('"')
        p.expect("(")
        args = []
        if not p.accept(")"):
            while True:
                t = p.type()
                p.skip_attrs()
                if isinstance(t, OpaqueTy):
                    # metadata argument
                    while p.peek()[1] not in (",", ")"):
                        p.next()
                    args.append((t, None))
                else:
                    args.append((t, p.value(t)))
                if p.accept(")"):
                    break
                p.expect(",")
        return Instr("call", res, rt, callee=callee, args=args)
    if op in ("fadd", "fsub", "fmul", "fdiv", "frem", "fneg"):
        raise IRError("floating-point arithmetic %s is outside the subset" % op)
    raise IRError("instruction %r" % op)


def parse_module(text):
    mod = Module()
    lines = text.split("\n")
    # first pass: named types
    for ln in lines:
        m = re.match(r'^(%"[^"]+"|%[-a-zA-Z$._0-9]+)\s*=\s*type\s+(.*)$', ln)
        if m:
            mod.pending_types[m.group(1)[1:].strip('"')] = tokenize(m.group(2))
    for name in list(mod.pending_types):
        mod.named_type(name)
    i = 0
    while i < len(lines):
        ln = lines[i]
        if ln.startswith("@"):
            m = re.match(r'^(@"[^"]+"|@[-a-zA-Z$._0-9]+)\s*=\s*(.*)$', ln)
            toks = tokenize(m.group(2))
            p = P(toks, mod)
            while p.peek()[1] in ("private", "internal", "external", "linkonce_odr", "weak_odr", "dso_local", "unnamed_addr",
                                  "local_unnamed_addr", "constant", "global", "hidden", "available_externally", "linkonce",
                                  "weak", "common", "thread_local", "protected", "default"):
                kind = p.next()[1]
            try:
                t = p.type()
                init = None
                if not p.at_end() and p.peek()[1] not in (",",):
                    init = p.value(t)
                mod.globals[m.group(1)[1:].strip('"')] = (t, init)
            except IRError:
                mod.globals[m.group(1)[1:].strip('"')] = (None, None)
        elif ln.startswith("declare"):
            m = re.search(r'@([-a-zA-Z$._0-9]+|"[^"]*")\s*\(', ln)
            if m:
                mod.declared.add(m.group(1).strip('"'))
        elif ln.startswith("define"):
            toks = tokenize(ln)
            p = P(toks, mod)
            p.next()
            while p.peek()[0] == "word" and (p.peek()[1] in ("dso_local", "linkonce_odr", "weak_odr", "internal", "private", "hidden",
                                                            "available_externally", "weak", "linkonce", "fastcc", "ccc", "protected")
                                             or p.peek()[1] in P.ATTRS):
                if p.peek()[1] in P.ATTRS:
                    p.skip_attrs()
                else:
                    p.next()
            ret = p.type()
            name = p.next()[1][1:].strip('"')
            p.expect("(")
            params = []
            if not p.accept(")"):
                while True:
                    if p.accept("..."):
                        pass
                    else:
                        t = p.type()
                        p.skip_attrs()
                        k, v = p.peek()
                        pname = None
                        if k == "local":
                            pname = p.next()[1][1:].strip('"')
                        params.append((t, pname))
                    if p.accept(")"):
                        break
                    p.expect(",")
            fn = Function(name, ret, params)
            i += 1
            # implicit entry block name: number after last unnamed param
            cur = None
            n_unnamed = 0
            for (_, pn) in params:
                if pn is not None and pn.isdigit():
                    n_unnamed = max(n_unnamed, int(pn) + 1)
            while not lines[i].startswith("}"):
                l = lines[i]
                i += 1
                s = l.strip()
                if not s or s.startswith(";"):
                    continue
                m = re.match(r'^([-a-zA-Z$._0-9]+|"[^"]*"):', l)
                if m:
                    cur = Block(m.group(1).strip('"'))
                    fn.blocks.append(cur)
                    fn.bmap[cur.name] = cur
                    continue
                if cur is None:
                    cur = Block(str(n_unnamed))
                    fn.blocks.append(cur)
                    fn.bmap[cur.name] = cur
                if s.startswith("switch ") and "]" not in l:
                    while "]" not in lines[i]:
                        l += " " + lines[i].strip()
                        i += 1
                    l += " " + lines[i].strip()
                    i += 1
                toks = tokenize(l)
                # strip trailing metadata / attribute groups
                cut = len(toks)
                for j, (k, v) in enumerate(toks):
                    if k == "meta":
                        cut = j
                        # also drop the comma before it
                        while cut > 0 and toks[cut - 1][1] == ",":
                            cut -= 1
                        break
                toks = [t for t in toks[:cut] if t[0] != "attr"]
                ins = parse_instr(P(toks, mod))
                if ins.op in ("br", "switch", "ret", "unreachable"):
                    cur.term = ins
                else:
                    cur.instrs.append(ins)
            mod.functions[name] = fn
        i += 1
    return mod
