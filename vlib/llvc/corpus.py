"""E2b: generated structure views of corpus programs against hand-written reference semantics.

A corpus structure is specified independently of the compiler (specs are written from
doc/language-reference.md): fields with start / size / condition / type / byte order as functions over
three-valued terms.  The header produced IN THIS RUN by $VERIF_REPO/embossc from the corpus .emb is
compiled into a harness that reports every observable through probes; each observable must equal its
reference term for ALL buffers (pointer, length 0..beyond max size, contents) and parameter values.

Reference arithmetic is 64-bit two's complement; that no intermediate value leaves 64 bits is what the
compiler's own gate guarantees (C04 layer 2 / C05) and is not re-derived here."""
import z3

from vlib.llvc import enc
from vlib.llvc.harness import load_le, load_be

bv = enc.bv


# ---------------------------------------------------------------------------
# three-valued terms


class M:
    """Maybe<int>: known (z3 Bool) and val (BV64, meaningful only where known)."""

    def __init__(self, known, val):
        self.known = known if z3.is_expr(known) else z3.BoolVal(bool(known))
        self.val = val if z3.is_expr(val) else bv(val, 64)

    @staticmethod
    def lift(x):
        if isinstance(x, (M, MB)):
            return x
        if isinstance(x, bool):
            return MB(True, z3.BoolVal(x))
        return M(True, bv(x, 64))

    def _bin(self, o, f):
        o = M.lift(o)
        return M(z3.And(self.known, o.known), f(self.val, o.val))

    def __add__(self, o): return self._bin(o, lambda a, b: a + b)
    def __radd__(self, o): return M.lift(o)._bin(self, lambda a, b: a + b)
    def __sub__(self, o): return self._bin(o, lambda a, b: a - b)
    def __rsub__(self, o): return M.lift(o)._bin(self, lambda a, b: a - b)
    def __mul__(self, o): return self._bin(o, lambda a, b: a * b)
    def __rmul__(self, o): return M.lift(o)._bin(self, lambda a, b: a * b)

    def _cmp(self, o, f):
        o = M.lift(o)
        return MB(z3.And(self.known, o.known), f(self.val, o.val))

    def __eq__(self, o): return self._cmp(o, lambda a, b: a == b)
    def __ne__(self, o): return self._cmp(o, lambda a, b: a != b)
    def __lt__(self, o): return self._cmp(o, lambda a, b: a < b)
    def __le__(self, o): return self._cmp(o, lambda a, b: a <= b)
    def __gt__(self, o): return self._cmp(o, lambda a, b: a > b)
    def __ge__(self, o): return self._cmp(o, lambda a, b: a >= b)
    __hash__ = None


class MB:
    """Maybe<bool> with Kleene connectives (language reference: && is false if either side is known
    false, || is true if either side is known true, otherwise unknown if any side is unknown)."""

    def __init__(self, known, val):
        self.known = known if z3.is_expr(known) else z3.BoolVal(bool(known))
        self.val = val if z3.is_expr(val) else z3.BoolVal(bool(val))

    def __and__(self, o):
        o = M.lift(o)
        kf = z3.Or(z3.And(self.known, z3.Not(self.val)), z3.And(o.known, z3.Not(o.val)))
        return MB(z3.Or(kf, z3.And(self.known, o.known)), z3.And(z3.Not(kf), self.val, o.val))

    def __or__(self, o):
        o = M.lift(o)
        kt = z3.Or(z3.And(self.known, self.val), z3.And(o.known, o.val))
        return MB(z3.Or(kt, z3.And(self.known, o.known)), z3.Or(kt, z3.And(self.val, o.val)))

    def eq(self, o):
        o = M.lift(o)
        return MB(z3.And(self.known, o.known), self.val == o.val)

    def true(self):
        return z3.And(self.known, self.val)


def choice(c, t, f):
    """c ? t : f  - unknown if c is unknown, else the chosen branch (its own knownness)."""
    t, f = M.lift(t), M.lift(f)
    if isinstance(t, MB):
        return MB(z3.And(c.known, z3.If(c.val, t.known, f.known)), z3.If(c.val, t.val, f.val))
    return M(z3.And(c.known, z3.If(c.val, t.known, f.known)), z3.If(c.val, t.val, f.val))


def maximum(*args):
    args = [M.lift(a) for a in args]
    v = args[0].val
    for a in args[1:]:
        v = z3.If(a.val > v, a.val, v)
    return M(z3.And([a.known for a in args]), v)


# ---------------------------------------------------------------------------
# spec DSL


class T:
    def __init__(self, kind, **kw):
        self.kind = kind
        self.__dict__.update(kw)


def UInt(): return T("UInt")
def Int(): return T("Int")
def Bcd(): return T("Bcd")
def Flag(): return T("Flag")
def Enum(cpp, signed=False): return T("Enum", cpp=cpp, signed=signed)
def Bytes(): return T("Bytes")          # UInt:8[] - only presence/completeness observed
def Sub(spec): return T("Struct", spec=spec)


class F:
    """Physical field.  start/size: int or function(fields)->M; cond: function(fields)->MB or None;
    requires: function(this M, fields)->MB or None; order: "LE"/"BE" or None (structure default)."""

    def __init__(self, name, start, size, type, cond=None, order=None, requires=None, bits=None, path=None, contribute=True, observe=True):
        self.name, self.start, self.size, self.type, self.cond, self.order, self.requires = name, start, size, type, cond, order, requires
        self.bits = bits          # (bit offset, bit width) inside the container [start, start+size): a member of a `bits`
        self.path = path or [name]    # C++ accessor path, e.g. ["inner", "a"] for v.inner().a()
        self.contribute = contribute  # counts towards the structure's size (members of containers do not: the container does)
        self.observe = observe
        self.virtual = False


class V:
    """Virtual field `let name = expr`."""

    def __init__(self, name, expr, cond=None, requires=None, boolean=False, writable=None):
        self.name, self.expr, self.cond, self.requires, self.boolean = name, expr, cond, requires, boolean
        self.virtual = True
        self.path = [name]
        self.observe = True
        self.contribute = False
        self.writable = writable      # for C03: ("transform", inverse function) | ("alias", field name)


class Struct:
    def __init__(self, name, ns, fields, order="LE", params=(), requires=None, emb=None):
        self.name, self.ns, self.fields, self.order, self.params, self.requires, self.emb = name, ns, fields, order, list(params), requires, emb


class Fields:
    """Attribute access to the M-valued readings of fields and parameters of one view."""

    def __init__(self):
        self._v = {}
        self._present = {}

    def __getattr__(self, n):
        try:
            return self.__dict__["_v"][n]
        except KeyError:
            raise AttributeError(n)


def eval_struct(spec, mem, n, base_ok, params, base_off=None):
    """Reference semantics of one view.  mem: byte array of the buffer region, n: its length (BV64),
    base_ok: the backing pointer is non-null, params: list of BV64 parameter values.
    Returns a dict of reference terms."""
    fs = Fields()
    base_off = bv(0, 64) if base_off is None else base_off
    for (pname, ptype), pv in zip(spec.params, params):
        fs._v[pname] = M(True, pv)
    out = {"fields": {}}
    ends = []
    all_ok = []
    for f in spec.fields:
        cond = f.cond(fs) if f.cond else MB(True, True)
        present = cond.true()
        info = {"has_known": cond.known, "has_value": cond.val}
        if f.virtual:
            val = f.expr(fs)
            ok = z3.And(present, val.known)
            if f.requires:
                rq = f.requires(val, fs)
                ok = z3.And(ok, rq.true())
            reading = (MB if isinstance(val, MB) else M)(ok, val.val)
            info.update(ok=ok, value=val.val, is_bool=isinstance(val, MB))
        else:
            start = M.lift(f.start(fs) if callable(f.start) else f.start)
            size = M.lift(f.size(fs) if callable(f.size) else f.size)
            # bytes available: start and size known, non-negative, start + size <= n, backing non-null
            avail = z3.And(base_ok, start.known, size.known, start.val >= 0, size.val >= 0,
                           z3.ULE(start.val, n), z3.ULE(size.val, n - start.val))
            order = f.order or spec.order
            if f.type.kind in ("UInt", "Int", "Bcd", "Enum", "Flag"):
                nb = f.size if isinstance(f.size, int) else None
                if nb is None:
                    raise ValueError("scalar field %s needs a constant size in the spec" % f.name)
                raw = (load_be if order == "BE" else load_le)(mem, base_off + start.val, nb)
                w = 8 * nb
                if f.bits is not None:
                    boff, bw = f.bits
                    raw = z3.Extract(boff + bw - 1, boff, raw)
                    w = bw
                if f.type.kind == "Int" or (f.type.kind == "Enum" and f.type.signed):
                    val = z3.SignExt(64 - w, raw) if w < 64 else raw
                elif f.type.kind == "Bcd":
                    from contracts import cpp_views
                    val = cpp_views.bcd_value(raw)
                else:
                    val = z3.ZeroExt(64 - w, raw) if w < 64 else raw
                ok = z3.And(present, avail)
                if f.type.kind == "Bcd":
                    from contracts import cpp_views
                    ok = z3.And(ok, cpp_views.bcd_ok(raw))
                this = M(ok, val)
                if f.requires:
                    ok = z3.And(ok, f.requires(this, fs).true())
                reading = M(ok, val)
                if f.type.kind == "Flag":
                    reading = MB(ok, val != 0)
                info.update(ok=ok, value=val, is_bool=False)
            else:
                ok = z3.And(present, avail)
                reading = M(False, 0)
                info.update(ok=ok, value=None, is_bool=False)
            if f.contribute:
                ends.append(choice(cond, start + size, 0))
        fs._v[f.name] = reading
        fs._present[f.name] = cond
        out["fields"][f.name] = info
        all_ok.append(z3.And(cond.known, z3.Implies(cond.val, info["ok"])))
    size = maximum(0, *ends) if ends else M(True, 0)
    out["size_known"] = size.known
    out["size"] = size.val
    complete = z3.And(base_ok, size.known, z3.UGE(n, size.val))
    out["complete"] = complete
    ok = z3.And(complete, *all_ok)
    if spec.requires:
        ok = z3.And(ok, spec.requires(fs).true())
    out["ok"] = ok
    out["fs"] = fs
    return out


# ---------------------------------------------------------------------------
# wrapper generation


def cpp_cast_u64(f, expr):
    if f.virtual:
        return "(uint64_t)(int64_t)(%s)" % expr
    k = f.type.kind
    if k == "Int":
        return "(uint64_t)(int64_t)(%s)" % expr
    if k == "Enum":
        return "(uint64_t)(%s)static_cast<typename std::underlying_type<%s>::type>(%s)" % (
            "int64_t" if f.type.signed else "uint64_t", f.type.cpp, expr)
    return "(uint64_t)(%s)" % expr


PROBE_BASE = 8
PROBE_STRIDE = 4


def make_view_expr(spec, ptr="p", size="n", params=("a0", "a1")):
    ps = "".join("static_cast<%s>(%s), " % (ptype, pv) for (pname, ptype), pv in zip(spec.params, params))
    return "::%s::Make%sView(%s%s, %s)" % (spec.ns, spec.name, ps, ptr, size)


def _acc(f):
    """C++ expressions for a field: (guard that the parents exist, has-expression, accessor-expression)."""
    parent = "v"
    guards = []
    for seg in f.path[:-1]:
        guards.append("%s.has_%s().ValueOr(false)" % (parent, seg))
        parent = "%s.%s()" % (parent, seg)
    return (" && ".join(guards) or "true", "%s.has_%s()" % (parent, f.path[-1]), "%s.%s()" % (parent, f.path[-1]))


def read_wrapper(spec):
    s = "  auto v = %s;\n" % make_view_expr(spec)
    s += "  O(0, v.Ok()); O(1, v.IsComplete()); O(2, v.SizeIsKnown());\n  if (v.SizeIsKnown()) O(3, v.SizeInBytes());\n"
    for i, f in enumerate(spec.fields):
        if not f.observe:
            continue
        b = PROBE_BASE + PROBE_STRIDE * i
        guard, has, acc = _acc(f)
        s += "  if (%s) {\n" % guard
        s += "    O(%d, %s.Known());\n    if (%s.Known()) O(%d, %s.Value());\n" % (b, has, has, b + 1, has)
        s += "    if (%s.ValueOr(false)) {\n" % has
        if f.virtual or f.type.kind != "Bytes":
            # (for arrays, Ok() means "the part that is there is consistent"; completeness is observed at structure level)
            s += "      O(%d, %s.Ok());\n" % (b + 2, acc)
        if f.virtual or f.type.kind in ("UInt", "Int", "Bcd", "Enum", "Flag"):
            s += "      if (%s.Ok()) O(%d, %s);\n" % (acc, b + 3, cpp_cast_u64(f, "%s.Read()" % acc))
        s += "    }\n  }\n"
    s += "  return 0;"
    return s


def require_params_in_type(k, spec, params):
    """Parameter values lie in their declared Emboss type (DESIGN section 4: not range-checked by the view)."""
    for (pname, ptype), pv in zip(spec.params, params):
        bits = {"uint8_t": 8, "uint16_t": 16, "uint32_t": 32}.get(ptype.replace("::std::", "").replace("std::", ""))
        if bits:
            k.requires(z3.ULE(pv, bv((1 << bits) - 1, 64)))


def contract_read(k, spec_ref):
    import importlib
    mod, name = spec_ref.split(":")
    spec = getattr(importlib.import_module(mod), name)
    k.region("p", nonnull=False)
    params = [k.a0, k.a1]
    require_params_in_type(k, spec, params)
    ref = eval_struct(spec, k.P0, k.n, k.p != 0, params)
    k.ensures("Ok", k.obs_flag(0, ref["ok"]))
    k.ensures("IsComplete", k.obs_flag(1, ref["complete"]))
    k.ensures("SizeIsKnown", k.obs_flag(2, ref["size_known"]))
    k.ensures("SizeInBytes", k.obs_eq(3, ref["size_known"], ref["size"]))
    for i, f in enumerate(spec.fields):
        if not f.observe:
            continue
        b = PROBE_BASE + PROBE_STRIDE * i
        info = ref["fields"][f.name]
        # members of a named container are reached through the container's accessor: guarded by its presence
        guard = z3.BoolVal(True)
        for seg in f.path[:-1]:
            pinfo = ref["fields"][seg]
            guard = z3.And(guard, pinfo["has_known"], pinfo["has_value"])
        k.ensures("has_%s.Known" % f.name, z3.Implies(guard, k.obs_flag(b, info["has_known"])))
        k.ensures("has_%s.Value" % f.name, z3.Implies(z3.And(guard, info["has_known"]), z3.And(k.outc(b + 1), (k.outv(b + 1) != 0) == info["has_value"])))
        present = z3.And(guard, info["has_known"], info["has_value"])
        if f.virtual or f.type.kind != "Bytes":
            k.ensures("%s.Ok" % f.name, z3.Implies(present, z3.And(k.outc(b + 2), (k.outv(b + 2) != 0) == info["ok"])))
        if info["value"] is not None:
            want = info["value"]
            if info["is_bool"]:
                want = z3.If(want, bv(1, 64), bv(0, 64))
            k.ensures("%s.Read" % f.name, k.obs_eq(b + 3, z3.And(present, info["ok"]), want))
    a = k.forall_off()
    k.ensures("read-only", z3.Implies(z3.ULT(a, k.n), z3.Select(k.P1, a) == z3.Select(k.P0, a)))
    # Prefix monotonicity (last sentence of C01): a lemma over the contract.  The view was just proved equal to
    # the reference for every buffer length, so it suffices that the REFERENCE is monotone: with the same bytes
    # and any longer length n2 >= n, whatever is known at n is known with the same value at n2.
    n2 = k.forall_bv("n2", 64)
    ref2 = eval_struct(spec, k.P0, n2, k.p != 0, params)
    longer = z3.And(z3.UGE(n2, k.n), z3.ULT(n2, bv(1 << 59, 64)))
    mono = [z3.Implies(ref["size_known"], z3.And(ref2["size_known"], ref2["size"] == ref["size"]))]
    for f in spec.fields:
        i1, i2 = ref["fields"][f.name], ref2["fields"][f.name]
        mono.append(z3.Implies(i1["has_known"], z3.And(i2["has_known"], i2["has_value"] == i1["has_value"])))
        if i1["value"] is not None:
            mono.append(z3.Implies(z3.And(i1["has_known"], i1["has_value"], i1["ok"]), z3.And(i2["ok"], i2["value"] == i1["value"])))
    k.ensures("prefix-monotone(reference)", z3.Implies(longer, z3.And(mono)))


# ---------------------------------------------------------------------------
# jobs


def generate_headers(emb_files, corpus_dir):
    """Runs $VERIF_REPO/embossc (this tree, this run) on the corpus files; returns the include dir."""
    import os
    import subprocess
    import sys
    import tempfile
    from vlib import core
    os.makedirs(core.BUILD, exist_ok=True)
    out = tempfile.mkdtemp(prefix="corpus_hdr_", dir=core.BUILD)
    for emb in emb_files:
        src = emb if os.path.isabs(emb) else os.path.join(corpus_dir, emb)
        r = subprocess.run([sys.executable, os.path.join(core.REPO, "embossc"), "--output-path", out, "--output-file",
                            os.path.basename(emb) + ".h", "--import-dir", corpus_dir, "--import-dir", core.REPO, src],
                           capture_output=True, text=True, env=dict(os.environ, PYTHONPATH=core.REPO))
        if r.returncode != 0:
            raise core.CheckerError("embossc rejected corpus file %s:\n%s" % (emb, (r.stdout + r.stderr)[-1500:]))
    return out


def read_jobs(specs_mod, names, include_dir, prefix="", unroll=300, only_safety=False):
    import importlib
    mod = importlib.import_module(specs_mod)
    jobs = []
    for n in names:
        spec = mod.ALL[n]
        jobs.append(dict(tag="corpus_read_" + n, includes=[spec.emb + ".h"], include_dirs=[include_dir], preamble="",
                         wrappers=[("view_" + n, read_wrapper(spec), "vlib.llvc.corpus:contract_read", dict(spec_ref="%s:%s" % (specs_mod, n)))],
                         prefix=prefix, unroll=unroll, only_safety=only_safety))
    return jobs


# ---------------------------------------------------------------------------
# C03: writes through virtual fields (alias / add-subtract transform)


def vwrite_wrapper(spec, vname):
    s = "  auto v = %s;\n  auto f = v.%s();\n  using VT = typename decltype(f)::ValueType;\n" % (make_view_expr(spec), vname)
    s += "  VT cand = static_cast<VT>(a1);\n  O(4, (int64_t)cand);\n"
    s += "  if (!v.has_%s().ValueOr(false)) return 2;\n" % vname
    s += "  O(0, f.CouldWriteValue(cand));\n  bool ok = f.TryToWrite(cand);\n  if (ok && f.Ok()) O(2, (int64_t)f.Read());\n  return ok;"
    return s


def representable(ftype, nbytes, t):
    w = 8 * nbytes
    if ftype.kind == "UInt":
        return z3.And(t >= 0, t <= bv((1 << w) - 1, 64)) if w < 64 else (t >= 0)
    if ftype.kind == "Int":
        return z3.And(t >= bv(-(1 << (w - 1)), 64), t <= bv((1 << (w - 1)) - 1, 64)) if w < 64 else z3.BoolVal(True)
    raise ValueError(ftype.kind)


def contract_vwrite(k, spec_ref, vname):
    import importlib
    mod, name = spec_ref.split(":")
    spec = getattr(importlib.import_module(mod), name)
    k.region("p", nonnull=False)
    vf = [f for f in spec.fields if f.name == vname][0]
    kind = vf.writable[0]
    target_name = vf.writable[-1]
    tf = [f for f in spec.fields if f.name == target_name][0]
    inv = vf.writable[1] if kind == "transform" else (lambda v: v)
    require_params_in_type(k, spec, [k.a0, k.a1])
    ref0 = eval_struct(spec, k.P0, k.n, k.p != 0, [k.a0, k.a1])
    ref1 = eval_struct(spec, k.P1, k.n, k.p != 0, [k.a0, k.a1])
    cand = M(True, k.outv(4))
    stored = inv(cand)
    vinfo, tinfo = ref0["fields"][vname], ref0["fields"][target_name]
    present = z3.And(vinfo["has_known"], vinfo["has_value"])
    k.requires(present)          # the wrapper returns early otherwise
    cw = representable(tf.type, tf.size, stored.val)
    if vf.requires:
        cw = z3.And(cw, vf.requires(cand, ref0["fs"]).true())
    # the target's bytes are present
    tstart = M.lift(tf.start(ref0["fs"]) if callable(tf.start) else tf.start)
    avail = z3.And(k.p != 0, tstart.known, z3.ULE(tstart.val, k.n), z3.ULE(bv(tf.size, 64), k.n - tstart.val))
    succ = z3.And(cw, avail)
    k.ensures("candidate-reported", k.outc(4))
    k.ensures("CouldWriteValue", k.obs_flag(0, cw))
    k.ensures("TryToWrite", (k.ret == 1) == succ)
    k.ensures("stores-inverse", z3.Implies(succ, ref1["fields"][target_name]["value"] == stored.val))
    k.ensures("read-back", k.obs_eq(2, succ, cand.val))
    a = k.forall_off()
    inside = z3.And(z3.ULE(tstart.val, a), z3.ULT(a - tstart.val, bv(tf.size, 64)))
    same = z3.Select(k.P1, a) == z3.Select(k.P0, a)
    k.ensures("byte-frame", z3.Implies(z3.And(z3.ULT(a, k.n), z3.Not(inside)), same))
    k.ensures("fail-unchanged", z3.Implies(z3.And(z3.Not(succ), z3.ULT(a, k.n)), same))


def vwrite_jobs(specs_mod, include_dir, prefix="", only_safety=False):
    import importlib
    mod = importlib.import_module(specs_mod)
    jobs = []
    for n, spec in mod.ALL.items():
        for f in spec.fields:
            if f.virtual and f.writable:
                jobs.append(dict(tag="corpus_vwrite_%s_%s" % (n, f.name), includes=[spec.emb + ".h"], include_dirs=[include_dir], preamble="",
                                 wrappers=[("vwrite_%s_%s" % (n, f.name), vwrite_wrapper(spec, f.name), "vlib.llvc.corpus:contract_vwrite",
                                            dict(spec_ref="%s:%s" % (specs_mod, n), vname=f.name))],
                                 prefix=prefix, unroll=300, only_safety=only_safety))
    return jobs


# ---------------------------------------------------------------------------
# C20: Equals and TryToCopyFrom on two views of the same structure


def equals_wrapper(spec):
    s = "  auto a = %s;\n  auto b = %s;\n" % (make_view_expr(spec), make_view_expr(spec, "q", "m"))
    s += "  O(0, a.Ok()); O(1, b.Ok());\n  if (a.Ok() && b.Ok()) { O(2, a.Equals(b)); O(3, b.Equals(a)); }\n  return 0;"
    return s


def copy_wrapper(spec, overlap=False):
    if overlap:
        # the second view lies in the SAME buffer, a0 bytes into it (memmove semantics)
        s = "  auto a = %s;\n" % make_view_expr(spec, params=("a1", "a1"))
        s += "  if (a0 > n || !p) return 2;\n  auto b = %s;\n" % make_view_expr(spec, "p + a0", "n - a0", params=("a1", "a1"))
    else:
        s = "  auto a = %s;\n  auto b = %s;\n" % (make_view_expr(spec), make_view_expr(spec, "q", "m"))
    if overlap:
        # (with overlapping views the source may be changed by the copy: only the memmove effect is specified)
        s += "  bool ok = a.TryToCopyFrom(b);\n  return ok;"
    else:
        s += "  bool ok = a.TryToCopyFrom(b);\n  if (ok) { O(0, a.Ok()); if (a.Ok() && b.Ok()) O(1, a.Equals(b)); }\n  return ok;"
    return s


def fields_equal(spec, ra, rb):
    """Logical equality of two reference evaluations: same presence, and equal values of every present
    physical scalar field."""
    cs = []
    for f in spec.fields:
        if f.virtual or f.type.kind == "Bytes":
            continue
        ia, ib = ra["fields"][f.name], rb["fields"][f.name]
        pa, pb = z3.And(ia["has_known"], ia["has_value"]), z3.And(ib["has_known"], ib["has_value"])
        cs.append(pa == pb)
        cs.append(z3.Implies(z3.And(pa, pb), ia["value"] == ib["value"]))
    return z3.And(cs)


def _spec(spec_ref):
    import importlib
    mod, name = spec_ref.split(":")
    return getattr(importlib.import_module(mod), name)


def contract_equals(k, spec_ref):
    spec = _spec(spec_ref)
    k.region("p", nonnull=False)
    k.region("q", nonnull=False)
    require_params_in_type(k, spec, [k.a0, k.a1])
    ra = eval_struct(spec, k.P0, k.n, k.p != 0, [k.a0, k.a1])
    rb = eval_struct(spec, k.Q0, k.m, k.q != 0, [k.a0, k.a1])
    both = z3.And(ra["ok"], rb["ok"])
    k.ensures("a.Ok", k.obs_flag(0, ra["ok"]))
    k.ensures("b.Ok", k.obs_flag(1, rb["ok"]))
    eq = fields_equal(spec, ra, rb)
    k.ensures("Equals", z3.Implies(both, z3.And(k.outc(2), (k.outv(2) != 0) == eq)))
    k.ensures("Equals-symmetric", z3.Implies(both, z3.And(k.outc(3), k.outv(3) == k.outv(2))))
    a = k.forall_off()
    k.ensures("read-only", z3.And(z3.Implies(z3.ULT(a, k.n), z3.Select(k.P1, a) == z3.Select(k.P0, a)),
                                  z3.Implies(z3.ULT(a, k.m), z3.Select(k.Q1, a) == z3.Select(k.Q0, a))))


def contract_copy(k, spec_ref):
    spec = _spec(spec_ref)
    k.region("p", nonnull=False)
    k.region("q", nonnull=False)
    require_params_in_type(k, spec, [k.a0, k.a1])
    rb = eval_struct(spec, k.Q0, k.m, k.q != 0, [k.a0, k.a1])
    succ = z3.And(rb["ok"], k.p != 0, z3.UGE(k.n, rb["size"]))
    k.ensures("TryToCopyFrom", (k.ret == 1) == succ)
    a = k.forall_off()
    k.ensures("copied-bytes", z3.Implies(z3.And(succ, z3.ULT(a, rb["size"])), z3.Select(k.P1, a) == z3.Select(k.Q0, a)))
    k.ensures("bytes-past-size-untouched", z3.Implies(z3.And(z3.ULT(a, k.n), z3.Or(z3.Not(succ), z3.UGE(a, rb["size"]))),
                                                      z3.Select(k.P1, a) == z3.Select(k.P0, a)))
    k.ensures("source-untouched", z3.Implies(z3.ULT(a, k.m), z3.Select(k.Q1, a) == z3.Select(k.Q0, a)))
    k.ensures("destination-Ok-and-Equals", z3.Implies(succ, z3.And(k.outc(0), k.outv(0) != 0, k.outc(1), k.outv(1) != 0)))


def contract_copy_overlap(k, spec_ref):
    """Both views in one buffer: b starts a0 bytes into a.  Overlap is handled like memmove: the bytes
    copied are the source's PRE-state bytes."""
    spec = _spec(spec_ref)
    k.region("p", nonnull=True)       # the harness forms p + a0: a null base is excluded in the wrapper
    k.requires(z3.ULE(k.a0, k.n))
    require_params_in_type(k, spec, [k.a1, k.a1])
    rb = eval_struct(spec, k.P0, k.n - k.a0, k.p != 0, [k.a1, k.a1], base_off=k.a0)
    succ = z3.And(rb["ok"], k.p != 0, z3.UGE(k.n, rb["size"]))
    k.ensures("TryToCopyFrom", (k.ret == 1) == succ)
    a = k.forall_off()
    k.ensures("copied-bytes-memmove", z3.Implies(z3.And(succ, z3.ULT(a, rb["size"])), z3.Select(k.P1, a) == z3.Select(k.P0, k.a0 + a)))
    k.ensures("bytes-past-size-untouched", z3.Implies(z3.And(z3.ULT(a, k.n), z3.Or(z3.Not(succ), z3.UGE(a, rb["size"]))),
                                                      z3.Select(k.P1, a) == z3.Select(k.P0, a)))


def c20_jobs(specs_mod, names, include_dir, prefix="", only_safety=False):
    jobs = []
    import importlib
    mod = importlib.import_module(specs_mod)
    for n in names:
        spec = mod.ALL[n]
        ws = [("equals_" + n, equals_wrapper(spec), "vlib.llvc.corpus:contract_equals", dict(spec_ref="%s:%s" % (specs_mod, n))),
              ("copy_" + n, copy_wrapper(spec), "vlib.llvc.corpus:contract_copy", dict(spec_ref="%s:%s" % (specs_mod, n))),
              ("copyoverlap_" + n, copy_wrapper(spec, True), "vlib.llvc.corpus:contract_copy_overlap", dict(spec_ref="%s:%s" % (specs_mod, n)))]
        for w in ws:
            jobs.append(dict(tag="corpus_c20_" + w[0], includes=[spec.emb + ".h"], include_dirs=[include_dir], preamble="",
                             wrappers=[w], prefix=prefix, unroll=300, only_safety=only_safety))
    return jobs


# ---------------------------------------------------------------------------
# C19: generated enum helpers (names <-> values, EnumIsKnown)

STR_MAX = 48


def _ext_strcmp(limit_arg=False):
    """libc strcmp / strncmp on byte regions: compares up to the first difference or NUL (or n bytes);
    every byte read must lie inside its region (bounds obligations)."""
    def ext(encoder, args, m, r, where):
        a, b = args[0], args[1]
        n = args[2] if limit_arg else None
        if n is not None and n.size() != 64:
            n = z3.ZeroExt(64 - n.size(), n)
        going = r            # still comparing (all previous bytes equal and non-NUL, within n)
        result = enc.bv(0, 32)
        decided = z3.BoolVal(False)
        res_terms = []
        bound = STR_MAX
        # a constant side bounds the scan
        for p_ in (a, b):
            for (_, rg, off) in p_.alternatives():
                pass
        for i in range(bound + 1):
            if n is not None:
                going = z3.And(going, z3.UGT(n, enc.bv(i, 64)))
            pa = enc.Ptr(a.region, a.off + enc.bv(i, 64), [(c, rg, o + enc.bv(i, 64)) for (c, rg, o) in a.alts] if a.alts else None)
            pb = enc.Ptr(b.region, b.off + enc.bv(i, 64), [(c, rg, o + enc.bv(i, 64)) for (c, rg, o) in b.alts] if b.alts else None)
            g = z3.simplify(going)
            if z3.is_false(g):
                break
            encoder.safety.append(("bounds:%s:strcmp-a[%d]" % (where, i), "bounds", z3.And(g, z3.Not(encoder.in_bounds(pa, 1, False)))))
            encoder.safety.append(("bounds:%s:strcmp-b[%d]" % (where, i), "bounds", z3.And(g, z3.Not(encoder.in_bounds(pb, 1, False)))))
            m, ca = encoder.load(m, pa, 1)
            m, cb = encoder.load(m, pb, 1)
            diff = ca != cb
            res_terms.append((z3.And(going, diff), z3.If(z3.ULT(ca, cb), enc.bv(-1, 32), enc.bv(1, 32))))
            going = z3.And(going, z3.Not(diff), ca != 0)
        else:
            encoder.safety.append(("unwind:%s:strcmp-longer-than-%d" % (where, STR_MAX), "unwind", going))
        for (c, v) in reversed(res_terms):
            result = z3.If(c, v, result)
        return result, m
    return ext


ENUM_EXTERNALS = {"strcmp": _ext_strcmp(False), "strncmp": _ext_strcmp(True)}


class EnumSpec:
    def __init__(self, name, ns, underlying, values, emb):
        """values: ordered list of (declared name, value) exactly as written in the .emb."""
        self.name, self.ns, self.underlying, self.values, self.emb = name, ns, underlying, values, emb
        self.bits = int("".join(ch for ch in underlying if ch.isdigit()))
        self.signed = not underlying.startswith("u")


def enum_known_wrapper(es):
    t = "::%s::%s" % (es.ns, es.name)
    s = "  auto e = static_cast<%s>(static_cast<%s>(a0));\n" % (t, es.underlying)
    s += "  O(0, ::%s::EnumIsKnown(e));\n  const char* nm = ::%s::TryToGetNameFromEnum(e);\n  O(1, nm != nullptr);\n" % (es.ns, es.ns)
    s += "  if (nm) {\n"
    for i, (nmk, _) in enumerate(es.values):
        s += '    O(%d, strcmp(nm, "%s") == 0);\n' % (8 + i, nmk)
    s += "  }\n"
    # the C++ representation: underlying type and one enumerator per declared name with the declared value
    s += "  O(2, (std::is_same<typename std::underlying_type<%s>::type, ::std::%s>::value));\n" % (t, es.underlying)
    for i, (nmk, _) in enumerate(es.values):
        s += "  O(%d, (uint64_t)(%s)static_cast<typename std::underlying_type<%s>::type>(%s::%s));\n" % (
            40 + i, "int64_t" if es.signed else "uint64_t", t, t, nmk)
    s += "  return 0;"
    return s


def enum_from_name_wrapper(es):
    t = "::%s::%s" % (es.ns, es.name)
    s = "  %s out = static_cast<%s>(0);\n" % (t, t)
    s += "  bool ok = ::%s::TryToGetEnumFromName(reinterpret_cast<const char*>(p), &out);\n" % es.ns
    s += "  if (ok) O(0, (uint64_t)(%s)static_cast<%s>(out));\n  return ok;" % ("int64_t" if es.signed else "uint64_t", es.underlying)
    return s


def _as64(es, v):
    return enc.bv(v % (1 << 64), 64)


def contract_enum_known(k, spec_ref):
    es = _spec(spec_ref)
    # the candidate is any value of the underlying type
    raw = z3.Extract(es.bits - 1, 0, k.a0)
    val = (z3.SignExt(64 - es.bits, raw) if es.signed else z3.ZeroExt(64 - es.bits, raw)) if es.bits < 64 else raw
    declared = z3.Or([val == _as64(es, v) for (_, v) in es.values])
    k.ensures("EnumIsKnown", k.obs_flag(0, declared))
    k.ensures("TryToGetNameFromEnum.null-iff-undeclared", k.obs_flag(1, declared))
    k.ensures("underlying-type-is-" + es.underlying, k.obs_flag(2, z3.BoolVal(True)))
    for i, (nm, v) in enumerate(es.values):
        k.ensures("enumerator-value[%s]" % nm, k.obs_eq(40 + i, z3.BoolVal(True), _as64(es, v)))
    # the FIRST declared name having the value
    for i, (nm, v) in enumerate(es.values):
        first = all(v2 != v for (_, v2) in es.values[:i])
        want = z3.And(val == _as64(es, v), z3.BoolVal(first))
        k.ensures("TryToGetNameFromEnum.is[%s]" % nm, z3.Implies(declared, z3.And(k.outc(8 + i), (k.outv(8 + i) != 0) == want)))


contract_enum_known.externals = ENUM_EXTERNALS


def contract_enum_from_name(k, spec_ref):
    es = _spec(spec_ref)
    k.region("p", nonnull=True)
    # the argument is a NUL-terminated string inside the buffer
    k.requires(z3.And(z3.UGE(k.n, enc.bv(1, 64)), z3.ULE(k.n, enc.bv(STR_MAX, 64)), z3.Select(k.P0, k.n - 1) == 0))

    def is_name(nm):
        bs = nm.encode() + b"\0"
        return z3.And(z3.UGE(k.n, enc.bv(len(bs), 64)), *[z3.Select(k.P0, enc.bv(i, 64)) == enc.bv(c, 8) for i, c in enumerate(bs)])
    hits = [(is_name(nm), v) for (nm, v) in es.values]
    k.ensures("returns-true-iff-a-declared-name", (k.ret == 1) == z3.Or([h for (h, _) in hits]))
    for (nm, v), (h, _) in zip(es.values, hits):
        k.ensures("value-of[%s]" % nm, z3.Implies(h, z3.And(k.outc(0), k.outv(0) == _as64(es, v))))
    a = k.forall_off()
    k.ensures("read-only", z3.Implies(z3.ULT(a, k.n), z3.Select(k.P1, a) == z3.Select(k.P0, a)))


contract_enum_from_name.externals = ENUM_EXTERNALS


def enum_jobs(specs_mod, include_dir, prefix="", only_safety=False):
    import importlib
    mod = importlib.import_module(specs_mod)
    jobs = []
    for n, es in mod.ENUMS.items():
        ws = [("enum_known_" + n, enum_known_wrapper(es), "vlib.llvc.corpus:contract_enum_known", dict(spec_ref="%s:%s" % (specs_mod, "ENUM_" + n))),
              ("enum_from_name_" + n, enum_from_name_wrapper(es), "vlib.llvc.corpus:contract_enum_from_name", dict(spec_ref="%s:%s" % (specs_mod, "ENUM_" + n)))]
        for w in ws:
            jobs.append(dict(tag="corpus_" + w[0], includes=[es.emb + ".h"], include_dirs=[include_dir], preamble="", wrappers=[w],
                             prefix=prefix, unroll=80, only_safety=only_safety))
    return jobs
