"""E2 harness: wrapper TU -> clang -> LLVM IR -> obligations -> z3, plus native replay.

Every wrapper has the fixed signature
    extern "C" uint64_t NAME(unsigned char* p, size_t n, uint64_t a0, uint64_t a1,
                             unsigned char* q, size_t m)
(p,n) primary buffer, (q,m) secondary buffer, a0/a1 scalars; observables are reported with
O(id, value), a call to the external `vprobe`, which the encoder records as (reach condition,
value term) without any memory effect (natively it stores into a table)."""
import hashlib
import importlib
import json
import os
import subprocess
import sys
import tempfile
import time
import traceback

import z3

from vlib import core
from vlib.llvc import enc, ir

OUTN = 16
SAN = ("-fsanitize=signed-integer-overflow,shift,integer-divide-by-zero,null,alignment,bounds,pointer-overflow,bool,enum,"
       "unreachable,return,vla-bound,float-cast-overflow")
CXXFLAGS = ["-std=c++14", "-O2", "-mllvm", "-inline-threshold=100000", "-fno-exceptions", "-fno-vectorize",
            "-fno-slp-vectorize", SAN, "-fsanitize-trap=all", "-S", "-emit-llvm", "-Wno-everything"]
PROLOGUE = '''#include <cstdint>
#include <cstddef>
#include <cstring>
extern "C" void vprobe(int id, uint64_t value) noexcept;   // observable #id (recorded by the encoder, no memory effect)
extern "C" void vcstr(int id, const char* s) noexcept;     // C-string observable #id: the encoder records the pointer and the memory at the call
#define O(ID, V) vprobe((ID), (uint64_t)(V))
#define W(NAME) extern "C" uint64_t NAME(unsigned char* p, size_t n, uint64_t a0, uint64_t a1, unsigned char* q, size_t m)
'''
Z3_MS = int(os.environ.get("VERIF_E2_Z3_MS", "180000"))


def build_dir():
    d = os.path.join(core.BUILD, "llvc")
    os.makedirs(d, exist_ok=True)
    return d


def compile_ll(cc_text, tag, extra_flags=(), include_dirs=()):
    d = tempfile.mkdtemp(prefix="tu_%s_" % tag, dir=build_dir())
    src = os.path.join(d, "w.cc")
    with open(src, "w") as f:
        f.write(cc_text)
    out = os.path.join(d, "w.ll")
    cmd = ["clang++"] + CXXFLAGS + list(extra_flags) + ["-I" + core.REPO] + ["-I" + x for x in include_dirs] + [src, "-o", out]
    r = subprocess.run(cmd, capture_output=True, text=True)
    if r.returncode != 0:
        raise core.CheckerError("clang++ failed for TU %s:\n%s" % (tag, r.stderr[-3000:]))
    with open(out) as f:
        text = f.read()
    return text, d


class K:
    """Contract context for one wrapper.  Memory is per region: P0/Q0/O0 are the initial byte
    arrays of the regions (p,n), (q,m), (out,8*OUTN), indexed by the offset from the region base;
    P1/Q1/O1 the final ones."""

    def __init__(self):
        self.p, self.n = z3.BitVec("p", 64), z3.BitVec("n", 64)
        self.a0, self.a1 = z3.BitVec("a0", 64), z3.BitVec("a1", 64)
        self.q, self.m = z3.BitVec("q", 64), z3.BitVec("m", 64)
        self.P0, self.Q0 = (z3.Array("mem0:" + x, enc.BV64, enc.BV8) for x in ("p", "q"))
        self.P1, self.Q1 = (z3.Array("mem1!placeholder:" + x, enc.BV64, enc.BV8) for x in ("p", "q"))
        self._obs_c = {}
        self._obs_v = {}
        self.ret = z3.BitVec("ret!placeholder", 64)
        self.regions = {}
        self.req = []
        self.ens = []
        self.n_forall = 0
        self.ghost = []
        self.q_from_p = None     # C20 overlap harnesses: q is p + a0 inside the wrapper
        self.cut_inv = None      # loop cutpoint invariant: fn(header, havoc_values, entry_values) -> z3 Bool (enc.cut_header)
        self.cut_axioms = None   # fn(header, havoc_values, entry_values) -> z3 Bool: instances of spec-function definitions (assumed)
        self.abstract_mul = False   # prove ensures first with products abstracted to an uninterpreted commutative function
        self.case_ens = []       # (name, [selector terms], fn(values) -> z3 goal | None): see ensures_by_cases
        self.trip_loop = None    # ordinal of a top-level loop whose trip count is case-split (harness.verify_function)
        self.encoder = None      # the encoder of the current case (for witness terms in lazy ensures)
        self.splits = None       # optional fn() -> [(label, cond)]: exhaustive case split used for step/ensures obligations

    def region(self, name, writable=True, nonnull=True):
        base, size = {"p": (self.p, self.n), "q": (self.q, self.m)}[name]
        self.regions[name] = enc.Region(name, base, size, writable, "param", nullable=not nonnull)
        c = [z3.ULT(base, enc.bv(1 << 60, 64)), z3.ULT(size, enc.bv(1 << 59, 64))]
        if nonnull:
            c.append(base != 0)
        self.req.append(z3.And(c))

    def requires(self, cond):
        self.req.append(cond)

    def ensures(self, name, cond):
        self.ens.append((name, cond))

    def ensures_by_cases(self, name, selectors, goal_for):
        """The feasible values of the selector terms are enumerated (solver, blocking clauses); for each value
        tuple the goal goal_for(values) is proved under selectors == values.  goal_for returns None for a tuple
        the contract does not allow at all (reported as refuted)."""
        self.case_ens.append((name, selectors, goal_for))

    def forall_off(self, hint="a"):
        """A fresh offset that is universally quantified in `ensures` (the negation is solved)."""
        self.n_forall += 1
        return z3.BitVec("%s!forall%d" % (hint, self.n_forall), 64)

    def forall_bv(self, hint, w):
        self.n_forall += 1
        return z3.BitVec("%s!forall%d" % (hint, self.n_forall), w)

    def outv(self, i):
        """Value of observable #i (placeholder; meaningful only where outc(i) holds)."""
        if i not in self._obs_v:
            self._obs_v[i] = z3.BitVec("obs!placeholder:v%d" % i, 64)
            self._obs_c[i] = z3.Bool("obs!placeholder:c%d" % i)
        return self._obs_v[i]

    def outc(self, i):
        """Condition under which observable #i was reported."""
        self.outv(i)
        return self._obs_c[i]

    def obs_eq(self, i, when, spec):
        """`when` implies that observable #i was reported and equals spec."""
        return z3.Implies(when, z3.And(self.outc(i), self.outv(i) == spec))

    def obs_flag(self, i, spec_bool, when=True):
        """Observable #i is always reported (under `when`) and is nonzero exactly when spec_bool."""
        g = z3.And(self.outc(i), (self.outv(i) != 0) == spec_bool)
        return g if when is True else z3.Implies(when, g)


def load_le(mem, addr, nbytes):
    bs = [z3.Select(mem, addr + enc.bv(i, 64)) for i in range(nbytes)]
    return z3.Concat(*reversed(bs)) if nbytes > 1 else bs[0]


def load_be(mem, addr, nbytes):
    bs = [z3.Select(mem, addr + enc.bv(i, 64)) for i in range(nbytes)]
    return z3.Concat(*bs) if nbytes > 1 else bs[0]


def abstract_mul(formulas):
    """Replaces every product of two non-constant bit-vectors (and the corresponding no-overflow predicates) by an
    uninterpreted function of the unordered operand pair.  An over-approximation: `unsat` for the abstraction is
    `unsat` for the real formula; it removes multiplier circuits from obligations that only need x*y == y*x == itself."""
    cache = {}
    ufs = {}

    def uf(kind, w):
        key = (kind, w)
        if key not in ufs:
            rng = z3.BitVecSort(w) if kind == "mul" else z3.BoolSort()
            ufs[key] = z3.Function("abs!%s!%d" % (kind, w), z3.BitVecSort(w), z3.BitVecSort(w), rng)
        return ufs[key]
    kinds = {z3.Z3_OP_BMUL: "mul", z3.Z3_OP_BUMUL_NO_OVFL: "umul_noovfl", z3.Z3_OP_BSMUL_NO_OVFL: "smul_noovfl", z3.Z3_OP_BSMUL_NO_UDFL: "smul_noudfl"}

    targets = {}

    def walk(e):
        i = e.get_id()
        if i in cache:
            return
        cache[i] = True
        if not z3.is_app(e):
            return
        for a in e.children():
            walk(a)
        kd = e.decl().kind()
        if kd in kinds and e.num_args() == 2 and not any(z3.is_bv_value(a) for a in e.children()):
            x, y = e.arg(0), e.arg(1)
            sh = 0
            if kd == z3.Z3_OP_BMUL:
                # (x << c) * y == (x * y) << c in the ring of w-bit vectors: left shifts by constants are pulled out of the product
                def strip(t):
                    n = 0
                    while True:
                        kd2 = t.decl().kind()
                        if kd2 == z3.Z3_OP_BSHL and z3.is_bv_value(t.arg(1)):
                            n += t.arg(1).as_long()
                            t = t.arg(0)
                            continue
                        if kd2 == z3.Z3_OP_ITE:
                            # ite(c, 0, x << k) == ite(c, 0, x) << k   (and symmetrically)
                            a_, b_ = t.arg(1), t.arg(2)
                            for zero, other, flip in ((a_, b_, False), (b_, a_, True)):
                                if z3.is_bv_value(zero) and zero.as_long() == 0 and other.decl().kind() == z3.Z3_OP_BSHL and z3.is_bv_value(other.arg(1)):
                                    n += other.arg(1).as_long()
                                    t = z3.If(t.arg(0), other.arg(0), zero) if flip else z3.If(t.arg(0), zero, other.arg(0))
                                    break
                            else:
                                return t, n
                            continue
                        return t, n
                (x, sx), (y, sy) = strip(x), strip(y)
                sh = sx + sy
            if x.get_id() > y.get_id():
                x, y = y, x
            app = uf(kinds[kd], x.size())(x, y)
            if sh:
                app = (app << sh) if sh < x.size() else z3.BitVecVal(0, x.size())
            targets[i] = (e, app)
    fs = list(formulas)          # not simplified: the rewriter pushes extracts through products and would split one product into two
    for f in fs:
        walk(f)
    if not targets:
        return fs
    sub = list(targets.values())
    out = [z3.substitute(f, *sub) for f in fs]
    # commutativity, instantiated for every pair of abstracted applications of the same function
    apps = []
    for (_, u) in sub:
        while z3.is_app(u) and u.decl().kind() == z3.Z3_OP_BSHL:
            u = u.arg(0)
        if z3.is_app(u) and u.num_args() == 2 and u.decl().name().startswith("abs!"):
            apps.append(u)
    for i in range(len(apps)):
        for j in range(i + 1, len(apps)):
            u, v = apps[i], apps[j]
            if u.decl().eq(v.decl()):
                out.append(z3.Implies(z3.And(u.arg(0) == v.arg(1), u.arg(1) == v.arg(0)), u == v))
            elif u.decl().name().startswith("abs!mul!") and v.decl().name().startswith("abs!mul!") and u.size() != v.size():
                # truncation is a ring homomorphism: the low bits of a wide product are the narrow product of the low bits
                wide, narrow = (u, v) if u.size() > v.size() else (v, u)
                nw = narrow.size()
                lo = lambda t: z3.Extract(nw - 1, 0, t)
                for (a_, b_) in ((0, 1), (1, 0)):
                    out.append(z3.Implies(z3.And(lo(wide.arg(0)) == narrow.arg(a_), lo(wide.arg(1)) == narrow.arg(b_)), lo(wide) == narrow))
    return out


def _solve(assertions, timeout_ms):
    s = z3.Solver()
    s.set("timeout", timeout_ms)
    for a in assertions:
        s.add(a)
    t0 = time.time()
    r = s.check()
    if r == z3.unknown and timeout_ms >= Z3_MS and "timeout" in s.reason_unknown() + "canceled":
        # a full-budget query that ran out of (wall-clock) time: the machine may simply be oversubscribed (several checks
        # at once); one retry with three times the budget keeps the verdict from flipping with the load.  `sat` / `unsat`
        # are never revisited, so this cannot turn a decided obligation into another verdict.
        s2 = z3.Solver()
        s2.set("timeout", 3 * timeout_ms)
        for a in assertions:
            s2.add(a)
        r2 = s2.check()
        if r2 != z3.unknown:
            return r2, s2, time.time() - t0
    return r, s, time.time() - t0


def small_model(assertions, k, timeout_ms):
    """Prefer a counterexample with small buffers (replayable natively with exact-size allocations)."""
    for lim in (16, 96):
        extra = [z3.ULE(k.n, enc.bv(lim, 64)), z3.ULE(k.m, enc.bv(lim, 64))]
        r, s, dt = _solve(list(assertions) + extra, min(timeout_ms, 20000))
        if r == z3.sat:
            return s.model()
    return None


def model_inputs(model, k, max_bytes=96):
    """Concrete input described by a model: params and the bytes of the param regions."""
    def ev(t):
        v = model.eval(t, model_completion=True)
        return v.as_long()
    d = {"p": ev(k.p), "n": ev(k.n), "a0": ev(k.a0), "a1": ev(k.a1), "q": ev(k.q), "m": ev(k.m)}
    for nm, arr, size, rn in (("pbytes", k.P0, k.n, "p"), ("qbytes", k.Q0, k.m, "q")):
        if rn not in k.regions:
            d[nm] = None
            continue
        sz = ev(size)
        if sz > max_bytes:
            d[nm] = None
            d[nm + "_note"] = "region of %d bytes not materialised" % sz
            continue
        d[nm] = [ev(z3.Select(arr, enc.bv(i, 64))) for i in range(sz)]
    return d


def verify_function(mod, fname, contract, params, unroll=0, prop_prefix="", only_safety=False, div_fresh=False):
    """Returns list of core.Obligation for one wrapper.  A contract may ask (k.trip_loop = ordinal) for path
    splitting on the trip count of one loop: the wrapper is then verified once per trip count D = 0, 1, ...
    under the case hypothesis produced by the encoder, until a case in which no back edge had to be excluded."""
    k0 = K()
    contract(k0, **params)
    if k0.trip_loop is None:
        return _verify_case(mod, fname, contract, params, unroll, prop_prefix, only_safety, div_fresh, None)
    obs = []
    D = 0
    while True:
        case_obs, more = _verify_case(mod, fname, contract, params, unroll, prop_prefix, only_safety, div_fresh, (k0.trip_loop, D))
        obs += case_obs
        if not more:
            break
        D += 1
    obs.append(core.Obligation(prop_prefix + fname + ".trip-count-cases", core.PROVED, "llvc", 0.0,
                               detail="path splitting on the trip count of loop #%d: cases 0..%d, the last one without an excluded back edge (exhaustive by construction)" % (k0.trip_loop, D)))
    return obs


def _verify_case(mod, fname, contract, params, unroll, prop_prefix, only_safety, div_fresh, trip):
    obs = []
    t_all = time.time()
    if fname not in mod.functions:
        raise core.CheckerError("wrapper %s missing from the compiled module" % fname)
    fn = mod.functions[fname]
    k = K()
    contract(k, **params)
    e = enc.Encoder(mod, unroll=unroll)
    e.externals = dict(getattr(contract, "externals", {}))
    e.externals["vprobe"] = _probe
    e.externals["vcstr"] = _cstr_probe
    e.probes = {}
    e.cstrs = {}
    e.div_fresh = div_fresh
    e.cut_inv = k.cut_inv
    e.cut_axioms = k.cut_axioms
    e.trip = trip
    k.encoder = e
    e.regions = list(k.regions.values())
    # parameter regions are pairwise disjoint objects
    pre = list(k.req)
    prs = list(k.regions.values())
    for i in range(len(prs)):
        for j in range(i + 1, len(prs)):
            a, b = prs[i], prs[j]
            pre.append(z3.Or(z3.ULE(a.base + a.size, b.base), z3.ULE(b.base + b.size, a.base)))

    def ptr_arg(name, numeric_term):
        if name in k.regions:
            return enc.Ptr(k.regions[name], enc.bv(0, 64))
        return enc.Ptr(None, numeric_term)      # unused pointer parameter: no provenance, any deref is an error
    args = [ptr_arg("p", k.p), k.n, k.a0, k.a1, ptr_arg("q", k.q), k.m]
    if len(fn.params) != 6:
        raise core.CheckerError("wrapper %s does not have the fixed 6-argument signature" % fname)
    mem0 = {"p": k.P0, "q": k.Q0}
    rv, mem_out, rc = e.encode(fn, args, mem0)
    k.ens = [(nm, cond() if callable(cond) else cond) for (nm, cond) in k.ens]     # lazy ensures (may mention cut-state variables)
    splits_raw = k.splits() if k.splits else []
    pre += e.assumptions
    pre += e.trip_assumed
    if rv is None:
        rv = enc.bv(0, 64)
    if z3.is_bool(rv):
        rv = enc.b2bv(rv, 64)
    elif rv.size() < 64:
        rv = z3.ZeroExt(64 - rv.size(), rv)
    subst = [(k.ret, rv), (k.P1, mem_out.get("p", k.P0)), (k.Q1, mem_out.get("q", k.Q0))]
    for i in k._obs_v:
        sites = e.probes.get(i, [])
        if not sites:
            cond, val = z3.BoolVal(False), z3.BitVec("obs!unreported%d" % i, 64)
        else:
            cond = z3.simplify(z3.Or([c for (c, _) in sites]))
            val = sites[-1][1]
            for (c, v) in reversed(sites[:-1]):
                val = z3.If(c, v, val)
        subst += [(k._obs_c[i], cond), (k._obs_v[i], val)]
    name0 = prop_prefix + fname + ("" if trip is None else "[trip=%d]" % trip[1])
    # cover
    r, s, dt = _solve(pre, Z3_MS)
    if r != z3.sat:
        if trip is not None and r == z3.unsat:
            return [], e.trip_cut      # no execution takes exactly this many iterations (e.g. the loop always runs at least once)
        obs.append(core.Obligation(name0 + ".cover", core.ERROR, "z3-5.1(py)", dt, detail="precondition not satisfiable: %s" % r))
        return obs if trip is None else (obs, False)
    # safety in one query, then individually if needed
    viol = [(nm, kind, c) for (nm, kind, c) in e.safety if not z3.is_false(z3.simplify(c))]
    n_trivial = len(e.safety) - len(viol)
    by_kind = {}
    if viol:
        r, s, dt = _solve(pre + [z3.Or([c for (_, _, c) in viol])], Z3_MS)
    else:
        r, dt = z3.unsat, 0.0
    if r == z3.unsat:
        for kind in ("trap", "bounds", "flag", "unwind"):
            cnt = sum(1 for (_, kk, _) in e.safety if kk == kind)
            if cnt:
                obs.append(core.Obligation("%s.%s[%d]" % (name0, kind, cnt), core.PROVED, "z3-5.1(py)", dt * cnt / max(1, len(e.safety)),
                                           detail="%d %s obligations discharged in one query" % (cnt, kind)))
    else:
        for (nm, kind, c) in viol:
            r1, s1, dt1 = _solve(pre + [c], Z3_MS)
            if r1 == z3.unsat:
                continue
            if r1 == z3.sat:
                verdict = core.REFUTED if kind != "flag" else core.ERROR
                mdl = small_model(pre + [c], k, Z3_MS) or s1.model()
                obs.append(core.Obligation("%s.%s" % (name0, _short(nm)), verdict, "z3-5.1(py)", dt1,
                                           model=model_inputs(mdl, k), detail=nm))
            else:
                obs.append(core.Obligation("%s.%s" % (name0, _short(nm)), core.UNKNOWN, "z3-5.1(py)", dt1, detail=nm))
        for kind in ("trap", "bounds", "flag", "unwind"):
            bad = [o for o in obs if ("." + kind + ":") in o.name or o.name.split(".")[-1].startswith(kind)]
            cnt = sum(1 for (_, kk, _) in e.safety if kk == kind)
            if cnt and not bad:
                obs.append(core.Obligation("%s.%s[%d]" % (name0, kind, cnt), core.PROVED, "z3-5.1(py)", 0.0))
    # loop cutpoints: the invariant holds on entry and is re-established by every back edge
    splits = [(lab, z3.substitute(c, *subst)) for (lab, c) in splits_raw]
    for hdr, cut in e.cuts.items():
        goals = [("loop[%s].invariant-on-entry" % hdr, [cut["entry_reach"]], k.cut_inv(hdr, cut["entry"], cut["entry"]))]
        for i, (cond, vals) in enumerate(cut["back"]):
            goals.append(("loop[%s].invariant-preserved[back-edge %d]" % (hdr, i), [cond], k.cut_inv(hdr, vals, cut["entry"])))
        if not cut["back"]:
            obs.append(core.Obligation("%s.loop[%s].has-back-edge" % (name0, hdr), core.ERROR, "llvc", 0.0, detail="cut loop without reachable back edge"))
        for (nm, hyps, goal) in goals:
            obs += _prove_split(name0 + "." + nm, pre + hyps, goal, splits if "preserved" in nm else [], k, None)
    if splits:
        r, s, dt = _solve(pre + [z3.Not(z3.Or([c for (_, c) in splits]))] + [z3.Or([z3.And(cut["entry_reach"], k.cut_inv(h, cut["havoc"], cut["entry"])) for h, cut in e.cuts.items()] or [z3.BoolVal(True)])], Z3_MS)
        obs.append(core.Obligation(name0 + ".case-split-exhaustive", core.PROVED if r == z3.unsat else (core.ERROR if r == z3.sat else core.UNKNOWN), "z3-5.1(py)", dt,
                                   detail="the case split used for the step/ensures obligations covers every state satisfying the invariant"))
    # functional / frame obligations: one batched query first, individual queries only if it is not unsat
    ens = [] if only_safety else [(nm, z3.substitute(cond, *subst)) for (nm, cond) in k.ens]
    batched = False
    if False and len(ens) > 1:   # measured: the disjunctive batch is 15x slower than separate queries
        r, s, dt = _solve(pre + [rc, z3.Or([z3.Not(g) for (_, g) in ens])], min(Z3_MS, 30000))
        if r == z3.unsat:
            batched = True
            for (nm, g) in ens:
                obs.append(core.Obligation("%s.%s" % (name0, nm), core.PROVED, "z3-5.1(py)", dt / len(ens),
                                           detail="discharged in one query with the wrapper's other %d ensures" % (len(ens) - 1)))
    for (nm, goal) in ([] if batched else ens):
        if k.abstract_mul:
            r, s, dt = _solve(abstract_mul(pre + [rc, z3.Not(goal)]), Z3_MS)
            if r != z3.unsat:        # the abstraction is only good for proofs; anything else is decided on the real formula
                r, s, dt = _solve(pre + [rc, z3.Not(goal)], Z3_MS)
        else:
            r, s, dt = _solve(pre + [rc, z3.Not(goal)], Z3_MS)
        if r == z3.unsat:
            obs.append(core.Obligation("%s.%s" % (name0, nm), core.PROVED, "z3-5.1(py)", dt))
        elif r == z3.sat:
            mdl = small_model(pre + [rc, z3.Not(goal)], k, Z3_MS) or s.model()
            md = model_inputs(mdl, k)
            try:
                md["ret"] = mdl.eval(rv, model_completion=True).as_long()
                md["observables"] = {str(i): (mdl.eval(z3.substitute(k.outv(i), *subst), model_completion=True).as_long()
                                              if z3.is_true(mdl.eval(z3.substitute(k.outc(i), *subst), model_completion=True)) else None)
                                     for i in sorted(k._obs_v)}
                md["p_post"] = None if md.get("pbytes") is None else [mdl.eval(z3.Select(mem_out.get("p", k.P0), enc.bv(i, 64)), model_completion=True).as_long() for i in range(len(md["pbytes"]))]
                for (gn, gt) in k.ghost:
                    md["ghost:" + gn] = str(mdl.eval(z3.substitute(gt, *subst), model_completion=True))
            except Exception:
                pass
            obs.append(core.Obligation("%s.%s" % (name0, nm), core.REFUTED, "z3-5.1(py)", dt, model=md, detail="ensures %s" % nm))
        else:
            obs.append(core.Obligation("%s.%s" % (name0, nm), core.UNKNOWN, "z3-5.1(py)", dt, detail="ensures %s: %s" % (nm, s.reason_unknown())))
    for (nm, sels, goal_for) in ([] if only_safety else k.case_ens):
        sels = [z3.substitute(t, *subst) for t in sels]
        found = []
        while True:
            block = [z3.Not(z3.And([t == v for t, v in zip(sels, vals)])) for vals in found]
            r, s, dt = _solve(pre + [rc] + block, Z3_MS)
            if r == z3.unsat:
                break
            if r != z3.sat or len(found) >= 32:
                obs.append(core.Obligation("%s.%s{case enumeration}" % (name0, nm), core.UNKNOWN, "z3-5.1(py)", dt, detail="selector values not enumerated: %s" % r))
                break
            mdl = s.model()
            vals = [mdl.eval(t, model_completion=True) for t in sels]
            found.append(vals)
            ints = [v.as_long() for v in vals]
            goal = goal_for(ints)
            cname = "%s.%s{%s}" % (name0, nm, ",".join(str(i) for i in ints))
            if goal is None:
                obs.append(core.Obligation(cname, core.REFUTED, "z3-5.1(py)", dt, model=model_inputs(small_model(pre + [rc] + block, k, Z3_MS) or mdl, k),
                                           detail="selector values %s are not allowed by the contract" % ints))
                continue
            hyp = pre + [rc] + [t == v for t, v in zip(sels, vals)]
            parts = goal if isinstance(goal, list) else [("", goal)]
            for part in parts:
                plab, pgoal = part[0], part[1]
                mode = part[2] if len(part) > 2 else ""
                pname = cname + (":" + plab if plab else "")
                if mode == "each":
                    # a conjunction proved conjunct by conjunct on one incremental solver (the hypotheses are preprocessed once)
                    t_each = time.time()
                    sv = z3.Solver()
                    sv.set("timeout", Z3_MS)
                    for h_ in hyp:
                        sv.add(h_)
                    bad = None
                    for g in pgoal:
                        g = z3.substitute(g, *subst)
                        sv.push()
                        sv.add(z3.Not(g))
                        rr = sv.check()
                        if rr != z3.unsat:
                            bad = (rr, g, sv.model() if rr == z3.sat else None, sv.reason_unknown() if rr != z3.sat else "")
                            sv.pop()
                            break
                        sv.pop()
                    dt2 = time.time() - t_each
                    if bad is None:
                        obs.append(core.Obligation(pname, core.PROVED, "z3-5.1(py)", dt2, detail="%d conjuncts, incremental" % len(pgoal)))
                    elif bad[0] == z3.sat:
                        m2 = small_model(hyp + [z3.Not(bad[1])], k, Z3_MS) or bad[2]
                        obs.append(core.Obligation(pname, core.REFUTED, "z3-5.1(py)", dt2, model=model_inputs(m2, k), detail="ensures %s for selector values %s: conjunct %s" % (nm, ints, str(bad[1])[:200])))
                    else:
                        obs.append(core.Obligation(pname, core.UNKNOWN, "z3-5.1(py)", dt2, detail=bad[3]))
                    continue
                if mode == "any":
                    # equivalent formulations of one clause: it is proved as soon as one of them is (escalating budgets)
                    alts_ = [z3.substitute(g, *subst) for g in pgoal]
                    done, last = False, None
                    t_any = time.time()
                    for budget in (4000, 30000, Z3_MS):
                        for g in alts_:
                            r2, s2, dt2 = _solve(hyp + [z3.Not(g)], budget)
                            last = (r2, s2, g)
                            if r2 in (z3.unsat, z3.sat):
                                done = True
                                break
                        if done:
                            break
                    r2, s2, pgoal = last
                    dt2 = time.time() - t_any
                    if r2 == z3.unsat:
                        obs.append(core.Obligation(pname, core.PROVED, "z3-5.1(py)", dt2))
                        continue
                else:
                    pgoal = z3.substitute(pgoal, *subst)
                # "lemma": proved without the case's hypotheses (a closed, universally quantified fact), then usable as a hint;
                # "hint": proved under the hypotheses and then added to them for the later parts (cut rule)
                if mode != "any":
                    r2, s2, dt2 = _solve(([] if mode == "lemma" else hyp) + [z3.Not(pgoal)], 30000 if mode == "try-hint" else Z3_MS)
                if mode == "try-hint":
                    # an optional intermediate fact (e.g. one of several candidate witnesses): used if it is proved, ignored otherwise
                    if r2 == z3.unsat:
                        obs.append(core.Obligation(pname + " (optional-hint)", core.PROVED, "z3-5.1(py)", dt2, detail="intermediate fact, then used as a hypothesis"))
                        hyp = hyp + [pgoal]
                    continue
                if r2 == z3.unsat:
                    obs.append(core.Obligation(pname, core.PROVED, "z3-5.1(py)", dt2))
                    if mode in ("lemma", "hint"):
                        hyp = hyp + ([pgoal] if mode == "hint" else list(part[3]))
                elif r2 == z3.sat:
                    m2 = small_model(hyp + [z3.Not(pgoal)], k, Z3_MS) or s2.model()
                    md = model_inputs(m2, k)
                    try:
                        md["ret"] = m2.eval(rv, model_completion=True).as_long()
                        md["observables"] = {str(i): (m2.eval(z3.substitute(k.outv(i), *subst), model_completion=True).as_long()
                                                      if z3.is_true(m2.eval(z3.substitute(k.outc(i), *subst), model_completion=True)) else None) for i in sorted(k._obs_v)}
                    except Exception:
                        pass
                    obs.append(core.Obligation(pname, core.REFUTED, "z3-5.1(py)", dt2, model=md, detail="ensures %s for selector values %s" % (nm, ints)))
                else:
                    obs.append(core.Obligation(pname, core.UNKNOWN, "z3-5.1(py)", dt2, detail=s2.reason_unknown()))
    # the function must be able to return (no vacuous proof through an always-trapping body)
    # (a vacuity guard, not an obligation: `unknown` under load is tolerated, only a definite `unsat` is an error)
    r, s, dt = _solve(pre + [rc, z3.ULE(k.n, enc.bv(64, 64)), z3.ULE(k.m, enc.bv(64, 64))], min(Z3_MS, 20000))
    if r == z3.unsat:
        r, s, dt = _solve(pre + [rc], Z3_MS)
        if r == z3.unsat:
            obs.append(core.Obligation(name0 + ".returns-cover", core.ERROR, "z3-5.1(py)", dt, detail="no input reaches a return (vacuous contract)"))
    return obs if trip is None else (obs, e.trip_cut)


def _prove_split(name, hyps, goal, splits, k, finish_model):
    """Proves hyps => goal; when the direct query is not decided quickly and a case split is given, per case."""
    r, s, dt = _solve(hyps + [z3.Not(goal)], 20000 if splits else Z3_MS)
    if r == z3.unsat:
        return [core.Obligation(name, core.PROVED, "z3-5.1(py)", dt)]
    if r == z3.sat or not splits:
        if r == z3.sat:
            mdl = small_model(hyps + [z3.Not(goal)], k, Z3_MS) or s.model()
            md = model_inputs(mdl, k)
            md["cut-state"] = {str(d): str(mdl[d]) for d in mdl.decls() if d.name().startswith("cut!")}
            return [core.Obligation(name, core.REFUTED, "z3-5.1(py)", dt, model=md, detail=name)]
        return [core.Obligation(name, core.UNKNOWN, "z3-5.1(py)", dt, detail=s.reason_unknown())]
    out = []
    for (lab, c) in splits:
        r, s, dt = _solve(hyps + [c, z3.Not(goal)], Z3_MS)
        nm = "%s{%s}" % (name, lab)
        if r == z3.unsat:
            out.append(core.Obligation(nm, core.PROVED, "z3-5.1(py)", dt))
        elif r == z3.sat:
            mdl = small_model(hyps + [c, z3.Not(goal)], k, Z3_MS) or s.model()
            md = model_inputs(mdl, k)
            md["cut-state"] = {str(d): str(mdl[d]) for d in mdl.decls() if d.name().startswith("cut!")}
            out.append(core.Obligation(nm, core.REFUTED, "z3-5.1(py)", dt, model=md, detail=nm))
        else:
            out.append(core.Obligation(nm, core.UNKNOWN, "z3-5.1(py)", dt, detail=s.reason_unknown()))
    return out


def _probe(encoder, args, m, r, where):
    ident = z3.simplify(args[0])
    if not z3.is_bv_value(ident):
        raise enc.EncError("vprobe id is not a constant at %s" % where)
    encoder.probes.setdefault(ident.as_long(), []).append((r, args[1]))
    return None, m


def _cstr_probe(encoder, args, m, r, where):
    ident = z3.simplify(args[0])
    ptr = args[1]
    if not z3.is_bv_value(ident) or not isinstance(ptr, enc.Ptr) or ptr.region is None or ptr.alts:
        raise enc.EncError("vcstr needs a constant id and a pointer with unique provenance at %s" % where)
    m, arr = encoder.region_array(m, ptr.region)
    encoder.cstrs.setdefault(ident.as_long(), []).append((r, ptr, arr))
    return None, m


def _short(nm):
    # "trap:fname:block#i:what" -> "trap:what@block#i"
    parts = nm.split(":")
    if len(parts) >= 4:
        return "%s:%s@%s" % (parts[0], ":".join(parts[3:]), parts[2])
    return nm


# -- TU-level job (runs in a pool worker) -------------------------------------------


def run_tu(job):
    """job = dict(tag, includes[list of header paths relative to repo], wrappers=[(name, body, contract_ref, params)],
    flags, unroll, prefix).  contract_ref = "module:function"."""
    sys.setrecursionlimit(100000)
    t0 = time.time()
    try:
        text = PROLOGUE + "".join('#include "%s"\n' % h for h in job["includes"]) + job.get("preamble", "")
        for (name, body, cref, params) in job["wrappers"]:
            text += "W(%s) {\n%s\n}\n" % (name, body)
        ll, d = compile_ll(text, job["tag"], job.get("flags", ()), job.get("include_dirs", ()))
        t_compile = time.time() - t0
        mod = ir.parse_module(ll)
        obs = []
        for (name, body, cref, params) in job["wrappers"]:
            mname, fnname = cref.split(":")
            contract = getattr(importlib.import_module(mname), fnname)
            try:
                obs += verify_function(mod, name, contract, params, unroll=job.get("unroll", 0), prop_prefix=job.get("prefix", ""),
                                       only_safety=job.get("only_safety", False), div_fresh=job.get("div_fresh", False))
            except (enc.EncError, ir.IRError) as ex:
                obs.append(core.Obligation(job.get("prefix", "") + name + ".encode", core.ERROR, "llvc", 0.0,
                                           detail="%s: %s" % (type(ex).__name__, ex)))
        if not os.environ.get("VERIF_KEEP_TU"):
            import shutil
            shutil.rmtree(d, ignore_errors=True)
        return (job["tag"], "ok", obs, {"compile_s": round(t_compile, 2), "total_s": round(time.time() - t0, 2),
                                          "ir_lines": ll.count("\n"), "wrappers": len(job["wrappers"])})
    except core.CheckerError as ex:
        return (job["tag"], "checker-error", str(ex), {})
    except BaseException:
        return (job["tag"], "crash", traceback.format_exc()[-2500:], {})


def run_jobs(run, jobs, nproc=16):
    import multiprocessing
    ctx = multiprocessing.get_context("fork")
    # wall budget of one batch of translation units: the thorough tier has batches (wide Bcd writes) that need ~20 min on an idle
    # machine, so it gets more room for a loaded one
    budget = int(os.environ.get("VERIF_E2_WALL_S", "2400" if getattr(run, "tier", "quick") == "quick" else "10800"))
    with ctx.Pool(min(nproc, max(1, len(jobs)))) as pool:
        pending = [(j["tag"], pool.apply_async(run_tu, (j,))) for j in jobs]
        results = []
        t_end = time.time() + budget
        for tag, ar in pending:
            try:
                results.append(ar.get(timeout=max(1.0, t_end - time.time())))
            except Exception as ex:   # multiprocessing.TimeoutError or a worker crash
                results.append((tag, "checker-error", "TU did not finish within the %d s wall budget (%s)" % (budget, type(ex).__name__), {}))
        pool.terminate()
    stats = {"tus": 0, "ir_lines": 0, "compile_s": 0.0, "wrappers": 0}
    for tag, status, payload, st in results:
        if status != "ok":
            run.error("TU %s: %s %s" % (tag, status, payload))
            continue
        run.extend(payload)
        stats["tus"] += 1
        for kk in ("ir_lines", "compile_s", "wrappers"):
            stats[kk] += st.get(kk, 0)
    st0 = run.extra.setdefault("llvc", {"tus": 0, "ir_lines": 0, "compile_s": 0.0, "wrappers": 0})
    for kk in stats:
        st0[kk] = round(st0[kk] + stats[kk], 2)
    return results


# -- native replay ---------------------------------------------------------------------

NATIVE_MAIN = r'''
#include <cstdio>
#include <cstdlib>
static uint64_t g_obs[64]; static int g_set[64];
extern "C" void vprobe(int id, uint64_t value) noexcept { if (id >= 0 && id < 64) { g_obs[id] = value; g_set[id] = 1; } }
extern "C" void vcstr(int id, const char* s) noexcept { printf("cstr %%d %%s\n", id, s); }
int main(int argc, char** argv) {
  // argv: n a0 a1 m pnull qnull, then n hex bytes, then m hex bytes
  size_t n = strtoull(argv[1], 0, 10); uint64_t a0 = strtoull(argv[2], 0, 10), a1 = strtoull(argv[3], 0, 10);
  size_t m = strtoull(argv[4], 0, 10); int pnull = atoi(argv[5]); int qalloc = atoi(argv[6]);
  // exact-size heap blocks so that ASan sees any access beyond the buffer (size 0 -> malloc(0) redzone)
  // argv[7], argv[8]: raw pointer values used when a pointer parameter is not a buffer (wrappers that read it as an integer)
  unsigned char* p = pnull == 2 ? (unsigned char*)(uintptr_t)strtoull(argv[7], 0, 10) : pnull ? nullptr : (unsigned char*)malloc(n);
  unsigned char* q = qalloc == 2 ? (unsigned char*)(uintptr_t)strtoull(argv[8], 0, 10) : qalloc ? (unsigned char*)malloc(m) : nullptr;
  int ai = 9;
  for (size_t i = 0; i < n && p && pnull == 0; ++i) p[i] = (unsigned char)strtoul(argv[ai++], 0, 16);
  for (size_t i = 0; i < m && q && qalloc == 1; ++i) q[i] = (unsigned char)strtoul(argv[ai++], 0, 16);
  uint64_t r = %(NAME)s(p, n, a0, a1, q, m);
  printf("ret %%llu\n", (unsigned long long)r);
  printf("obs"); for (int i = 0; i < 64; ++i) if (g_set[i]) printf(" %%d=%%llu", i, (unsigned long long)g_obs[i]); printf("\n");
  printf("p"); for (size_t i = 0; i < n && p && pnull == 0; ++i) printf(" %%02x", p[i]); printf("\n");
  printf("q"); for (size_t i = 0; i < m && q && qalloc == 1; ++i) printf(" %%02x", q[i]); printf("\n");
  return 0;
}
'''


def native_run(includes, name, body, inputs, preamble="", include_dirs=(), extra_flags=()):
    """Compiles the same wrapper natively with ASan+UBSan and runs it on `inputs` (dict from model_inputs).
    Returns dict(exit, stdout, stderr, ret, out, p, q)."""
    d = tempfile.mkdtemp(prefix="replay_", dir=build_dir())
    try:
        text = PROLOGUE + "".join('#include "%s"\n' % h for h in includes) + preamble
        text += "W(%s) {\n%s\n}\n" % (name, body)
        text += NATIVE_MAIN % {"NAME": name}
        src = os.path.join(d, "r.cc")
        open(src, "w").write(text)
        exe = os.path.join(d, "r")
        cmd = ["clang++", "-std=c++14", "-O1", "-g", "-fsanitize=address,undefined", "-fno-sanitize-recover=all",
               "-Wno-everything", "-I" + core.REPO] + ["-I" + x for x in include_dirs] + list(extra_flags) + [src, "-o", exe]
        r = subprocess.run(cmd, capture_output=True, text=True)
        if r.returncode != 0:
            return {"error": "native compile failed: " + r.stderr[-1500:]}
        pb = inputs.get("pbytes")
        qb = inputs.get("qbytes")
        # a pointer parameter is a buffer (exact-size heap block), null, or - for wrappers that only read it as a number - a raw value
        pmode = "2" if pb is None and inputs.get("p") else ("1" if inputs.get("p") == 0 or pb is None else "0")
        qmode = "1" if qb is not None else ("2" if inputs.get("q") else "0")
        argv = [exe, str(len(pb) if pb is not None and pmode == "0" else inputs["n"]), str(inputs["a0"]), str(inputs["a1"]),
                str(len(qb) if qb is not None else inputs["m"]), pmode, qmode, str(inputs.get("p", 0)), str(inputs.get("q", 0))]
        argv += ["%02x" % b for b in (pb or [])] * (pmode == "0") + ["%02x" % b for b in (qb or [])]
        env = dict(os.environ, ASAN_OPTIONS="detect_leaks=0:abort_on_error=0", UBSAN_OPTIONS="print_stacktrace=0")
        rr = subprocess.run(argv, capture_output=True, text=True, env=env, timeout=60)
        res = {"exit": rr.returncode, "stderr": rr.stderr[-1500:]}
        for ln in rr.stdout.splitlines():
            parts = ln.split()
            if parts[0] == "ret":
                res["ret"] = int(parts[1])
            elif parts[0] == "obs":
                res["obs"] = {x.split("=")[0]: int(x.split("=")[1]) for x in parts[1:]}
            elif parts[0] in ("p", "q"):
                res[parts[0]] = [int(x, 16) for x in parts[1:]]
        return res
    finally:
        import shutil
        shutil.rmtree(d, ignore_errors=True)


# -- engine self-validation: llvc's evaluation of the IR vs native execution ---------------------------


def concrete_eval(mod, fname, contract, params, inputs, unroll=0, div_fresh=False):
    """Evaluates wrapper `fname` on concrete inputs with the encoder's semantics: returns dict(ret, obs, p, q) or
    dict(trap=...) when a safety obligation is violated on these inputs."""
    fn = mod.functions[fname]
    k = K()
    contract(k, **params)
    if k.trip_loop is not None or k.cut_inv is not None:
        return {"skip": "loop-split / cut contracts are not evaluated concretely"}
    e = enc.Encoder(mod, unroll=unroll)
    e.externals = dict(getattr(contract, "externals", {}))
    e.externals["vprobe"] = _probe
    e.externals["vcstr"] = _cstr_probe
    e.probes, e.cstrs = {}, {}
    e.regions = list(k.regions.values())
    e.div_fresh = div_fresh

    def ptr_arg(name, numeric_term):
        if name in k.regions:
            return enc.Ptr(k.regions[name], enc.bv(0, 64))
        return enc.Ptr(None, numeric_term)
    args = [ptr_arg("p", k.p), k.n, k.a0, k.a1, ptr_arg("q", k.q), k.m]
    rv, mem_out, rc = e.encode(fn, args, {"p": k.P0, "q": k.Q0})
    s = z3.Solver()
    s.set("timeout", 60000)
    for a in e.assumptions:
        s.add(a)
    pb, qb = inputs.get("pbytes") or [], inputs.get("qbytes") or []
    s.add(k.p == inputs["p"], k.n == len(pb) if inputs.get("pbytes") is not None else k.n == inputs["n"], k.a0 == inputs["a0"], k.a1 == inputs["a1"],
          k.q == inputs["q"], k.m == (len(qb) if inputs.get("qbytes") is not None else inputs["m"]))
    for i, b in enumerate(pb):
        s.add(z3.Select(k.P0, enc.bv(i, 64)) == b)
    for i, b in enumerate(qb):
        s.add(z3.Select(k.Q0, enc.bv(i, 64)) == b)
    if s.check() != z3.sat:
        return {"skip": "inputs inconsistent with the engine's region assumptions"}
    mdl = s.model()
    for (nm, kind, cond) in e.safety:
        if z3.is_true(mdl.eval(cond, model_completion=True)):
            return {"trap": nm}
    if rv is None:
        rv = enc.bv(0, 64)
    if z3.is_bool(rv):
        rv = enc.b2bv(rv, 64)
    out = {"ret": mdl.eval(rv, model_completion=True).as_long() if not z3.is_bool(rv) else None, "obs": {}}
    for i, sites in e.probes.items():
        for (c, v) in sites:
            if z3.is_true(mdl.eval(c, model_completion=True)):
                out["obs"][str(i)] = mdl.eval(v, model_completion=True).as_long()
    if inputs.get("pbytes") is not None:
        out["p"] = [mdl.eval(z3.Select(mem_out.get("p", k.P0), enc.bv(i, 64)), model_completion=True).as_long() for i in range(len(pb))]
    return out


def differential_job(job):
    """One TU: for each wrapper, `job["trials"]` random inputs satisfying the contract's precondition are run natively
    (ASan+UBSan) and through the engine's evaluation of the IR; every observable must agree.  Returns (tag, n_runs, mismatches)."""
    import random
    rng = random.Random(job.get("seed", 0))
    text = PROLOGUE + "".join('#include "%s"\n' % h for h in job["includes"]) + job.get("preamble", "")
    for (name, body, cref, params) in job["wrappers"]:
        text += "W(%s) {\n%s\n}\n" % (name, body)
    ll, d = compile_ll(text, job["tag"] + "_diff", job.get("flags", ()), job.get("include_dirs", ()))
    mod = ir.parse_module(ll)
    import shutil
    shutil.rmtree(d, ignore_errors=True)
    runs, bad = 0, []
    for (name, body, cref, params) in job["wrappers"]:
        mname, fnname = cref.split(":")
        contract = getattr(importlib.import_module(mname), fnname)
        k = K()
        contract(k, **params)
        for t in range(job.get("trials", 6)):
            # a random model of the precondition: small buffers, random contents and scalars
            s = z3.Solver()
            s.set("timeout", 20000)
            s.set("random_seed", rng.randrange(1 << 30))
            for r_ in k.req:
                s.add(r_)
            npb, nqb = rng.randrange(0, 17), rng.randrange(0, 17)
            s.add(z3.ULE(k.n, enc.bv(24, 64)), z3.ULE(k.m, enc.bv(24, 64)))
            hint = [k.p != 0, k.q != 0, k.n == npb, k.m == nqb, k.a0 == rng.choice([rng.randrange(0, 70), rng.getrandbits(64)]), k.a1 == rng.getrandbits(rng.choice([3, 8, 16, 33, 64]))]
            got = None
            for drop in range(len(hint) + 1):
                s.push()
                for h_ in hint[:len(hint) - drop]:
                    s.add(h_)
                if s.check() == z3.sat:
                    got = s.model()
                    s.pop()
                    break
                s.pop()
            if got is None:
                continue
            ev = lambda term: got.eval(term, model_completion=True).as_long()
            inputs = {"p": ev(k.p), "n": ev(k.n), "a0": ev(k.a0), "a1": ev(k.a1), "q": ev(k.q), "m": ev(k.m)}
            inputs["pbytes"] = [rng.getrandbits(8) if rng.random() < 0.8 else rng.choice([0, 0xff, 0x80, 0x99]) for _ in range(inputs["n"])] if "p" in k.regions and inputs["p"] else None
            inputs["qbytes"] = [rng.getrandbits(8) for _ in range(inputs["m"])] if "q" in k.regions and inputs["q"] else None
            if "p" in k.regions and not inputs["p"]:
                inputs["p"] = 0
            if "q" in k.regions and not inputs["q"]:
                inputs["q"] = 0
            sym = concrete_eval(mod, name, contract, params, inputs, unroll=job.get("unroll", 0), div_fresh=job.get("div_fresh", False))
            if "skip" in sym:
                continue
            nat = native_run(job["includes"], name, body, inputs, preamble=job.get("preamble", ""), include_dirs=job.get("include_dirs", ()),
                             extra_flags=[f for f in job.get("flags", ()) if f.startswith("-D")])
            if "error" in nat:
                bad.append({"wrapper": name, "error": nat["error"][-300:]})
                break
            runs += 1
            if "trap" in sym:
                if nat["exit"] == 0:
                    bad.append({"wrapper": name, "inputs": inputs, "engine": sym, "native": "exit 0"})
                continue
            same = nat.get("exit") == 0 and nat.get("ret") == sym["ret"] and (nat.get("obs") or {}) == sym["obs"] and ("p" not in sym or not inputs.get("pbytes") or nat.get("p") == sym["p"])
            if not same:
                bad.append({"wrapper": name, "inputs": inputs, "engine": sym, "native": {x: nat.get(x) for x in ("exit", "ret", "obs", "p")}})
    return (job["tag"], runs, bad[:3])
